"""C10 - serialized Fluentd events decode to exactly the record's visible fields.  Spec: specs/EventCodec.tla + EventCodecTrace.tla.
DESIGN.md section 5.15."""
import json
from lib import vlib
from checks import fncommon


def tstr(t):
    return bytes(t["p"]).decode("latin1") + ("a*%d" % t["n"] if t["n"] else "") + bytes(t["s"]).decode("latin1")


def klass(e):
    if e["res"] == "panic":
        return "panic"
    d1, d2 = e["decoded"], e["second"]
    if not d1["ok"] or not d2["ok"]:
        return "malformed-msgpack"
    if d1 != d2:
        return "second-output-differs"
    return "fields-differ"


def run(chk):
    r = fncommon.run_fn(chk, "ec", "EventCodecTrace", "EventCodecTrace.cfg")
    seen = {}
    for e, txt in r["findings"]:
        seen.setdefault(klass(e), e)
    for k, e in seen.items():
        chk.report("codec:" + k, "event serializer: values %s (unescaped=%s, rewrite=%s) decoded to fields %s / second output %s, which EventCodec!Check rejects"
                   % ([tstr(v) for v in e["values"]], e["unescaped"], e["rewrite"], [(bytes(f[0]).decode("latin1"), tstr(f[1])) for f in e["decoded"]["fields"]],
                      [(bytes(f[0]).decode("latin1"), tstr(f[1])) for f in e["second"]["fields"]]), {"event.json": e})
    chk.cov.update({"states": r["states"], "transitions": r["states"], "traces_validated_against_impl": r["events"],
                    "evaluations": r["events"], "distinct_nontrivial": r["cases"], "exhaustive": True,
                    "rule": "records x serialization configs enumerated by the driver: every role (plain / environment / hidden / five rewriter chains) of three fields x small values incl. escapes and a trailing backslash; schemas of 3,13,14,15,16,20 fields and a 16+ entry environment map; value lengths 1,15,16,31,32,255,256,65534..65537,70000 per field class and chain, with escape-bearing prefixes/suffixes so that the rewritten length crosses 65535/65536 in both directions; every string up to length %d over {a \\\\ n t x 2-byte-rune} through unescape and inline+unescape, flagged Unescaped or not; boundary timestamps; every record is serialized by two serializer instances (two outputs sharing one record)" % (7 if chk.tier == "thorough" else 4),
                    "samples": [json.loads(l) for l in open(r["first_trace"]).read().splitlines()[3:4]]})
    chk.assumptions += ["events are decoded with vmihailenco/msgpack primitives, independent of fastmsgpack; long values are a short prefix + a run of 'a' + a short suffix",
                        "values above 1 MiB (fixed serialization buffer) belong to C07"]


def replay(chk, path):
    run(chk)
