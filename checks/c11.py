"""C11 - chunks are complete, ordered, self-describing batches.  Spec: specs/Packer.tla + PackerTrace.tla.  DESIGN.md section 5.8."""
import json
from lib import vlib
from checks import fncommon

GROUPS = [  # (name, driver mode, spec Mode, maxBytes, maxRecords, sizes, depth quick, depth thorough)
    ("forward", "Forward", "ff", 40, 3, "11,14,20,33,50", 5, 7),
    ("packed", "PackedForward", "ff", 60, 0, "11,14,20,33,50,61", 5, 6),
    ("packed-records-only", "PackedForward", "ff", 0, 2, "11,33", 6, 8),
    ("compressed", "CompressedPackedForward", "ff", 40, 3, "11,14,20,33,50", 5, 7),
    # production-sized messages: the encoder's 1 MiB message buffer grows and is reused by the chunks after a large one
    ("forward-large", "Forward", "ff", 3000000, 0, "20,70000,2400000", 4, 5),
    ("packed-large", "PackedForward", "ff", 3000000, 0, "20,70000,2400000", 4, 5),
    # payload lengths on both sides of the bin8 / bin16 length-header boundaries of the packed modes (255/256/257, 65535/65536/65537)
    ("packed-bin8-boundary", "PackedForward", "ff", 300, 0, "128,127,129", 4, 5),
    ("packed-bin16-boundary", "PackedForward", "ff", 70000, 0, "32768,32767,32769", 3, 4),
    ("datadog", "Datadog", "dd", 70, 3, "20,21,22,30,45,68,69,70", 4, 5),
    ("datadog-bytes-only", "Datadog", "dd", 100, 0, "47,48,49,50,20", 5, 6),
]


def run(chk):
    cov = chk.cov
    thorough = chk.tier == "thorough"
    st = tr = 0
    cov["mc_runs"] = []
    for cfg in ("Packer_ff.cfg", "Packer_dd.cfg"):
        r = chk.tlc_mc("Packer", cfg, timeout=900)
        if not r["ok"]:
            raise vlib.Inconclusive("spec-level counterexample in %s:\n%s" % (cfg, r.get("counterexample", "")[:3000]))
        st += r.get("distinct", 0); tr += r.get("generated", 0)
        cov["mc_runs"].append({"cfg": cfg, "distinct": r.get("distinct"), "ok": True})
    events = cases = 0
    sample = None
    # a pipeline's tag is expanded from key values, i.e. arbitrary bytes: two groups run under a tag that is not valid UTF-8
    TAGS = {"forward": b"dev.caf\xe9", "packed": b"d\xff.\xc3", "compressed": b"dev.\xe2\x82"}
    for name, mode, smode, mb, mr, sizes, dq, dt in GROUPS:
        tagb = TAGS.get(name, b"verif.tag")
        res = fncommon.run_fn(chk, "pk", "PackerTrace", "PackerTrace.cfg",
                              ["-mode", mode, "-maxbytes", str(mb), "-maxrecords", str(mr), "-sizes", sizes, "-depth", str(dt if thorough else dq), "-tag", tagb.hex()],
                              consts={"Mode": '"%s"' % smode, "MaxBytes": mb, "MaxRecords": mr, "Tag": '"%s"' % tagb.hex()}, tag="-" + name)
        events += res["events"]; cases += res["cases"]
        sample = sample or res["first_trace"]
        for e, txt in res["findings"][:2]:
            chk.report("packer:%s:%s" % (name, e.get("op")), "real chunk maker (%s, maxBytes=%s maxRecords=%s) step differs from Packer: %s" % (mode, mb, mr, json.dumps(e)[:700]),
                       {"event.json": e, "group": name})
    # the worker that feeds the chunk makers: every passed record reaches every output's chunks once, in order, also across tick
    # flushes and the stop flush (Worker.tla / WorkerTrace on the real LogProcessingWorker with two real Forward chunk makers)
    import random
    from checks import wkcommon
    wn, wev = wkcommon.run(chk, random.Random(chk.seed + 5), thorough, "c11")
    events += wev
    # chunk ids: unique, in creation order, for every behaviour of the wall clock (scripted through vhook.Clock)
    r = chk.tlc_mc("ChunkId", "ChunkId_quick.cfg", timeout=300)
    if not r["ok"]:
        raise vlib.Inconclusive("spec-level counterexample in ChunkId:\n%s" % r.get("counterexample", "")[:2000])
    st += r.get("distinct", 0); tr += r.get("generated", 0)
    ri = fncommon.run_fn(chk, "idg", "ChunkIdTrace", "ChunkIdTrace.cfg", shards=4, max_findings_per_shard=2, tag="-id")
    events += ri["events"]; cases += ri["cases"]
    for e, txt in ri["findings"][:1]:
        chk.report("chunkid:clock", "chunk id generator under a scripted wall clock: id %s for reading %s is not the id of ChunkId!Gen (ids must stay unique and in creation order when the clock repeats or steps backwards)" % (e.get("id"), e.get("clock")), {"event.json": e})
    cov["chunk_id_clock_sequences"] = ri["cases"]
    cov.update({"states": st, "transitions": tr, "traces_validated_against_impl": events, "evaluations": cases, "distinct_nontrivial": cases,
                "exhaustive": True,
                "rule": "every schedule of depth %s over {write of each size, flush} for six settings (Forward, PackedForward with bytes-only and records-only limits, CompressedPackedForward, Datadog with both and bytes-only limits); sizes sit around the limits (exact fit, one byte over, a single record over the limit); chunk ids: every sequence of %s wall-clock readings over 4 values (repeats and backward steps) + 200 seeded sequences of 40 readings with NTP-like steps" % ("6-8" if thorough else "4-6", 8 if thorough else 6),
                "samples": [json.loads(l) for l in open(sample).read().splitlines()[1:5]]})
    chk.assumptions += ["chunks are decoded by generic MessagePack / gzip+JSON decoding, independent of the repository's encoder and ChunkDecoder",
                        "limits are set through tag-guarded accessors to small values; the Datadog accounting (brackets, delimiters) is modelled as coded"]


def replay(chk, path):
    run(chk)
