"""Forwarder (C02, and the component level of C18/C19): TLC behaviours -> scripts -> real ClientWorker -> traces -> TLC."""
import json, os, random, re, shutil, subprocess
from lib import vlib

# events emitted per spec action (to place environment actions at comparable trace positions)
EVENTS = {"Feed": 2, "CloseInput": 2, "SignalStop": 2, "Steal": 2, "DialResult": 1, "OrphanDial": 0, "SessionStart": 1,
          "Dispatch": 1, "HandBack": 1, "Finish": 1, "DoClose": 1, "ResendSeesStop": 1, "ResendPop": 1, "ResendEmpty": 1,
          "NormalPop": 1, "NormalSeesClosed": 1, "SoftReconnect": 1, "PingOk": 1, "PingErr": 1, "SendOk": 1, "SendErr": 1,
          "EnqOk": 1, "EnqSeesStop": 1, "EnqSeesAckerEnded": 1, "Merge": 1, "AckerTake": 1, "AckerEnd": 1, "AckRead": 2,
          "AckInOrder": 2, "AckGarbage": 1, "AckErr": 1}


def field(state, name):
    m = re.search(r"\b%s \|-> ([^\n]*?),?\n" % name, state + "\n")
    return m.group(1).strip() if m else ""


def setof(txt):
    return [int(x) for x in re.findall(r"\d+", txt)]


def script_from_behaviour(beh, sid, rnd, inorder=False):
    """project a TLC behaviour on the environment's choices"""
    sc = {"id": sid, "seed": rnd.randrange(1 << 30), "jitter": rnd.random() < 0.5, "inorder": inorder, "maxDurMs": 0,
          "dial": [], "send": [], "ack": [], "ping": [], "env": []}
    ev = 0
    prev = None
    nsoft = 0
    for (act, par, st) in beh:
        pre = prev if prev is not None else st
        closed = field(pre, "closed") == "TRUE"
        if act == "Feed":
            sc["env"].append({"at": ev, "do": "feed"})
        elif act == "CloseInput":
            sc["env"].append({"at": ev, "do": "stop"})
        elif act == "Steal":
            sc["env"].append({"at": ev, "do": "steal"})
        elif act == "SoftReconnect":
            nsoft += 1
            if nsoft == 1 and rnd.random() < 0.6:
                sc["env"].append({"at": ev, "do": "usr1"})
            else:
                sc["maxDurMs"] = rnd.choice([3, 8, 20])
        elif act == "DialResult":
            sc["dial"].append("ok" if par == "TRUE" else "fail")
        elif act == "SendOk":
            sc["send"].append("ok")
        elif act == "SendErr" and not closed:
            sc["send"].append("errgot" if par == "TRUE" else rnd.choice(["err", "block"]))
        elif act == "PingOk":
            sc["ping"].append("ok")
        elif act == "PingErr" and not closed:
            sc["ping"].append("err")
        elif act == "AckRead":
            up = setof(field(pre, "upAvail"))
            x = int(par)
            sc["ack"].append("other" if up and x == max(up) and x != min(up) else "ack")
        elif act == "AckInOrder":
            sc["ack"].append("ack")
        elif act == "AckGarbage":
            sc["ack"].append("garbage")
        elif act == "AckErr" and not closed:
            sc["ack"].append(rnd.choice(["err", "block"]))
        ev += EVENTS.get(act, 0)
        prev = st
    return sc


def random_script(sid, rnd, inorder=False):
    """seeded random fault script beyond the bounds TLC simulates (more chunks, heavier faults)"""
    heavy = rnd.choice([0, 1, 2])
    n = rnd.randint(1, 6)
    def pick(opts, w):
        return rnd.choices(opts, weights=w)[0]
    sc = {"id": sid, "seed": rnd.randrange(1 << 30), "jitter": rnd.random() < 0.5, "inorder": inorder,
          "maxDurMs": rnd.choice([0, 0, 5, 15, 40]),
          "dial": [pick(["ok", "fail"], [[19, 1], [3, 1], [1, 1]][heavy]) for _ in range(12)],
          "send": [pick(["ok", "err", "errgot", "block"], [[30, 1, 1, 1], [8, 1, 1, 1], [3, 1, 1, 1]][heavy]) for _ in range(30)],
          "ack": [pick(["ack", "other", "garbage", "err", "block"], [[30, 2, 1, 1, 1], [8, 2, 1, 1, 1], [3, 1, 1, 1, 1]][heavy]) for _ in range(30)],
          "ping": [pick(["ok", "err"], [[9, 1], [4, 1], [1, 1]][heavy]) for _ in range(6)],
          "env": []}
    at = 0
    for i in range(n):
        at += rnd.choice([0, 0, 3, 8, 15])
        sc["env"].append({"at": at, "do": "feed"})
    if rnd.random() < 0.3:
        sc["env"].insert(rnd.randint(0, len(sc["env"])), {"at": rnd.randint(0, 40), "do": "usr1"})
    if rnd.random() < 0.7:
        stop_at = rnd.randint(0, 12 * n + 10)
        sc["env"] = [e for e in sc["env"] if e["at"] <= stop_at] + [{"at": stop_at, "do": "stop"}]
        sc["env"].sort(key=lambda e: e["at"])
        for _ in range(rnd.choice([0, 0, 1, 2])):
            sc["env"].append({"at": 0, "do": "steal"})
    return sc


def recovery_stories(inorder=False):
    """the stop request lands while a new session is still re-sending the leftovers of a broken one (writes that return late): at the
    top of the re-send loop both the stop and the next leftover are ready, and whichever the client takes, every leftover
    must be resolved"""
    out = []
    for n in (2, 3, 5):
        for how in ("ackerr", "senderr"):
            sc = {"id": "stop-in-recovery-%d-%s" % (n, how), "seed": 7, "jitter": False, "inorder": inorder, "maxDurMs": 0,
                  "dial": ["ok"] * 6, "ping": [], "env": [{"at": 0, "do": "feed"} for _ in range(n)]}
            if how == "ackerr":
                sc["send"] = ["ok"] * n + ["slowret"] * (2 * n)
                sc["ack"] = ["err"]
            else:
                sc["send"] = ["ok"] * (n - 1) + ["err"] + ["slowret"] * (2 * n)
                sc["ack"] = ["block"] * n
            sc["env"].append({"at": 0, "do": "stop", "after": "SessionStart", "nth": 2})
            out.append(sc)
    return out


EVENT_KINDS = [("Dial", "out", ["ok", "fail"]), ("SendEnd", "out", ["ok", "err"]), ("PingEnd", "out", ["ok", "err"]),
               ("AckReadEnd", "out", ["ack", "garbage", "err", "inorder"]), ("Resend", "branch", ["stop", "pop", "empty"]),
               ("Normal", "branch", ["pop", "closed", "soft"]), ("Enq", "branch", ["ok", "stop", "ackerEnded"]),
               ("Policy", "p", ["noReconnect", "reconnect", "reconnectWithDelay"]),
               ("StealEnd", None, None), ("Leftover", None, None), ("Consumed", None, None), ("Collected", None, None),
               ("AckerTake", None, None), ("AckerEnd", None, None), ("ConnClose", None, None), ("Finished", None, None)]


def event_kinds(lines, acc):
    for ln in lines:
        e = json.loads(ln)
        for name, key, vals in EVENT_KINDS:
            if e["ev"] == name:
                acc.add(name if key is None else "%s/%s" % (name, e.get(key)))


def run_scripts(chk, scripts, ackcap, tag, inorder=False):
    """run scripts on the real code in parallel driver processes, validate every trace with TLC.
    returns (n_traces, n_events, rejected[list of (script, result)], kinds set, stop_ms list)"""
    chk.build_vh()
    d = chk.sub("fwd-" + tag)
    nsh = min(vlib.NCPU, max(1, len(scripts) // 8))
    shards = [scripts[i::nsh] for i in range(nsh)]
    byid = {s["id"]: s for s in scripts}

    def drive(i):
        sp = os.path.join(d, "scripts%d.ndjson" % i)
        with open(sp, "w") as f:
            for s in shards[i]:
                f.write(json.dumps(s) + "\n")
        tp = os.path.join(d, "trace%d.ndjson" % i)
        chk.vh(["fwd", "-scripts", sp, "-out", tp, "-ackcap", str(ackcap)], timeout=1200)
        return tp

    traces = vlib.parallel(drive, range(nsh))
    consts = {"AckCap": ackcap, "InOrderAck": "TRUE" if inorder else "FALSE"}

    def validate(tp):
        return tp, chk.tlc_trace("ForwarderTrace", "ForwarderTrace.cfg", tp, consts=consts)

    results = vlib.parallel(validate, traces)
    kinds, n_tr, n_ev, rejected, stop_ms, states = set(), 0, 0, [], [], 0
    for tp, res in results:
        parts = vlib.split_traces(tp)
        n_tr += len(parts)
        states += res.get("states", 0)
        for sid, lines in parts:
            n_ev += len(lines)
            event_kinds(lines, kinds)
            for ln in lines:
                if '"ev":"Metrics"' in ln:
                    stop_ms.append(json.loads(ln).get("stopMs", 0))
        if not res["accepted"]:
            # locate the offending trace(s): validate each trace of this shard alone
            def one(part):
                sid, lines = part
                p = os.path.join(d, "single-%s.ndjson" % sid)
                open(p, "w").write("".join(lines))
                return sid, p, chk.tlc_trace("ForwarderTrace", "ForwarderTrace.cfg", p, consts=consts)
            for sid, p, r in vlib.parallel(one, parts):
                if not r["accepted"]:
                    rejected.append((byid.get(sid), p, r))
    return n_tr, n_ev, rejected, kinds, stop_ms, states


def reproduce(chk, script, ackcap, inorder, tries=12):
    """re-run one script several times; return (path, result) of the first run that is rejected again, else None"""
    d = chk.sub("repro")
    consts = {"AckCap": ackcap, "InOrderAck": "TRUE" if inorder else "FALSE"}
    for i in range(tries):
        s = dict(script, seed=script["seed"] + i, id="%s-r%d" % (script["id"], i))
        sp = os.path.join(d, "s.ndjson")
        open(sp, "w").write(json.dumps(s) + "\n")
        tp = os.path.join(d, "t-%s.ndjson" % s["id"])
        chk.vh(["fwd", "-scripts", sp, "-out", tp, "-ackcap", str(ackcap)], timeout=120)
        r = chk.tlc_trace("ForwarderTrace", "ForwarderTrace.cfg", tp, consts=consts)
        if not r["accepted"]:
            return tp, r
    return None
