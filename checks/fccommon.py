"""the real Forward connection (plain TCP and TLS) against a scripted peer (drv/fc); contract model Connection.tla (TLC),
observer ConnTrace.tla.  Used by C02 (hung or failed ACK reads, failed sends) and C18 (blocked mid-write at the stop)."""
import json, os, re
from lib import vlib

BIG = 33554432


def scripts(rnd, n_random):
    out = []
    i = 0
    def add(**kw):
        nonlocal i
        i += 1
        sc = {"id": "fc%d" % i, "tls": False, "peer": "acks", "k": 1, "op": "ack", "sendSize": 0, "deadlineMs": 150, "closeAtMs": -1, "lateMs": 0, "secret": ""}
        sc.update(kw)
        out.append(sc)
    for tls in (False, True):
        for k in (0, 2):
            for peer in ("acks", "wrong", "silent", "closes", "resets", "garbage"):
                add(tls=tls, k=k, peer=peer, op="ack", deadlineMs=120)
            add(tls=tls, k=k, peer="silent", op="ack", deadlineMs=600, closeAtMs=40)       # Close from another goroutine ends the read
            add(tls=tls, k=k, peer="late", op="ack", deadlineMs=300, lateMs=80)
            add(tls=tls, k=k, peer="late", op="ack", deadlineMs=100, lateMs=400)
            add(tls=tls, k=k, peer="late", op="ack", deadlineMs=600, lateMs=400, closeAtMs=60)
            add(tls=tls, k=k, peer="noread", op="send", sendSize=BIG, deadlineMs=150)      # blocked mid-write: ends at the deadline
            add(tls=tls, k=k, peer="noread", op="send", sendSize=BIG, deadlineMs=700, closeAtMs=50)   # ... or at Close
            add(tls=tls, k=k, peer="acks", op="send", sendSize=2000000, deadlineMs=3000)
            add(tls=tls, k=k, peer="acks", op="ping", deadlineMs=150)
            add(tls=tls, k=k, peer="noread", op="ping", deadlineMs=150)
    add(tls=True, secret="tlsmute")
    for tls in (False, True):
        for secret in ("wrongkey", "reject", "mute"):
            add(tls=tls, secret=secret)
        for peer in ("acks", "silent", "late"):
            add(tls=tls, secret="right", k=1, peer=peer, op="ack", deadlineMs=120, lateMs=60)
        add(tls=tls, secret="right", k=0, peer="noread", op="send", sendSize=BIG, deadlineMs=600, closeAtMs=40)
    for _ in range(n_random):
        op = rnd.choice(["ack", "ack", "ack", "send", "ping"])
        sc = {"tls": rnd.random() < 0.3, "k": rnd.randrange(4), "op": op, "deadlineMs": rnd.choice([60, 120, 250, 500]), "secret": rnd.choice(["", "", "right"])}
        if op == "ack":
            sc["peer"] = rnd.choice(["acks", "wrong", "silent", "silent", "closes", "resets", "garbage", "late", "late"])
            if sc["peer"] == "late":
                sc["lateMs"] = rnd.choice([20, 90, 200, 700])
            if sc["peer"] in ("silent", "late") and rnd.random() < 0.5:
                sc["closeAtMs"] = rnd.choice([0, 20, 100, 300])
        elif op == "send":
            sc["peer"] = rnd.choice(["noread", "noread", "acks"])
            sc["sendSize"] = BIG if sc["peer"] == "noread" else rnd.choice([100, 70000, 1500000])
            if sc["peer"] == "noread" and rnd.random() < 0.5:
                sc["closeAtMs"] = rnd.choice([0, 20, 100])
            if sc["peer"] == "acks":
                sc["deadlineMs"] = 3000
        else:
            sc["peer"] = rnd.choice(["acks", "silent", "noread"])
        add(**sc)
    return out


def run(chk, rnd, thorough):
    r = chk.tlc_mc("Connection", "Connection.cfg", timeout=600)
    if not r["ok"]:
        raise vlib.Inconclusive("Connection.tla: counterexample:\n%s" % r.get("counterexample", "")[:2000])
    r = chk.tlc_mc("Connection", "Connection_nourgency.cfg", timeout=600)      # negative control: without urgency TLC must refute the bound
    if r["ok"]:
        raise vlib.Inconclusive("Connection.tla: the negative control (operations that need not end in time) was not refuted")
    chk.build_vh()
    d = chk.sub("fc")
    ss = scripts(rnd, 600 if thorough else 60)
    nsh = 6
    shards = [ss[i::nsh] for i in range(nsh)]

    def one(i):
        sp = os.path.join(d, "s%d.ndjson" % i)
        open(sp, "w").write("".join(json.dumps(s) + "\n" for s in shards[i]))
        tp = os.path.join(d, "t%d.ndjson" % i)
        chk.vh(["fc", "-scripts", sp, "-out", tp], timeout=1800)
        rej = []
        r = chk.tlc_trace("ConnTrace", "ConnTrace.cfg", tp)
        if not r["accepted"]:
            parts = vlib.split_traces(tp)
            for (sid, lines), sc in zip(parts, shards[i]):
                p1 = os.path.join(d, "single-%s.ndjson" % sid)
                open(p1, "w").write("".join(lines))
                r1 = chk.tlc_trace("ConnTrace", "ConnTrace.cfg", p1)
                if not r1["accepted"]:
                    rej.append((sc, r1))
        return len(shards[i]), rej
    res = vlib.parallel(one, range(nsh))
    seen = set()
    for sc, r1 in [x for r in res for x in r[1]]:
        kind = "%s:%s" % (sc["op"], sc["peer"])
        if kind in seen or len(seen) >= 4:
            continue
        again = None
        for t in range(3):       # timing windows: the same script has to be rejected on every re-run
            sp = os.path.join(d, "re.ndjson"); open(sp, "w").write(json.dumps(sc) + "\n")
            tp = os.path.join(d, "re-%s-%d.ndjson" % (sc["id"], t))
            chk.vh(["fc", "-scripts", sp, "-out", tp], timeout=120)
            r2 = chk.tlc_trace("ConnTrace", "ConnTrace.cfg", tp)
            if r2["accepted"]:
                again = None
                break
            again = (tp, r2)
        if again is None:
            chk.inconclusive.append("connection script %s rejected once (%s), accepted on a re-run" % (sc["id"], str(r1.get("event"))[:200]))
        else:
            seen.add(kind)
            chk.report("connection:" + kind, "real Forward connection: operation ended in a way Connection.tla does not allow (peer %s, %s): %s" % (sc["peer"], "TLS" if sc["tls"] else "TCP", str(again[1].get("event"))[:500]),
                       {"script.json": sc, "trace.ndjson": open(again[0]).read()})
    return sum(r[0] for r in res)
