"""C19 - metrics balance with what actually happened.  The counters and gauges are ordinary variables of the impl-shaped specs
(Forwarder: MetricsBalance, HybridBuffer: ChunkBalance / gauges, Syslog: accounting) and are compared with the real registry
at quiescence in every trace of the C02 and C03 drivers; end to end, AgentTrace!MetricsBalance.  DESIGN.md section 5.11."""
import json, random
from lib import vlib
from checks import agcommon as A, c01, fwdcommon as F, hbcommon as H, c02, c03, c04, fncommon

FLAGS = ("P19",)


def run(chk):
    thorough = chk.tier == "thorough"
    cov = chk.cov
    # spec side: the metric invariants are part of the component MC configs
    st = tr = 0
    cov["mc_runs"] = []
    for mod, cfg in (("Forwarder", "Forwarder_quick.cfg"), ("HybridBuffer", "HybridBuffer_nodir.cfg")):
        r = chk.tlc_mc(mod, cfg, timeout=1800)
        if not r["ok"]:
            raise vlib.Inconclusive("spec-level counterexample in %s:\n%s" % (cfg, r.get("counterexample", "")[:3000]))
        st += r.get("distinct", 0); tr += r.get("generated", 0)
        cov["mc_runs"].append({"cfg": cfg, "distinct": r.get("distinct"), "ok": True})
    cov["states"], cov["transitions"] = st, tr
    rnd = random.Random(chk.seed)
    # component level: every trace ends with the Metrics event of the real registry
    behs = chk.tlc_simulate("Forwarder", "Forwarder_sim.cfg", 2000 if thorough else 60, 150, chk.seed)
    fs = [F.script_from_behaviour(b, "sim%d" % i, rnd) for i, b in enumerate(behs)] + [F.random_script("rnd%d" % i, rnd) for i in range(2000 if thorough else 60)]
    n1, e1, rej1, kinds, stop_ms, st1 = F.run_scripts(chk, fs, 2, "c19")
    c02.handle_rejections(chk, rej1, 2, False, cov)
    hs = [H.random_script("A-rnd%d" % i, rnd, "A") for i in range(2000 if thorough else 60)]
    n2, e2, rej2, k2, st2, hung = H.run_scripts(chk, hs, "A", "c19")
    c03.handle_rejections(chk, rej2, "A", cov)
    # end to end
    scripts = A.stories() + [A.random_script("rnd%d" % i, rnd) for i in range(2000 if thorough else 20)]
    n3, e3, rej3, consts = A.run_scripts(chk, scripts, FLAGS, "c19")
    A.handle(chk, rej3, FLAGS, "c19", consts)
    # gauges after the recovery of damaged / partial / empty chunk files (crash and I/O-fault scenarios of C04): dropped and
    # consumed counters, persistent gauge = files left, nothing pending
    cscripts = c04.grid([1], False)
    cscripts = cscripts if thorough else cscripts[::3]
    n4, e4, rej4, _, _ = c04.run_scripts(chk, cscripts)
    for script, path, res in rej4[:2]:
        n5, e5, rej5, _, _ = c04.run_scripts(chk, [dict(script, id=script["id"] + "-r")])
        if rej5:
            chk.report("chunkfile-gauges:" + str(rej5[0][2].get("inv") or "")[:40], "recovery of a damaged queue directory: trace rejected by ChunkFileTrace (counters / gauges at RecoveryDone): %s" % c04.why_of(rej5[0][2]),
                       {"script.json": script, "trace.ndjson": open(rej5[0][1]).read()})
        else:
            chk.inconclusive.append("chunk file scenario %s rejected once, not on re-run" % script["id"])
    cov["chunkfile_recovery_scenarios"] = n4
    # attribution of labelled counters: programs of labelled transforms sharing label names on the real LogProcessCounterSet
    d = chk.sub("lbwork")
    rl = fncommon.run_fn(chk, "lb", "LabelsTrace", "LabelsTrace.cfg", extra_args=["-work", d], shards=8, max_findings_per_shard=3)
    seenl = {}
    for e, txt in rl["findings"]:
        seenl.setdefault(e.get("ev"), e)
    for k, e in seenl.items():
        chk.report("labels:" + str(k), "labelled counters are not those of the records that caused them (LabelsTrace rejects): %s" % json.dumps(e)[:1500], {"event.json": e})
    cov["label_attribution"] = {"programs": rl["cases"], "events": rl["events"]}
    cov.update({"traces_validated_against_impl": n1 + n2 + n3 + 8, "trace_events": e1 + e2 + e3 + rl["events"], "evaluations": n1 + n2 + n3,
                "distinct_nontrivial": len({json.dumps(s, sort_keys=True) for s in fs + hs + scripts}),
                "rule": "forwarding-client fault scripts (Metrics event: forwarded / acknowledged / attempts / opened sessions / pendingAck and leftover gauges against the spec's counters), hybrid-buffer scripts (input, consumed, leftover, dropped, pending, persistent chunks and bytes, queued gauges, io errors after every shutdown) and end-to-end histories (input passed + dropped = lines, pipeline passed + dropped = input passed, per-host attribution, chunk balance accepted + recovered = consumed + leftover + dropped + pending, acknowledged = consumed <= upstream ACKs, forwarded <= chunks the upstream saw, persistent gauge = files on disk); label attribution: every order of 3 and 4 labelled transforms (drop by level x2, redactEmail, parseTime) x every assignment of %d label names x 24 records over 2 metric-key values, labelled count and bytes per (label, key) against the interpretation of the program in LabelsTrace" % (3 if thorough else 2),
                "samples": [fs[0], scripts[0]]})
    chk.assumptions += ["records dropped by extraction transforms inside the input are exercised at component level (LabelsTrace Balance), not by the end-to-end configuration",
                        "a rejection is a violation only if reproduced on a re-run"]


def replay(chk, path):
    run(chk)
