"""Worker (component level of C01 / C05 / C11): the processing worker of a pipeline - select loop on the input channel and the
ticker, chunk roll-over, tick flush, final tick and stop flush.  TLC explores Worker.tla (safety + StopTerminates); the real
bsupport.LogProcessingWorker with two real Forward chunk makers is run on seeded environment scripts (drv/wk) and every trace is
validated by TLC (WorkerTrace.tla)."""
import json, os, re
from lib import vlib


def random_script(sid, rnd):
    steps = []
    for i in range(rnd.randint(0, 9)):
        x = rnd.random()
        if x < 0.7:
            steps.append({"do": "send", "drops": [rnd.random() < 0.25 for _ in range(rnd.randint(1, 5))]})
        else:
            steps.append({"do": "wait", "ms": rnd.choice([1, 5, 17, 35])})
    return {"id": sid, "maxChunk": 3, "cap": 2, "steps": steps}


def stories():
    S = lambda *d: {"do": "send", "drops": list(d)}
    W = lambda ms: {"do": "wait", "ms": ms}
    f, t = False, True
    out = [("nothing", []), ("close-at-once", [S(f)]), ("all-dropped", [S(t, t), S(t)]),
           ("last-record-fills-the-chunk", [S(f, f, f)]), ("last-record-opens-a-chunk", [S(f, f, f, f)]),
           ("fills-then-tick-then-more", [S(f, f, f), W(40), S(f), W(40), S(f, t, f)]),
           ("tick-between-batches", [S(f), W(40), S(f, f), W(40), S(t), W(40)]),
           ("burst", [S(f, f, f, f, f), S(f, t, f, f, f), S(f, f, f, f, f), S(f)]),
           ("young-worker-closed-with-open-chunk", [S(f, f)]), ("old-worker-closed-with-open-chunk", [W(40), S(f, f), W(2)])]
    return [{"id": "story-" + n, "maxChunk": 3, "cap": 2, "steps": st} for n, st in out]


def run(chk, rnd, thorough, tag="wk"):
    mc = chk.tlc_mc("Worker", "Worker_thorough.cfg" if thorough else "Worker_quick.cfg", timeout=3000)
    if not mc["ok"]:
        raise vlib.Inconclusive("spec-level counterexample in Worker:\n" + mc.get("counterexample", "")[:3000])
    chk.cov.setdefault("mc_runs", []).append({"cfg": mc["cfg"], "distinct": mc.get("distinct"), "ok": True})
    scripts = stories() + [random_script("rnd%d" % i, rnd) for i in range(4000 if thorough else 200)]
    chk.build_vh()
    d = chk.sub("wk-" + tag)
    nsh = vlib.NCPU
    shards = [scripts[i::nsh] for i in range(nsh)]
    byid = {s["id"]: s for s in scripts}

    def drive(i, scs=None, name=None):
        sp = os.path.join(d, "s%s.ndjson" % (name if name is not None else i))
        open(sp, "w").write("".join(json.dumps(s) + "\n" for s in (scs or shards[i])))
        tp = os.path.join(d, "t%s.ndjson" % (name if name is not None else i))
        chk.vh(["wk", "-scripts", sp, "-out", tp], timeout=1800)
        return tp

    n = ev = 0
    for tp in vlib.parallel(drive, range(nsh)):
        parts = vlib.split_traces(tp)
        n += len(parts)
        ev += sum(len(lines) for _, lines in parts)
        res = chk.tlc_trace("WorkerTrace", "WorkerTrace.cfg", tp)
        if res["accepted"]:
            continue
        for sid, lines in parts:
            p = os.path.join(d, "single-%s.ndjson" % sid)
            open(p, "w").write("".join(lines))
            r1 = chk.tlc_trace("WorkerTrace", "WorkerTrace.cfg", p)
            if r1["accepted"]:
                continue
            again = None
            for k in range(3):      # a worker goroutine and a ticker: a rejection has to come back
                tp2 = drive(0, [byid[sid]], "re-%s-%d" % (sid, k))
                r2 = chk.tlc_trace("WorkerTrace", "WorkerTrace.cfg", tp2)
                if not r2["accepted"]:
                    again = (tp2, r2)
                    break
            if again is None:
                chk.inconclusive.append("worker script %s rejected once, accepted on 3 re-runs" % sid)
                continue
            evn = re.search(r'ev \|-> "(\w+)"', again[1].get("event") or "")
            chk.report("worker:" + (again[1].get("inv") or (evn.group(1) if evn else "?")),
                       "processing worker: trace rejected by WorkerTrace at %s (invariant %s); script %s" % (again[1].get("event"), again[1].get("inv"), json.dumps(byid[sid])),
                       {"script.json": byid[sid], "trace.ndjson": open(again[0]).read()})
            break
    chk.cov["worker_scripts"] = n
    return n, ev
