"""end-to-end runs of the real agent (drv/ag) validated by the observer spec AgentTrace; used by C01, C05, C17, C18, C19."""
import json, os, random, re
from lib import vlib

BEH = ["healthy", "closeNow", "noAck", "resetAfter1", "resetAfter2", "lateAck"]


def stories():
    c = lambda n, pe=0, pm=0, d=0: {"n": n, "pauseEvery": pe, "pauseMs": pm, "delayMs": d}
    fin = {"upstream": [], "clients": [c(3)], "stopAfterMs": 30, "drain": True}
    return [
        {"id": "refuse-then-healthy", "keys": 2, "memWindow": 0, "gens": [{"upstream": ["closeNow", "closeNow", "closeNow"], "clients": [c(30, 10, 40), c(20, 5, 35)], "stopAfterMs": 200}, fin]},
        {"id": "reset-after-first-chunk", "keys": 2, "memWindow": 0, "gens": [{"upstream": ["resetAfter1", "resetAfter1", "resetAfter2"], "clients": [c(40, 8, 35), c(40, 8, 35)], "stopAfterMs": 150}, fin]},
        {"id": "never-ack-then-restart", "keys": 1, "memWindow": 0, "gens": [{"upstream": ["noAck", "noAck", "noAck", "noAck"], "clients": [c(50, 10, 35)], "stopAfterMs": 100}, {"upstream": ["noAck"], "clients": [c(10, 5, 35)], "stopAfterMs": 50}, fin]},
        {"id": "late-ack-after-reconnect", "keys": 2, "memWindow": 0, "gens": [{"upstream": ["lateAck", "resetAfter1", "lateAck"], "clients": [c(40, 5, 35), c(10)], "stopAfterMs": 60}, fin]},
        {"id": "spill-then-restart", "keys": 1, "memWindow": 2, "gens": [{"upstream": ["noAck"], "clients": [c(120, 6, 35), c(60, 6, 35, 20)], "stopAfterMs": 50}, {"upstream": ["resetAfter2", "healthy"], "clients": [c(20, 5, 35)], "stopAfterMs": 80}, fin]},
        {"id": "silent-upstream-full-ack-window", "keys": 1, "memWindow": 0, "gens": [{"upstream": ["noAck"], "clients": [c(96, 3, 32)], "stopAfterMs": 40}, {"upstream": ["noAck", "healthy"], "clients": [c(30, 3, 32)], "stopAfterMs": 30}, fin]},
        # clients that never close: the stop has to close their sockets, and what was read before it is delivered or persisted
        {"id": "open-connections-at-stop", "keys": 2, "memWindow": 0, "gens": [{"upstream": ["healthy"], "clients": [dict(c(7), keepOpen=True), dict(c(12, 5, 10), keepOpen=True), c(5)], "stopAfterMs": 0, "inputFlushMs": 400}, fin]},
        {"id": "open-connections-at-stop-upstream-down", "keys": 1, "memWindow": 0, "gens": [{"upstream": ["closeNow"] * 10, "clients": [dict(c(3), keepOpen=True), dict(c(1), keepOpen=True)], "stopAfterMs": 10, "inputFlushMs": 400}, fin]},
        # two outputs, each with its own upstream and queue root: what one output could not deliver is recovered after a
        # restart even if nothing new arrives for that key set ("for each configured output")
        {"id": "second-output-down-then-restart", "twoOutputs": True, "keys": 2, "memWindow": 0, "gens": [
            {"upstream": ["healthy"], "upstream2": ["closeNow"] * 40, "clients": [c(12, 4, 35), c(8, 4, 35)], "stopAfterMs": 150},
            {"upstream": [], "upstream2": [], "clients": [], "stopAfterMs": 20, "drain": True}]},
        {"id": "first-output-silent-then-restart", "twoOutputs": True, "keys": 1, "memWindow": 0, "gens": [
            {"upstream": ["noAck", "noAck", "noAck"], "upstream2": ["healthy"], "clients": [c(20, 5, 35)], "stopAfterMs": 100},
            {"upstream": [], "upstream2": [], "clients": [], "stopAfterMs": 20, "drain": True}]},
        # the agent's own main path (run.Run in a child process): SIGTERM stops it, SIGHUP reloads it, exit status 0
        {"id": "main-path-stop-healthy", "viaRun": True, "keys": 2, "memWindow": 0, "gens": [{"upstream": ["healthy"], "clients": [c(20, 5, 35), dict(c(6), keepOpen=True)], "stopAfterMs": 20, "inputFlushMs": 400}, fin]},
        {"id": "main-path-stop-by-sigint", "viaRun": True, "stopWithInt": True, "keys": 2, "memWindow": 0, "gens": [{"upstream": ["noAck"] * 6, "clients": [c(20, 5, 35), dict(c(6), keepOpen=True)], "stopAfterMs": 20, "inputFlushMs": 400}, fin]},
        {"id": "main-path-upstream-down", "viaRun": True, "keys": 1, "memWindow": 0, "gens": [{"upstream": ["closeNow"] * 40, "clients": [c(30, 10, 35)], "stopAfterMs": 50}, fin]},
        {"id": "main-path-sighup", "viaRun": True, "keys": 2, "memWindow": 0, "gens": [
            {"upstream": ["healthy"], "clients": [c(40, 4, 35)], "reload": "transform", "reloadAtMs": 60, "stopAfterMs": 50},
            {"upstream": ["noAck"], "clients": [c(30, 5, 35)], "reload": "invalid", "reloadAtMs": 40, "stopAfterMs": 30}, fin]},
        # a silent first connection and a healthy second one within ONE generation: the ACK timeout has to end the silent
        # session so that everything is retransmitted and acknowledged without a restart
        {"id": "silent-then-healthy-same-generation", "keys": 1, "memWindow": 0, "gens": [{"upstream": ["noAck", "healthy"], "clients": [c(25, 5, 35)], "stopAfterMs": 20, "drain": True}]},
        # the Datadog output end to end (HTTP intake, one scripted outcome per request; chunk files *.dd)
        {"id": "datadog-healthy", "datadog": True, "keys": 2, "memWindow": 0, "gens": [{"upstream": [], "clients": [c(30, 5, 35), c(12, 4, 35)], "stopAfterMs": 60}, fin]},
        {"id": "datadog-every-failure-then-restart", "datadog": True, "keys": 2, "memWindow": 0, "gens": [
            {"upstream": ["resetAfter1", "closeNow", "noAck", "resetAfter2", "lateAck", "resetAfter1", "closeNow"], "clients": [c(40, 5, 35), c(20, 5, 35, 10)], "stopAfterMs": 40},
            {"upstream": ["resetAfter2", "healthy", "closeNow"], "clients": [c(10, 5, 35)], "stopAfterMs": 20}, fin]},
        {"id": "datadog-request-in-flight-at-stop", "datadog": True, "keys": 1, "memWindow": 2, "gens": [{"upstream": ["noAck"] * 30, "clients": [c(60, 6, 35)], "stopAfterMs": 30}, fin]},
        # an intake that accepts requests and never answers, with an httpTimeout beyond the buffer's shutdown bound (5 s here)
        {"id": "datadog-silent-long-http-timeout", "datadog": True, "ddTimeoutMs": 9000, "keys": 1, "memWindow": 0, "gens": [{"upstream": ["noAck"] * 8, "clients": [c(20, 5, 35)], "stopAfterMs": 30}, fin]},
        # chunks that roll over by record count: the last record before the stop is the one that opened a new chunk
        {"id": "rollover-by-count-then-stop", "chunkRecords": 5, "keys": 1, "memWindow": 0, "gens": [{"upstream": ["healthy"], "clients": [c(11), c(6, 0, 0, 50)], "stopAfterMs": 0}, fin]},
        {"id": "rollover-by-count-upstream-down", "chunkRecords": 3, "keys": 2, "memWindow": 2, "gens": [{"upstream": ["closeNow"] * 30, "clients": [c(14), c(8)], "stopAfterMs": 10}, fin]},
        # a connection that is silent for longer than the intermediate channel timeout (2 s here) and then logs again
        {"id": "idle-longer-than-channel-timeout", "keys": 1, "memWindow": 0, "gens": [{"upstream": ["healthy"], "clients": [c(9, 3, 2250), c(6, 2, 2300)], "stopAfterMs": 20}, fin]},
        # no scheduled reconnect to hide behind: only the ACK timeout ends a session with a silent upstream
        {"id": "silent-then-healthy-no-scheduled-reconnect", "maxDurationMs": 60000, "keys": 1, "memWindow": 0, "gens": [{"upstream": ["noAck", "healthy"], "clients": [c(25, 5, 35)], "stopAfterMs": 20, "drain": True}]},
        {"id": "late-and-silent-no-scheduled-reconnect", "maxDurationMs": 60000, "keys": 2, "memWindow": 0, "gens": [{"upstream": ["lateAck", "noAck", "resetAfter1", "noAck", "healthy"], "clients": [c(40, 4, 35), c(10, 5, 40)], "stopAfterMs": 20, "drain": True}]},
        # the singleton orchestrator: one pipeline and one tag for the records of every app, one stream per connection
        {"id": "singleton-faults-then-restart", "singleton": True, "keys": 3, "memWindow": 2, "chunkRecords": 5, "gens": [
            {"upstream": ["resetAfter1", "noAck", "closeNow", "healthy"], "clients": [c(40, 5, 35), c(25, 4, 35, 10)], "stopAfterMs": 30}, fin]},
        {"id": "singleton-datadog", "singleton": True, "datadog": True, "keys": 2, "memWindow": 0, "gens": [{"upstream": ["resetAfter1", "noAck", "healthy"], "clients": [c(30, 5, 35)], "stopAfterMs": 30}, fin]},
        # shared-key login on every upstream connection; some servers hold another key
        {"id": "shared-key-wrong-then-right", "secret": True, "keys": 2, "memWindow": 0, "gens": [
            {"upstream": ["badKey", "badKey", "resetAfter1", "badKey", "noAck", "healthy"], "clients": [c(30, 5, 35), c(12, 4, 35)], "stopAfterMs": 30}, fin]},
        {"id": "stop-mid-retry", "keys": 2, "memWindow": 0, "gens": [{"upstream": ["closeNow"] * 30, "clients": [c(20, 5, 35)], "stopAfterMs": 0}, {"upstream": ["noAck"], "clients": [c(20, 5, 35)], "stopAfterMs": 0}, fin]},
    ]


def big_stories():
    """histories with megabytes in flight (C01, C18 only: the order monitor of C05 recurses over a chunk's records)"""
    c = lambda n, pad: {"n": n, "pauseEvery": 0, "pauseMs": 0, "delayMs": 0, "pad": pad}
    fin = {"upstream": [], "clients": [{"n": 3, "pauseEvery": 0, "pauseMs": 0, "delayMs": 0}], "stopAfterMs": 30, "drain": True}
    return [
        # an upstream that accepts the connection and never reads: with a wide ACK window the sender keeps writing until the
        # socket buffers are full and is blocked in the middle of a chunk when the stop request comes
        {"id": "blocked-mid-write-at-stop", "ackWindow": 1000, "keys": 1, "memWindow": 0, "gens": [{"upstream": ["noRead"] * 3, "clients": [c(6000, 2000)], "stopAfterMs": 300}, fin]},
        {"id": "blocked-mid-write-then-reset", "ackWindow": 1000, "keys": 2, "memWindow": 2, "gens": [{"upstream": ["noRead", "resetAfter1", "noRead"], "clients": [c(5000, 2000), c(200, 100)], "stopAfterMs": 150}, fin]},
    ]


def random_script(sid, rnd, reload_kinds=()):
    c = lambda: {"n": rnd.choice([3, 8, 15, 30, 60]), "pauseEvery": rnd.choice([0, 3, 5, 10]), "pauseMs": rnd.choice([31, 35, 45]), "delayMs": rnd.choice([0, 0, 10, 40])}
    gens = []
    for g in range(rnd.randint(1, 3)):
        gen = {"upstream": [rnd.choices(BEH, [4, 2, 2, 2, 2, 2])[0] for _ in range(rnd.randint(0, 6))],
               "clients": [c() for _ in range(rnd.randint(1, 3))], "stopAfterMs": rnd.choice([0, 0, 20, 60, 150, 300])}
        if reload_kinds and rnd.random() < 0.7:
            gen["reload"] = rnd.choice(reload_kinds)
            gen["reloadAtMs"] = rnd.choice([0, 5, 20, 50, 90, 150])
            if gen["reload"] == "keysdrop":
                gen["twoKeys"] = True
        gen["upstream2"] = [rnd.choices(BEH, [4, 2, 2, 2, 2, 2])[0] for _ in range(rnd.randint(0, 6))]
        if rnd.random() < 0.2:
            gen["inputFlushMs"] = 400
            for cl in gen["clients"][: rnd.randint(1, len(gen["clients"]))]:
                cl["keepOpen"] = True
        gens.append(gen)
    gens.append({"upstream": [], "clients": [{"n": 2, "pauseEvery": 0, "pauseMs": 0, "delayMs": 0}], "stopAfterMs": 20, "drain": True})
    sc = {"id": sid, "keys": rnd.choice([1, 2, 2, 3]), "memWindow": rnd.choice([0, 0, 2, 4]), "gens": gens}
    if rnd.random() < 0.3:
        sc["chunkRecords"] = rnd.choice([1, 2, 5, 5])
    if rnd.random() < 0.3:
        sc["maxDurationMs"] = 60000
    if not reload_kinds and rnd.random() < 0.12:
        sc["singleton"] = True
    if rnd.random() < 0.15:
        sc["secret"] = True
        for g in gens:
            g["upstream"] = [b if rnd.random() > 0.15 else "badKey" for b in g["upstream"]]
    if not reload_kinds and rnd.random() < 0.15:
        sc["datadog"] = True
    elif not reload_kinds and rnd.random() < 0.2:
        sc["twoOutputs"] = True
        if rnd.random() < 0.5:
            gens[-1]["clients"] = []      # nothing new arrives after the last restart: the queues alone bring the pipelines back
    return sc


def script_from_behaviour(beh, sid, rnd):
    """project a TLC behaviour of Agent on the environment: traffic per connection and generation, link breaks, restarts"""
    gens, reads, ups = [], {}, []
    def close():
        clients = [{"n": 4 * n, "pauseEvery": rnd.choice([0, 2, 4]), "pauseMs": 35, "delayMs": 0} for _, n in sorted(reads.items())] or [{"n": 1, "pauseEvery": 0, "pauseMs": 0, "delayMs": 0}]
        gens.append({"upstream": list(ups), "clients": clients, "stopAfterMs": rnd.choice([0, 40, 120])})
    for act, par, st in beh:
        if act == "Read":
            c = int(par.split(",")[0]) if par else 1
            reads[c] = reads.get(c, 0) + 1
        elif act == "Connect":
            ups.append("healthy")
        elif act == "Break" and ups:
            ups[-1] = rnd.choice(["resetAfter1", "resetAfter2", "noAck", "closeNow"])
        elif act == "Start":
            close(); reads, ups = {}, []
    close()
    gens.append({"upstream": [], "clients": [{"n": 2, "pauseEvery": 0, "pauseMs": 0, "delayMs": 0}], "stopAfterMs": 20, "drain": True})
    return {"id": sid, "keys": rnd.choice([1, 2]), "memWindow": rnd.choice([0, 2]), "gens": gens}


def run_scripts(chk, scripts, flags, tag, stop_bound_ms=4000):
    """run histories on the real agent (16 driver processes), validate with AgentTrace; returns (n, events, rejected)"""
    chk.build_vh()
    d = chk.sub("ag-" + tag)
    nsh = min(vlib.NCPU, len(scripts))
    shards = [scripts[i::nsh] for i in range(nsh)]
    byid = {s["id"]: s for s in scripts}
    consts = {"StopBoundMs": stop_bound_ms}
    for f in ("P01", "P05", "P17", "P18", "P19"):
        consts[f] = "TRUE" if f in flags else "FALSE"

    def drive(i):
        sp = os.path.join(d, "s%d.ndjson" % i)
        open(sp, "w").write("".join(json.dumps(s) + "\n" for s in shards[i]))
        tp = os.path.join(d, "t%d.ndjson" % i)
        w = os.path.join(d, "w%d" % i)
        os.makedirs(w, exist_ok=True)
        chk.vh(["ag", "-scripts", sp, "-out", tp, "-work", w], timeout=1800)
        return tp
    traces = vlib.parallel(drive, range(nsh))
    n = ev = 0
    rejected = []
    # validate in batches of a few histories (a TLC run per batch, in parallel): bounded time per run also in the thorough tier
    batches = []
    for ti, tp in enumerate(traces):
        parts = vlib.split_traces(tp)
        n += len(parts)
        ev += sum(len(p[1]) for p in parts)
        for b in range(0, len(parts), 6):
            bp = os.path.join(d, "b%d-%d.ndjson" % (ti, b))
            open(bp, "w").write("".join("".join(lines) for _, lines in parts[b:b + 6]))
            batches.append((bp, parts[b:b + 6]))

    def validate(item):
        bp, parts = item
        rej = []
        res = chk.tlc_trace("AgentTrace", "AgentTrace.cfg", bp, consts=consts, timeout=1800)
        if not res["accepted"]:
            for sid, lines in parts:
                p = os.path.join(d, "single-%s.ndjson" % sid)
                open(p, "w").write("".join(lines))
                r1 = chk.tlc_trace("AgentTrace", "AgentTrace.cfg", p, consts=consts, timeout=1800)
                if not r1["accepted"]:
                    rej.append((byid.get(sid), p, r1))
        return rej
    for rej in vlib.parallel(validate, batches):
        rejected += rej
    return n, ev, rejected, consts


def handle(chk, rejected, flags, tag, consts):
    """a rejection is a violation only if a second run of the same history is rejected as well (timing is involved)"""
    for script, path, res in rejected[:3]:
        d = chk.sub("ag-re-" + tag)
        sp = os.path.join(d, "s.ndjson"); open(sp, "w").write(json.dumps(script) + "\n")
        again = None
        for i in range(3):
            tp = os.path.join(d, "t%d.ndjson" % i)
            chk.vh(["ag", "-scripts", sp, "-out", tp, "-work", d], timeout=300)
            r2 = chk.tlc_trace("AgentTrace", "AgentTrace.cfg", tp, consts=consts)
            if not r2["accepted"]:
                again = (tp, r2)
                break
        ev1 = re.sub(r"\s+", " ", res.get("event") or "")[:300]
        if again is None:
            chk.inconclusive.append("history %s rejected once at %s, accepted on 3 re-runs" % (script["id"], ev1))
            continue
        tp, r2 = again
        evname = re.search(r'ev \|-> "(\w+)"', r2.get("event") or "")
        chk.report("e2e:%s" % (evname.group(1) if evname else "?"), "end-to-end history %s: event rejected by AgentTrace: %s" % (script["id"], re.sub(r"\s+", " ", r2.get("event") or "")[:1200]),
                   {"script.json": script, "trace.ndjson": open(tp).read()})
