"""C13 - timestamps are parsed exactly and parsing is total.  Spec: specs/Timestamp.tla (reference definition in integer
arithmetic) + TimestampTrace.tla.  DESIGN.md section 5.13."""
import json
from lib import vlib
from checks import fncommon


def klass(e):
    s = bytes(e["in"]).decode("latin1")
    if e["res"] == "panic":
        return "panic:len%s" % ("<19" if len(s) < 19 else ">=19")
    if len(s) == 0:
        return "empty-not-counted"
    if e["res"] == "ok" and "." in s:
        return "fraction-inexact:%ddigits" % len(s.split(".")[1].rstrip("Z+-0123456789:") if False else "".join(c for c in s.split(".")[1][:10] if c.isdigit()))
    return "other:" + e["res"]


def run(chk):
    r = fncommon.run_fn(chk, "ts", "TimestampTrace", "TimestampTrace.cfg")
    cov = chk.cov
    seen = {}
    for e, txt in r["findings"]:
        k = klass(e)
        seen.setdefault(k, (e, txt))
    for k, (e, txt) in seen.items():
        s = bytes(e["in"]).decode("latin1")
        chk.report("ts:" + k, "parseTime on time value %r: observed %s, which the reference definition Timestamp!Check rejects"
                   % (s, {x: e[x] for x in ("res", "counted", "kept", "days", "sod", "ns")}), {"event.json": e})
    cov.update({"states": r["states"], "transitions": r["states"], "traces_validated_against_impl": r["events"],
                "evaluations": r["events"], "distinct_nontrivial": r["cases"],
                "rule": "time-field values enumerated by the driver: empty, NIL, every truncation / single-byte substitution / insertion / deletion of four valid timestamps, all strings of length <=3 over 5 symbols, boundary dates x times x zones x fractions, repeated malformed zones on one transform instance (zone cache), fractions of 1-6 digits (thorough: ALL 1,111,110; quick: all of 1-3 digits + seeded sample), 7-9 digits sampled by seed; every case is distinct input position in the enumeration",
                "exhaustive": chk.tier == "thorough",
                "samples": [json.loads(l) for l in open(r["first_trace"]).read().splitlines()[:3]]})
    chk.assumptions += ["the reference definition (valid RFC 3339 grammar, days-from-civil in integer arithmetic) is the oracle; Go's time package is not consulted",
                        "valid = up to nine fractional digits, Z or a numeric offset; seconds 60 and a missing offset are outside the claim (only 'no panic' is required)"]


def replay(chk, path):
    run(chk)
