"""C02 - the forwarding client confirms only after the ACK, resolves every chunk exactly once, retransmits oldest first.
Spec: specs/Forwarder.tla (+ForwarderTrace.tla).  DESIGN.md section 5.1."""
import json, os, random
from lib import vlib
from checks import fwdcommon as F


def mc(chk, cov):
    thorough = chk.tier == "thorough"
    runs = [("Forwarder_thorough.cfg" if thorough else "Forwarder_quick.cfg", 3000),
            ("Forwarder_quick_inorder.cfg", 900), ("Forwarder_live.cfg", 900), ("Forwarder_stop.cfg", 900)]
    st = tr = 0
    cov["mc_runs"] = []
    # refinement: the impl-shaped spec implements AtLeastOnceLink, the client the agent-level spec assumes (temporal property)
    for cfg in (["ForwarderRef_thorough.cfg"] if thorough else ["ForwarderRef.cfg"]) + ["ForwarderRef_inorder.cfg"]:
        rr = chk.tlc_mc("ForwarderRef", cfg, timeout=3000)
        cov["mc_runs"].append({"cfg": cfg, "distinct": rr.get("distinct"), "generated": rr.get("generated"), "ok": rr["ok"], "wall_s": rr["wall_s"]})
        if not rr["ok"]:
            raise vlib.Inconclusive("Forwarder does not refine AtLeastOnceLink (spec-level):\n" + rr.get("counterexample", "")[:3000])
    for cfg, to in runs:
        r = chk.tlc_mc("Forwarder", cfg, timeout=to)
        cov["mc_runs"].append({"cfg": cfg, "distinct": r.get("distinct"), "generated": r.get("generated"), "ok": r["ok"],
                               "wall_s": r["wall_s"]})
        st += r.get("distinct", 0)
        tr += r.get("generated", 0)
        if not r["ok"]:
            # a counterexample on the spec alone is not a verdict about the code (DESIGN 2.1)
            raise vlib.Inconclusive("spec-level counterexample in %s (spec or code changed?):\n%s" % (cfg, r.get("counterexample", "")[:3000]))
    cov["states"], cov["transitions"] = st, tr


def make_scripts(chk, n_sim, n_rand, n_inorder):
    rnd = random.Random(chk.seed)
    scripts, scripts_io = [], []
    behs = chk.tlc_simulate("Forwarder", "Forwarder_sim.cfg", n_sim // 2, 150, chk.seed)
    behs += chk.tlc_simulate("Forwarder", "Forwarder_sim_nostop.cfg", n_sim - n_sim // 2, 150, chk.seed + 7)
    for i, b in enumerate(behs):
        scripts.append(F.script_from_behaviour(b, "sim%d" % i, rnd))
    for i in range(n_rand):
        scripts.append(F.random_script("rnd%d" % i, rnd))
    for rep in range(3):
        scripts += [dict(s, id=s["id"] + "-%d" % rep) for s in F.recovery_stories()]
    behs2 = chk.tlc_simulate("Forwarder", "Forwarder_sim_inorder.cfg", n_inorder, 120, chk.seed + 1)
    for i, b in enumerate(behs2):
        scripts_io.append(F.script_from_behaviour(b, "simio%d" % i, rnd, inorder=True))
    for i in range(n_inorder // 2):
        scripts_io.append(F.random_script("rndio%d" % i, rnd, inorder=True))
    return scripts, scripts_io, len(behs) + len(behs2)


def handle_rejections(chk, rejected, ackcap, inorder, cov):
    for script, path, res in rejected[:4]:
        why = "invariant %s violated" % res["inv"] if "inv" in res else "event %s at position %s is not explained by the spec" % (res.get("event"), res.get("hwm"))
        rep = F.reproduce(chk, script, ackcap, inorder) if script else None
        if rep is None:
            chk.inconclusive.append("trace of script %s rejected once (%s) but not reproduced in 12 re-runs" % (script and script["id"], why))
            cov["rejections_not_reproduced"] = cov.get("rejections_not_reproduced", 0) + 1
            continue
        tp, r2 = rep
        why2 = "invariant %s violated" % r2["inv"] if "inv" in r2 else "event %s at position %s is not explained by the spec" % (r2.get("event"), r2.get("hwm"))
        key = "trace-rejected:" + (r2.get("inv") or (r2.get("event") or "")[:80])
        chk.report(key, "real ClientWorker trace rejected by ForwarderTrace: %s (first run: %s)\nre-run: bin/check C02 --replay <this dir>" % (why2, why),
                   {"script.json": script, "trace.ndjson": open(tp).read(), "first_trace.ndjson": open(path).read(),
                    "tlc.txt": r2["out"][-6000:], "ackcap": str(ackcap), "inorder": str(inorder)})


def selftest(chk, tracefile, ackcap, cov):
    """binding: a corrupted real trace must be rejected"""
    parts = vlib.split_traces(tracefile)
    done = 0
    for sid, lines in parts:
        evs = [json.loads(l) for l in lines]
        idx = [i for i, e in enumerate(evs) if e["ev"] == "Consumed"]
        if not idx:
            continue
        d = chk.sub("selftest")
        # (a) drop the ACK read that precedes a confirmation  (b) corrupt the merge result
        ack = [i for i, e in enumerate(evs) if e["ev"] == "AckReadEnd" and e.get("out") == "ack" and i < idx[0]]
        muts = []
        if ack:
            muts.append(("drop-ack", [e for i, e in enumerate(evs) if i != ack[-1]]))
        col = [i for i, e in enumerate(evs) if e["ev"] == "Collected" and len(e.get("result", [])) >= 1]
        if col:
            e2 = [dict(e) for e in evs]
            e2[col[0]]["result"] = list(reversed(e2[col[0]]["result"])) + [99]
            muts.append(("corrupt-merge", e2))
        for name, ev2 in muts:
            p = os.path.join(d, name + ".ndjson")
            open(p, "w").write("".join(json.dumps(e) + "\n" for e in ev2))
            r = chk.tlc_trace("ForwarderTrace", "ForwarderTrace.cfg", p, consts={"AckCap": ackcap})
            if r["accepted"]:
                raise vlib.Inconclusive("binding self-test failed: corrupted trace (%s) was accepted" % name)
            done += 1
        if done >= 2:
            break
    cov["selftest_corrupted_traces_rejected"] = done


def run(chk):
    cov = chk.cov
    thorough = chk.tier == "thorough"
    mc(chk, cov)
    n_sim, n_rand, n_io = (4000, 3000, 600) if thorough else (260, 200, 60)
    ackcap = 2
    scripts, scripts_io, nbeh = make_scripts(chk, n_sim, n_rand, n_io)
    n1, e1, rej1, kinds1, stop1, st1 = F.run_scripts(chk, scripts, ackcap, "main")
    n2, e2, rej2, kinds2, stop2, st2 = F.run_scripts(chk, scripts_io, ackcap, "inorder", inorder=True)
    # AckCap 1 (hand-off back-pressure) on a slice of the scripts
    sl = [dict(s, id=s["id"] + "-c1") for s in scripts[: len(scripts) // 4]]
    n3, e3, rej3, kinds3, stop3, st3 = F.run_scripts(chk, sl, 1, "cap1")
    handle_rejections(chk, rej1, ackcap, False, cov)
    handle_rejections(chk, rej2, ackcap, True, cov)
    handle_rejections(chk, rej3, 1, False, cov)
    # the second instance of the same client: the real Datadog client over HTTP against a scripted intake (observer spec)
    import random as _random
    from checks import ddcommon as D
    rnd = _random.Random(chk.seed + 5)
    dscripts = D.stories() + [D.random_script("dd-rnd%d" % i, rnd) for i in range(1600 if thorough else 43)]
    nd, ed, rejd = D.run_scripts(chk, dscripts, "c02")
    D.handle(chk, rejd, "c02")
    cov["datadog_client"] = {"traces": nd, "events": ed}
    # the real connections under the client (TCP Forward connection with its deadlines, HTTP connection of the Datadog output):
    # end-to-end histories in which the upstream is silent, late, resetting or refusing and finally healthy - everything has to
    # be retransmitted and acknowledged while the agent keeps running or after a restart (observer AgentTrace, NoLoss / Drained)
    from checks import agcommon as A
    words = ("silent", "late", "refuse", "reset", "never-ack", "datadog", "stop-mid-retry")
    escripts = [s for s in A.stories() if any(w in s["id"] for w in words)]
    ne, ee, reje, consts = A.run_scripts(chk, escripts, ("P01",), "c02e")
    A.handle(chk, reje, ("P01",), "c02e", consts)
    cov["end_to_end_real_connections"] = {"histories": ne, "events": ee}
    # the connection contract the client's specification assumes, on the real Forward connection (TCP and TLS)
    from checks import fccommon
    cov["connection_contract_traces"] = fccommon.run(chk, rnd, thorough)
    kinds = kinds1 | kinds2 | kinds3
    total_kinds = sum(1 if k is None else len(v) for _, k, v in F.EVENT_KINDS)
    cov.update({
        "traces_validated_against_impl": n1 + n2 + n3 + nd, "trace_events": e1 + e2 + e3 + ed,
        "trace_validation_states": st1 + st2 + st3,
        "tlc_behaviours_replayed": nbeh, "scripts_run": len(scripts) + len(scripts_io) + len(sl),
        "evaluations": n1 + n2 + n3,
        "distinct_nontrivial": len({json.dumps({k: s[k] for k in ("dial", "send", "ack", "ping", "env", "maxDurMs", "inorder")}, sort_keys=True)
                                    for s in scripts + scripts_io if any(x != "ok" for x in s["dial"] + s["send"]) or any(x != "ack" for x in s["ack"]) or any(e["do"] != "feed" for e in s["env"])}),
        "rule": "scripts = environment projection of TLC -simulate behaviours of Forwarder (sim cfg: 4 chunks, AckCap 2, 4 faults, 2 soft reconnects, stop, steal) plus seeded random fault scripts; non-trivial = at least one fault outcome, stop, steal or soft reconnect; distinct by script content; Datadog client (same client over an HTTP connection, Close cancels the request in flight, anonymous immediate acknowledgement): 5 stories + seeded scripts of 2-7 chunks against an intake answering 200/202/299/300/404/500/hang/reset per request, stop at 0-900 ms, observer DatadogTrace (confirm only after 2xx, resolved once, oldest first, bounded stop, everything confirmed once the intake recovers)",
        "event_kinds_seen": sorted(kinds), "event_kinds_total": total_kinds,
        "samples": [scripts[0], scripts[len(scripts) // 2], scripts_io[0]],
        "max_stop_to_finished_ms": max(stop1 + stop2 + stop3 + [0]),
    })
    selftest(chk, os.path.join(chk.scratch, "fwd-main", "trace0.ndjson"), ackcap, cov)
    chk.assumptions += [
        "the ClosableClientConnection contract the client's spec assumes (an operation ends with the answer, at its deadline or at Close) is modelled in Connection.tla and checked on the real Forward connection over TCP and TLS by ConnTrace with a tolerance of 150 ms; the shared-key handshake is not exercised",
        "scripts realise TLC behaviours only up to the code's own nondeterminism; the verdict comes from validating what really happened",
        "a rejection counts as a violation only if a re-run of the same script is rejected again"]


def replay(chk, path):
    script = json.load(open(os.path.join(path, "script.json")))
    ackcap = int(open(os.path.join(path, "ackcap")).read()) if os.path.exists(os.path.join(path, "ackcap")) else 2
    inorder = os.path.exists(os.path.join(path, "inorder")) and open(os.path.join(path, "inorder")).read().strip() == "True"
    rep = F.reproduce(chk, script, ackcap, inorder, tries=20)
    chk.cov.update({"evaluations": 1, "distinct_nontrivial": 1, "samples": [script], "rule": "replay of one stored script"})
    if rep:
        tp, r = rep
        chk.report("replay:" + script["id"], "replayed script rejected again: %s" % (r.get("inv") or r.get("event")), {"trace.ndjson": open(tp).read()})
