"""C03 - hybrid buffer: conservation, FIFO, bounded memory and disk.  Spec: specs/HybridBuffer.tla (+HybridBufferTrace.tla).
DESIGN.md section 5.2."""
import json, os, random
from lib import vlib
from checks import hbcommon as H


def mc(chk, cov):
    thorough = chk.tier == "thorough"
    runs = [("HybridBuffer_thorough.cfg" if thorough else "HybridBuffer_quick.cfg", 5400), ("HybridBuffer_nodir.cfg", 900),
            ("HybridBuffer_live.cfg", 900)]
    # refinement: the impl-shaped spec implements DurableFifo, the buffer the agent-level spec assumes (temporal property)
    rr = chk.tlc_mc("HybridBufferRef", "HybridBufferRef.cfg" if thorough else "HybridBufferRef_quick.cfg", timeout=1800)
    cov_ref = {"cfg": rr["cfg"], "distinct": rr.get("distinct"), "generated": rr.get("generated"), "ok": rr["ok"], "wall_s": rr["wall_s"]}
    if not rr["ok"]:
        raise vlib.Inconclusive("HybridBuffer does not refine DurableFifo (spec-level):\n" + rr.get("counterexample", "")[:3000])
    st = tr = 0
    cov["mc_runs"] = [cov_ref]
    for cfg, to in runs:
        r = chk.tlc_mc("HybridBuffer", cfg, timeout=to)
        cov["mc_runs"].append({"cfg": cfg, "distinct": r.get("distinct"), "generated": r.get("generated"), "ok": r["ok"], "wall_s": r["wall_s"]})
        st += r.get("distinct", 0)
        tr += r.get("generated", 0)
        if not r["ok"]:
            raise vlib.Inconclusive("spec-level counterexample in %s:\n%s" % (cfg, r.get("counterexample", "")[:3000]))
    cov["states"], cov["transitions"] = st, tr


def why_of(r):
    return "invariant %s violated" % r["inv"] if "inv" in r else "event %s at position %s is not explained by the spec" % (r.get("event"), r.get("hwm"))


def handle_rejections(chk, rejected, group, cov):
    for script, path, res in rejected[:4]:
        rep = H.reproduce(chk, script, group) if script else None
        if rep is None:
            chk.inconclusive.append("trace of script %s rejected once (%s) but not reproduced" % (script and script["id"], why_of(res)))
            cov["rejections_not_reproduced"] = cov.get("rejections_not_reproduced", 0) + 1
            continue
        tp, r2 = rep
        import re
        ev = re.sub(r"(t|seq|ms) \|-> \d+,? ?", "", r2.get("event") or "")
        key = "trace-rejected:" + (r2.get("inv") or ev[:100])
        chk.report(key, "real bufferer trace rejected by HybridBufferTrace: %s (first run: %s)" % (why_of(r2), why_of(res)),
                   {"script.json": script, "trace.ndjson": open(tp).read(), "first_trace.ndjson": open(path).read(),
                    "tlc.txt": r2["out"][-6000:], "group": group})


def run(chk):
    cov = chk.cov
    thorough = chk.tier == "thorough"
    mc(chk, cov)
    rnd = random.Random(chk.seed)
    per_group = (1500, 800) if thorough else (90, 60)
    tot_tr = tot_ev = tot_st = nbeh = 0
    kinds = set()
    all_scripts = []
    for gi, group in enumerate(H.GROUPS):
        behs = chk.tlc_simulate("HybridBuffer", "HybridBuffer_sim_%s.cfg" % group, per_group[0], 160, chk.seed + gi)
        nbeh += len(behs)
        scripts = [H.script_from_behaviour(b, "%s-sim%d" % (group, i), rnd, group) for i, b in enumerate(behs)]
        scripts += [H.random_script("%s-rnd%d" % (group, i), rnd, group) for i in range(per_group[1])]
        # every fill level from empty to window + queue + 2 with a consumer that is not reading: spills up to the byte limit,
        # queue overflow of chunks that are already saved (the file stays and keeps counting against the limit), then the stop
        scripts += H.stop_stories(group)
        n, e, rej, k, st, hung = H.run_scripts(chk, scripts, group, group)
        handle_rejections(chk, rej, group, cov)
        tot_tr += n; tot_ev += e; tot_st += st; kinds |= k
        all_scripts += scripts
        if hung:
            cov["hung_runs"] = cov.get("hung_runs", 0) + hung
    for group in H.EXTRA_GROUPS:
        scripts = H.stop_stories(group) + [H.random_script("%s-rnd%d" % (group, i), rnd, group) for i in range(per_group[1])]
        n, e, rej, k, st, hung = H.run_scripts(chk, scripts, group, group)
        handle_rejections(chk, rej, group, cov)
        tot_tr += n; tot_ev += e; tot_st += st; kinds |= k
        all_scripts += scripts
    cov.update({
        "traces_validated_against_impl": tot_tr, "trace_events": tot_ev, "trace_validation_states": tot_st,
        "tlc_behaviours_replayed": nbeh, "scripts_run": len(all_scripts), "evaluations": tot_tr,
        "distinct_nontrivial": len({json.dumps({k: s[k] for k in ("q", "m", "maxBytes", "nodir", "gens")}, sort_keys=True)
                                    for s in all_scripts if sum(len(g["a"]) for g in s["gens"]) >= 2}),
        "rule": "scripts = acceptor/consumer projection of TLC -simulate behaviours of HybridBuffer (6 chunks, sizes 1-3, 3 generations) at four settings of (queue capacity, memory window, byte limit, directory usable) plus seeded random scripts, stop stories with a consumer that is not reading at every fill level, and a fifth setting (queue of 1 under a byte limit of 6) in which chunks that are already saved are dropped by queue overflow; non-trivial = at least two accepts; distinct by content",
        "event_kinds_seen": sorted(kinds), "samples": [all_scripts[0], all_scripts[-1]],
    })
    chk.assumptions += [
        "the consumer honours the ChunkConsumerArgs contract (every chunk it took is confirmed or handed back before OnFinished; no callback after OnFinished)",
        "Accept and Destroy are called from one goroutine, never concurrently (as the pipeline worker and the orchestrator do)",
        "a rejection counts as a violation only if a re-run of the same script is rejected again"]


def replay(chk, path):
    script = json.load(open(os.path.join(path, "script.json")))
    group = open(os.path.join(path, "group")).read().strip()
    rep = H.reproduce(chk, script, group, tries=20)
    chk.cov.update({"evaluations": 1, "distinct_nontrivial": 1, "samples": [script], "rule": "replay of one stored script"})
    if rep:
        tp, r = rep
        chk.report("replay:" + script["id"], "replayed script rejected again: %s" % why_of(r), {"trace.ndjson": open(tp).read()})
