"""C12 - records are isolated from each other despite pooling and buffer reuse.  Spec: specs/RecordPool.tla (provenance of
every slot of pooled record objects; allocator actions) + RecordPoolTrace.tla; driver drv/rp.  DESIGN.md section 5.19."""
import json
from lib import vlib
from checks import fncommon


def klass(e):
    ev = e.get("ev")
    if ev == "alloc.new":
        if e.get("stale"):
            return "pooled-object-not-clean"
        return "allocator:new-refs%s-fresh%s" % (e.get("refs"), e.get("fresh"))
    if ev in ("alloc.release", "alloc.recycle"):
        return "allocator:" + ev
    if ev == "Out":
        if e["longCount"] != e["aloneCount"]:
            return "out:%s:count" % e["shape"]
        if any(p != e["n"] for p in e["prov"]):
            return "out:%s:foreign-token" % e["shape"]
        if e["longTag"] != e["aloneTag"]:
            return "out:%s:tag" % e["shape"]
        try:
            a, b = json.loads(e["alone"] or "{}"), json.loads(e["long"] or "{}")
            diff = sorted(k for k in set(a) | set(b) if a.get(k) != b.get(k))
        except Exception:
            diff = ["?"]
        return "out:%s:differs:%s" % (e["shape"], ",".join(diff))
    if ev == "Run":
        return "run:" + ("labels" if e.get("badLabels") else "unaccounted" if not e.get("allAccounted") else "decode")
    if ev == "OutputDone":
        return "outputdone:" + ("unowned" if e.get("unowned") else "no-reuse")
    return "other:%s" % ev


def run(chk):
    mcs = []
    cfgs = ["RecordPool_quick.cfg", "RecordPool_one.cfg"] + (["RecordPool_thorough.cfg"] if chk.tier == "thorough" else [])
    for cfg in cfgs:
        mc = chk.tlc_mc("RecordPool", cfg, timeout=900)
        mcs.append(mc)
        if not mc["ok"]:
            chk.report("spec:RecordPool:" + cfg, "RecordPool.tla violates its own invariants:\n" + mc.get("counterexample", ""), {})
    d = chk.sub("rpwork")
    r = fncommon.run_fn(chk, "rp", "RecordPoolTrace", "RecordPoolTrace.cfg", extra_args=["-work", d], max_findings_per_shard=6)
    seen = {}
    for e, txt in r["findings"]:
        if e.get("obj", 0) > 3000:      # more record objects in one agent run than RecordPoolTrace.cfg has room for (MaxObj): not a verdict
            raise vlib.Inconclusive("a run used more than MaxObj = 3000 record objects; the trace specification cannot follow it")
        seen.setdefault(klass(e), e)
    if seen:
        # the agent is concurrent: a rejection counts only if the same class of rejection comes back on a second run
        r2 = fncommon.run_fn(chk, "rp", "RecordPoolTrace", "RecordPoolTrace.cfg", extra_args=["-work", d], max_findings_per_shard=6, tag="-again")
        again = {klass(e) for e, _ in r2["findings"]}
        for k in list(seen):
            if k not in again:
                chk.inconclusive.append("rejected once, not on the second run: %s" % k)
                del seen[k]
    # slice of the routing check: connections that route at the same time share nothing (key extraction scratch, lookup keys)
    rr = fncommon.run_fn(chk, "rt", "RoutingTrace", "RoutingTrace.cfg", extra_args=["-only", "conc"], tag="-conc")
    if rr["findings"]:
        rr2 = fncommon.run_fn(chk, "rt", "RoutingTrace", "RoutingTrace.cfg", extra_args=["-only", "conc"], tag="-conc-again")
        if rr2["findings"]:
            e = rr2["findings"][0][0]
            chk.report("pool:concurrent-routing", "connections routing at the same time: a pipeline received records of another tuple or is named / tagged by another record's keys: %s" % json.dumps(e)[:1500], {"event.json": e})
        else:
            chk.inconclusive.append("concurrent routing rejected once, not on the second run")
    for k, e in seen.items():
        chk.report("pool:" + k, "record isolation: event rejected by RecordPoolTrace: %s" % json.dumps(e)[:1800], {"event.json": e})
    first = [json.loads(l) for l in open(r["first_trace"]).read().splitlines()]
    news = [e for e in first if e["ev"] == "alloc.new"]
    chk.cov.update({"states": sum(m.get("distinct", 0) for m in mcs) + r["states"], "transitions": sum(m.get("generated", 0) for m in mcs) + r["states"],
                    "traces_validated_against_impl": 2 * vlib.NCPU, "evaluations": r["events"], "distinct_nontrivial": r["cases"],
                    "pool_reuse_in_first_shard": {"allocations": len(news), "reused_objects": sum(1 for e in news if not e["fresh"])},
                    "rule": "every sequence of %d record shapes out of 10 (short / pooled-size with all optional fields / pooled-size without / escaped / escaped pooled / multi-line / refused by the parser / dropped by a filter / unparsable time / e-mail) plus 20 (thorough: 300) seeded sequences of 12 per shard, as one stream over two interleaved TCP connections into one long-lived agent (GOMAXPROCS=1, collector off, so sync.Pool and the buffer pools really reuse), every third history in lock step and the others in bursts; with 1 and with 2 outputs; each record also alone on fresh allocator/parser/transforms/serializers; one more agent per shard with four connections written in parallel on four processors; the routing slice: four orchestrator sinks routing their own key tuples at the same time (Routing!CheckConcurrent)" % (4 if chk.tier == "thorough" else 3),
                    "samples": [e for e in first if e["ev"] == "Out"][:2]})
    chk.assumptions += ["the documented stateful percentage sampling is excluded (drop rate 100 in the test configuration)",
                        "fallback timestamps (time of reception) of records whose time cannot be parsed are normalised; a stale timestamp of another record would still differ from the fallback and is reported",
                        "record identity in the long run is the token of the host field; a record whose host were overwritten shows as missing for its own number and as foreign token / duplicate for the other"]


def replay(chk, path):
    run(chk)
