"""C04 - spilled chunks survive I/O faults and crashes intact or not at all.  Spec: specs/ChunkFile.tla (+ChunkFileTrace.tla).
DESIGN.md section 5.3.  Fault enumeration on the real file system: RLIMIT_FSIZE cuts the write, kill points end the process."""
import json, os, random, re, itertools
from lib import vlib

KILLS = ["", "wfa.afterOpen", "wfa.afterWrite", "wfa.afterClose", "wfa.afterRename"]


def grid(units, full):
    out = []
    i = 0
    for unit in units:
        for n in (1, 2, 3):
            for pos in (1, 2, 3):
                for limit in [-1] + list(range(0, n)):
                    for kill in KILLS:
                        for damage, kind in ((0, ""), (1 if pos != 1 else 2, "unreadable"), (1 if pos != 1 else 2, "zero"), (1 if pos != 1 else 2, "dangling")):
                            if not full and (damage and kill not in ("", "wfa.afterWrite")):
                                continue
                            lens = [2, 1, 3]
                            lens[pos - 1] = n
                            i += 1
                            out.append({"id": "g%d" % i, "unit": unit, "lens": lens, "victim": pos, "limitAt": limit,
                                        "killPoint": kill, "damage": damage, "damageKind": kind})
                            if kill and (full or not damage):   # ... and with a second life of the agent before the recovery
                                i += 1
                                out.append(dict(out[-1], id="g%d" % i, after=[1, 2]))
    # chunks are not written in id order (at a stop the newer chunks of the input queue are saved before the older ones of the
    # output window; a consumer hands old chunks back while new ones are spilled): the interrupted or failed write is then not
    # the newest file of the directory.  Every order of three ids x victim position x where the write stops
    for unit in units[:2]:
        for ids in itertools.permutations((1, 2, 3)):
            if ids == (1, 2, 3):
                continue
            for pos in (1, 2, 3):
                for limit, kill in ((-1, "wfa.afterOpen"), (1, "wfa.afterWrite"), (-1, "wfa.afterClose"), (1, ""), (-1, "wfa.afterRename")):
                    for after in ((), (1,)):
                        i += 1
                        s = {"id": "g%d" % i, "unit": unit, "lens": [2, 2, 2], "ids": list(ids), "victim": pos, "limitAt": limit, "killPoint": kill, "damage": 0, "damageKind": ""}
                        if after:
                            s.update(after=[1, 2], afterIds=[5, 4])
                        out.append(s)
    return out


def field(state, name):
    m = re.search(r"\b%s \|-> ([^\n]*?),?\n" % name, state + "\n")
    return m.group(1).strip() if m else ""


def script_from_behaviour(beh, sid, unit):
    lens, victim, limit, kill, damage, dkind, after, lives = [], 0, -1, "", 0, "", [], 1
    ids, after_ids = [], []
    prev = None
    for act, par, st in beh:
        pre = prev if prev is not None else st
        cur = int(field(pre, "cur") or 0)
        wpc = field(pre, "wpc").strip('"')
        written = int(field(pre, "written") or 0)
        if act == "Respawn":
            lives += 1
        elif act == "Persist":
            pi, pl = [int(x) for x in par.split(",")]
            (lens if lives == 1 else after).append(pl)
            (ids if lives == 1 else after_ids).append(pi)
        elif act == "WriteFails" and not victim:
            victim, limit = cur, written
        elif act == "Crash" and wpc != "idle" and (not victim or victim == cur):
            victim = cur
            if wpc == "write" and written == 0 or wpc == "open":
                kill = "wfa.afterOpen"
            elif wpc in ("write", "cleanup"):
                limit, kill = written, "wfa.afterWrite"
            elif wpc == "close":
                kill = "wfa.afterWrite"
            elif wpc == "rename":
                kill = "wfa.afterClose"
        elif act == "LoadFails" and not damage:
            m = re.search(r"rq \|-> <<(\d+)", pre)
            if m:
                damage, dkind = int(m.group(1)), "unreadable"
        elif act == "DamageZero" and not damage:
            damage, dkind = int(par), "zero"
        prev = st
    if not lens:
        lens, ids = [1], [min(set(range(1, 8)) - set(after_ids))]    # the first life persists at least one chunk (the driver needs one)
    # the driver's victim is a position in accept order of the first life, the model's is an id
    vpos = ids.index(victim) + 1 if victim in ids else 0
    if vpos == 0:
        limit, kill = -1, ""
    return {"id": sid, "unit": unit, "lens": lens, "ids": ids, "victim": vpos, "limitAt": limit, "killPoint": kill, "damage": damage, "damageKind": dkind, "after": after, "afterIds": after_ids}


def run_scripts(chk, scripts):
    chk.build_vh()
    d = chk.sub("cf")
    nsh = min(vlib.NCPU, max(1, len(scripts) // 4))
    shards = [scripts[i::nsh] for i in range(nsh)]
    byid = {s["id"]: s for s in scripts}

    def drive(i):
        sp = os.path.join(d, "scripts%d.ndjson" % i)
        open(sp, "w").write("".join(json.dumps(s) + "\n" for s in shards[i]))
        tp = os.path.join(d, "trace%d.ndjson" % i)
        w = os.path.join(d, "work%d" % i)
        os.makedirs(w, exist_ok=True)
        chk.vh(["cf", "-scripts", sp, "-out", tp, "-work", w], timeout=1800)
        return tp

    traces = vlib.parallel(drive, range(nsh))
    results = vlib.parallel(lambda tp: (tp, chk.tlc_trace("ChunkFileTrace", "ChunkFileTrace.cfg", tp)), traces)
    n_tr = n_ev = states = 0
    rejected, kinds = [], set()
    for tp, res in results:
        parts = vlib.split_traces(tp)
        n_tr += len(parts)
        states += res.get("states", 0)
        for sid, lines in parts:
            n_ev += len(lines)
            for ln in lines:
                e = json.loads(ln)
                kinds.add(e["ev"] + ("/" + str(e.get("res", e.get("point", e.get("killed", "")))) if e["ev"] in ("Unload", "FeederLoad", "VictimEnd") else ""))
        if not res["accepted"]:
            def one(part):
                sid, lines = part
                p = os.path.join(d, "single-%s.ndjson" % sid)
                open(p, "w").write("".join(lines))
                return sid, p, chk.tlc_trace("ChunkFileTrace", "ChunkFileTrace.cfg", p)
            for sid, p, r in vlib.parallel(one, parts):
                if not r["accepted"]:
                    rejected.append((byid.get(sid), p, r))
    return n_tr, n_ev, rejected, kinds, states


def why_of(r):
    return "invariant %s violated" % r["inv"] if "inv" in r else "event %s at position %s is not explained by the spec" % (r.get("event"), r.get("hwm"))


def run(chk):
    cov = chk.cov
    thorough = chk.tier == "thorough"
    r = chk.tlc_mc("ChunkFile", "ChunkFile_quick.cfg", timeout=600)
    cov["states"], cov["transitions"] = r.get("distinct", 0), r.get("generated", 0)
    cov["mc_runs"] = [{"cfg": "ChunkFile_quick.cfg", "distinct": r.get("distinct"), "ok": r["ok"]}]
    if not r["ok"]:
        raise vlib.Inconclusive("spec-level counterexample:\n" + r.get("counterexample", "")[:3000])
    rnd = random.Random(chk.seed)
    behs = chk.tlc_simulate("ChunkFile", "ChunkFile_sim.cfg", 8000 if thorough else 200, 60, chk.seed)
    scripts = [script_from_behaviour(b, "sim%d" % i, rnd.choice([1, 4096] if not thorough else [1, 512, 4096, 33000])) for i, b in enumerate(behs)]
    scripts += grid([1, 4096, 33000, 512] if thorough else [1, 4096], thorough)
    n_tr, n_ev, rejected, kinds, states = run_scripts(chk, scripts)
    for script, path, res in rejected[:4]:
        # sequential child processes, deterministic faults: re-run once to confirm
        n2, e2, rej2, _, _ = run_scripts(chk, [dict(script, id=script["id"] + "-r")])
        if not rej2:
            chk.inconclusive.append("scenario %s rejected once (%s) but not on re-run" % (script["id"], why_of(res)))
            continue
        r2 = rej2[0][2]
        ev = re.sub(r"(t|seq) \|-> \d+,? ?", "", r2.get("event") or "")
        chk.report("trace-rejected:" + (r2.get("inv") or ev[:100]),
                   "real chunk persistence/recovery trace rejected by ChunkFileTrace: %s\nscenario: %s" % (why_of(r2), json.dumps(script)),
                   {"script.json": script, "trace.ndjson": open(rej2[0][1]).read(), "tlc.txt": r2["out"][-5000:]})
    cov.update({"traces_validated_against_impl": n_tr, "trace_events": n_ev, "trace_validation_states": states,
                "tlc_behaviours_replayed": len(behs), "evaluations": n_tr,
                "distinct_nontrivial": len({json.dumps({k: s[k] for k in ("unit", "lens", "victim", "limitAt", "killPoint", "damage", "damageKind")} | {"after": s.get("after"), "ids": s.get("ids"), "afterIds": s.get("afterIds")}, sort_keys=True)
                                            for s in scripts if s["victim"] and (s["limitAt"] >= 0 or s["killPoint"] or s["damage"])}),
                "rule": "scenarios = fault projection of TLC -simulate behaviours of ChunkFile plus the complete grid victim length {1,2,3} x queue position {1,2,3} x write stopped at byte k in 0..n-1 or not x kill point {none, after open, after write, after close, after rename} x an unreadable / emptied / vanished (dangling name) neighbour file, plus every non-monotonic order of three chunk ids x victim position x stop point (the interrupted write is not the newest file), with and without a second life, at byte units %s; non-trivial = a write limit, a kill point or a damaged file" % ([1, 512, 4096, 33000] if thorough else [1, 4096]),
                "exhaustive": True, "event_kinds_seen": sorted(kinds), "samples": [scripts[0], scripts[-1]]})
    chk.level = "fault_enumeration"
    chk.assumptions += ["crash = process death (os.Exit at a kill point inside util.WriteFileAt); the page cache survives, no power loss",
                        "short writes and out-of-space are produced by RLIMIT_FSIZE (SIGXFSZ ignored): write(2) returns a short count, then EFBIG",
                        "an unreadable file is simulated by a directory of the same name (read(2) fails with EISDIR), a file that vanishes between the scan and its use by a dangling symbolic link; chunk files carry Forward-style names and are recognised by the Forward output's own matcher"]


def replay(chk, path):
    script = json.load(open(os.path.join(path, "script.json")))
    n, e, rej, _, _ = run_scripts(chk, [script])
    chk.cov.update({"evaluations": 1, "distinct_nontrivial": 2, "samples": [script], "rule": "replay of one stored scenario"})
    if rej:
        chk.report("replay:" + script["id"], "replayed scenario rejected again: %s" % why_of(rej[0][2]), {"trace.ndjson": open(rej[0][1]).read()})
