"""C17 - configuration reload is safe at any moment.  Specs: Reload.tla (TLC, every interleaving of two connections, slot reuse
and reloads at the orchestrator API), ReloadTrace.tla (observer of the real ReloadableOrchestrator with gates in the race
windows, also behind the real TCP listener), AgentTrace.tla (reloads during end-to-end histories).  DESIGN.md section 5.9."""
import json, os, random, subprocess
from lib import vlib
from checks import agcommon as A


def window_scripts():
    """deterministic placements of a reload / a second connection inside each race window"""
    out = []
    conn = lambda name, num, at=0, extra=(): {"name": name, "ops": [{"at": at, "do": "newsink", "num": num}, {"at": 0, "do": "accept", "stamp": 1}] + list(extra) + [{"at": 0, "do": "close"}]}
    # a reload completes between the creation of a connection's sink and its registration
    for kind in ("ok", "invalid"):
        for pre in (True, False):
            procs = ([conn("c0", 5)] if pre else []) + [{"name": "c1", "ops": [{"after": "c0.close.0" if pre else "", "at": 0, "do": "newsink", "num": 7}, {"at": 0, "do": "accept", "stamp": 1}, {"at": 0, "do": "tick"}, {"at": 0, "do": "accept", "stamp": 2}, {"at": 0, "do": "close"}]},
                                                    {"name": "r", "ops": [{"after": "GateHeld", "do": "reload", "kind": kind}]}]
            out.append({"id": "newsink-window-%s-%s" % (kind, pre), "seed": 1, "procs": procs, "holds": [{"gate": "rl.newsink.created", "nth": 2 if pre else 1, "until": "ReloadEnd"}]})
    # connections operate while the reload is between its steps
    for gate in ("rl.reload.initiated", "rl.reload.locked", "rl.reload.renewed"):
        procs = [conn("c1", 3, extra=[{"after": "GateHeld", "do": "accept", "stamp": 2}, {"at": 0, "do": "tick"}]),
                 {"name": "c2", "ops": [{"after": "GateHeld", "do": "newsink", "num": 4}, {"at": 0, "do": "accept", "stamp": 1}, {"at": 0, "do": "close"}]},
                 {"name": "r", "ops": [{"after": "c1.accept.1", "do": "reload", "kind": "ok"}]}]
        out.append({"id": "reload-held-at-%s" % gate.split(".")[-1], "seed": 1, "procs": procs, "holds": [{"gate": gate, "nth": 1, "until": "c1.accept.2"} if gate == "rl.reload.initiated" else {"gate": gate, "nth": 1, "sleepMs": 15}]})
    # a downstream call in progress (slow final flush of a closing sink, slow accept: a busy pipeline) overlaps a reload:
    # the reload has to wait for it; nothing may reach the old generation after its shutdown
    for kind in ("ok", "invalid"):      # ... and a downstream that is slow to build the sink of a connection that is just registering
        procs = [{"name": "c1", "ops": [{"at": 0, "do": "newsink", "num": 3}, {"at": 0, "do": "accept", "stamp": 1}, {"after": "ReloadEnd", "do": "accept", "stamp": 2}, {"at": 0, "do": "close"}]},
                 {"name": "r", "ops": [{"after": "GateHeld", "do": "reload", "kind": kind}]}]
        out.append({"id": "downstream-slow-newsink-%s" % kind, "seed": 1, "procs": procs, "holds": [{"gate": "d.newsink", "nth": 1, "sleepMs": 25}]})
    for gate, nth in (("d.close", 1), ("d.accept", 2)):
        for kind in ("ok", "invalid"):
            procs = [conn("c1", 3, extra=[{"at": 0, "do": "accept", "stamp": 2}]),
                     {"name": "c2", "ops": [{"at": 0, "do": "newsink", "num": 4}, {"at": 0, "do": "accept", "stamp": 1}, {"after": "ReloadEnd", "do": "accept", "stamp": 2}, {"at": 0, "do": "close"}]},
                     {"name": "r", "ops": [{"after": "GateHeld", "do": "reload", "kind": kind}]}]
            out.append({"id": "downstream-slow-%s-%s" % (gate.split(".")[1], kind), "seed": 1, "procs": procs, "holds": [{"gate": gate, "nth": nth, "sleepMs": 25}]})
    return out


def tcp_scripts():
    """socket-number reuse: the old connection is held right after it asked for its socket to be closed"""
    out = []
    for reload_between in (False, True):
        procs = [{"name": "a", "ops": [{"at": 0, "do": "connect"}, {"at": 0, "do": "send", "stamp": 1}, {"at": 4, "do": "disconnect"}]},
                 {"name": "b", "ops": [{"after": "GateHeld", "do": "connect"}, {"at": 0, "do": "send", "stamp": 1}, {"after": "DClose", "do": "send", "stamp": 2}, {"at": 0, "do": "disconnect"}]}]
        if reload_between:
            procs.append({"name": "r", "ops": [{"after": "b.send.1", "do": "reload", "kind": "ok"}]})
        out.append({"id": "socket-reuse-%s" % reload_between, "seed": 1, "tcp": True, "procs": procs, "holds": [{"gate": "tcp.conn.aborted", "nth": 1, "until": "b.send.1"}]})
    # a client goes away while a reload holds the write lock (its last flush and close wait for the lock) and another client
    # connects at once: the socket number must not be handed out again before the old sink is closed
    for hold_ms in (40, 90):
        procs = [{"name": "a", "ops": [{"at": 0, "do": "connect"}, {"at": 0, "do": "send", "stamp": 1}, {"after": "GateHeld", "do": "disconnect"}]},
                 {"name": "b", "ops": [{"after": "a.disconnect.0", "do": "connect"}, {"at": 0, "do": "send", "stamp": 1}, {"after": "ReloadEnd", "do": "send", "stamp": 2}, {"at": 0, "do": "disconnect"}]},
                 {"name": "r", "ops": [{"after": "DAccept", "do": "reload", "kind": "ok"}]}]   # a's record is delivered, its connection idle
        out.append({"id": "disconnect-during-reload-%d" % hold_ms, "seed": 1, "tcp": True, "procs": procs, "holds": [{"gate": "rl.reload.locked", "nth": 1, "sleepMs": hold_ms}]})
    return out


def random_script(sid, rnd):
    procs = []
    for c in range(rnd.randint(1, 3)):
        ops, at = [], rnd.choice([0, 3, 8])
        for life in range(rnd.randint(1, 2)):
            ops.append({"at": at, "do": "newsink", "num": rnd.choice([3, 4, 5])+ 10 * c})
            for k in range(rnd.randint(0, 4)):
                at += rnd.choice([0, 1, 3, 6])
                ops.append({"at": at, "do": rnd.choice(["accept", "accept", "tick"]), "stamp": life * 10 + k})
            ops.append({"at": at, "do": "close"})
        procs.append({"name": "c%d" % c, "ops": ops})
    procs.append({"name": "r", "ops": [{"at": rnd.randint(0, 25), "do": "reload", "kind": rnd.choice(["ok", "ok", "invalid"])} for _ in range(rnd.randint(1, 3))]})
    return {"id": sid, "seed": rnd.randrange(1 << 30), "jitter": True, "procs": procs, "holds": []}


def run(chk):
    cov = chk.cov
    thorough = chk.tier == "thorough"
    r = chk.tlc_mc("Reload", "Reload_thorough.cfg" if thorough else "Reload_quick.cfg", timeout=1800)
    if not r["ok"]:
        raise vlib.Inconclusive("spec-level counterexample:\n" + r.get("counterexample", "")[:3000])
    cov["states"], cov["transitions"] = r.get("distinct", 0), r.get("generated", 0)
    cov["mc_runs"] = [{"cfg": r["cfg"], "distinct": r.get("distinct"), "ok": True}]
    # negative controls: each of the three unsafe orders (sink created outside the lock, socket released before the sink is
    # closed, downstream Close outside the lock) has to be refuted by TLC, otherwise Safe says nothing about them
    for neg in ("Reload_neg_newsink.cfg", "Reload_neg_closeorder.cfg", "Reload_neg_closelock.cfg"):
        rn = chk.tlc_mc("Reload", neg, timeout=600)
        if rn["ok"]:
            raise vlib.Inconclusive("Reload.tla: negative control %s was not refuted" % neg)
        cov["mc_runs"].append({"cfg": neg, "distinct": rn.get("distinct"), "ok": False, "expected": "refuted"})
    rnd = random.Random(chk.seed)
    chk.build_vh()
    d = chk.sub("rl")
    # (a) orchestrator API: race windows + jittered random schedules
    scripts = window_scripts() + [random_script("rnd%d" % i, rnd) for i in range(9000 if thorough else 300)]
    nsh = 16
    shards = [scripts[i::nsh] for i in range(nsh)]
    byid = {s["id"]: s for s in scripts}

    def drive(i):
        sp = os.path.join(d, "s%d.ndjson" % i)
        open(sp, "w").write("".join(json.dumps(s) + "\n" for s in shards[i]))
        tp = os.path.join(d, "t%d.ndjson" % i)
        chk.vh(["rl", "-scripts", sp, "-out", tp], timeout=900)
        return tp
    n_a = 0
    for tp in vlib.parallel(drive, range(nsh)):
        res = chk.tlc_trace("ReloadTrace", "ReloadTrace.cfg", tp)
        parts = vlib.split_traces(tp)
        n_a += len(parts)
        if not res["accepted"]:
            for sid, lines in parts:
                p = os.path.join(d, "single-%s.ndjson" % sid)
                open(p, "w").write("".join(lines))
                r1 = chk.tlc_trace("ReloadTrace", "ReloadTrace.cfg", p)
                if r1["accepted"]:
                    continue
                sp = os.path.join(d, "re.ndjson"); open(sp, "w").write(json.dumps(byid[sid]) + "\n")
                tp2 = os.path.join(d, "re-%s.ndjson" % sid)
                rejected_again = None
                for k in range(5):
                    chk.vh(["rl", "-scripts", sp, "-out", tp2], timeout=120)
                    r2 = chk.tlc_trace("ReloadTrace", "ReloadTrace.cfg", tp2)
                    if not r2["accepted"]:
                        rejected_again = r2
                        break
                if rejected_again is None:
                    chk.inconclusive.append("reload scenario %s rejected once, accepted on 5 re-runs" % sid)
                else:
                    import re
                    evn = re.search(r'ev \|-> "(\w+)"', rejected_again.get("event") or "")
                    chk.report("reload:api:" + (evn.group(1) if evn else "?"), "ReloadableOrchestrator scenario %s rejected by ReloadTrace at %s" % (sid, rejected_again.get("event")),
                               {"script.json": byid[sid], "trace.ndjson": open(tp2).read()})
                break
    # (a') behind the real TCP listener, one child process per scenario: a crash of the process is an outcome
    n_t = 0
    for s in tcp_scripts():
        for rep in range(3 if not thorough else 10):
            sp = os.path.join(d, "tcp.ndjson"); open(sp, "w").write(json.dumps(s) + "\n")
            tp = os.path.join(d, "tcp-%s-%d.ndjson" % (s["id"], rep))
            p = chk.vh(["rl", "-scripts", sp, "-out", tp], timeout=120, check=False)
            n_t += 1
            if p.returncode != 0:
                crash = [l for l in p.stderr.splitlines() if "panic" in l or "nil pointer" in l][:2]
                chk.report("reload:tcp:crash", "the process died in TCP scenario %s (socket number reused while the old connection's sink was still registered): %s" % (s["id"], crash),
                           {"script.json": s, "stderr.txt": p.stderr[-3000:]})
                break
            r1 = chk.tlc_trace("ReloadTrace", "ReloadTrace.cfg", tp)
            if not r1["accepted"]:
                chk.report("reload:tcp:" + (r1.get("event") or "")[:30], "TCP scenario %s rejected by ReloadTrace at %s" % (s["id"], r1.get("event")), {"script.json": s, "trace.ndjson": open(tp).read()})
                break
    # the listener itself: one live sink per client number for every timing of connects, closes, resets and the stop
    from checks import lscommon
    cov["listener_traces"] = lscommon.run(chk, rnd, thorough)
    # (b, c) reloads with valid / invalid / incompatible configurations during end-to-end histories
    kinds = ("same", "transform", "invalid", "incompatible", "keysdrop", "addoutput")
    e2e = [A.random_script("e2e%d" % i, rnd, kinds) for i in range(1500 if thorough else 24)]
    for i, k in enumerate(kinds):    # each kind at least once, with data still undelivered at the reload and none after it
        e2e.append({"id": "reload-%s-quiet" % k, "keys": 2, "memWindow": 0,
                    "gens": [{"upstream": ["noAck", "noAck", "noAck"], "clients": [{"n": 40, "pauseEvery": 10, "pauseMs": 32, "delayMs": 0}], "stopAfterMs": 400,
                              "reload": k, "reloadAtMs": 200, "twoKeys": k == "keysdrop"},
                             {"upstream": [], "clients": [{"n": 1, "pauseEvery": 0, "pauseMs": 0, "delayMs": 0}], "stopAfterMs": 10, "drain": True, "twoKeys": k == "keysdrop"}]})
    n, ev, rej, consts = A.run_scripts(chk, e2e, ("P17",), "c17")
    A.handle(chk, rej, ("P17",), "c17", consts)
    cov.update({"traces_validated_against_impl": n_a + n_t + n, "evaluations": n_a + n_t + n,
                "distinct_nontrivial": len({json.dumps(s, sort_keys=True) for s in scripts + e2e}),
                "rule": "orchestrator API: a reload (accepted or refused) placed inside each race window with gates (between sink creation and registration of a new connection, between the reload's own steps while connections accept / tick / open), plus seeded schedules of 1-3 connection goroutines x 1-3 reloads with jitter at the gates; TCP: a new connection reusing the socket number of a connection held right after it released its socket, with and without a reload; end to end: reloads with the same / a changed-transform / an invalid / incompatible (keys added, trailing key dropped, output added) configuration at random moments of faulty histories and with undelivered data and no later traffic",
                "samples": [scripts[0], e2e[-1]]})
    chk.assumptions += ["downstream orchestrators are recording doubles at the orchestrator API; queue take-over and delivery are checked end to end with the real pipelines",
                        "a rejection is a violation only if reproduced on a re-run (TCP crash scenarios: the crash itself)"]


def replay(chk, path):
    run(chk)
