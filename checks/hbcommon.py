"""HybridBuffer (C03, component level of C18/C19): TLC behaviours -> scripts -> real bufferer -> traces -> TLC."""
import json, os, random, re
from lib import vlib

EVENTS = {"AcceptStart": 1, "AccDecided": 1, "UlReturn": 1, "AccEnq": 1, "AcceptEnd": 1, "DestroyBegin": 1, "DestroyEnd": 1,
          "FPop": 1, "FPopClosed": 1, "FLoad": 1, "FPush": 1, "FPushAbort": 1, "FCloseOut": 1, "FSaveIn": 1, "FSaveInDone": 1,
          "FSaveLast": 1, "FSaveOut": 1, "FConsDone": 1, "FStopped": 1, "TakeBegin": 0, "TakeEnd": 1, "ConfirmAny": 1,
          "ConfirmEnd": 1, "HandBackAny": 1, "HandBackEnd": 1, "ConsFinish": 1, "NewGeneration": 3, "Recover": 1, "StartEnd": 1}

GROUPS = {  # name -> (Q, M, MaxBytes, DirUsable)
    "A": (2, 2, 3, True), "B": (3, 2, 4, True), "C": (2, 4, 5, True), "nodir": (2, 2, 3, False)}
# a short queue under a roomy byte limit: the queue overflows while chunks can still be spilled, so chunks that are already saved
# are dropped (their files stay and keep counting against the limit).  No -simulate cfg of its own: stories and seeded scripts
EXTRA_GROUPS = {"D": (1, 2, 6, True)}


def ids_in(txt):
    return [int(x) for x in re.findall(r"id \|-> (\d+)", txt)]


def field_block(state, name):
    m = re.search(r"\b%s \|->(.*?)(?=,\n  \w+ \|->|\Z)" % name, state, re.S)
    return m.group(1) if m else ""


def script_from_behaviour(beh, sid, rnd, group):
    q, m, mb, dirok = GROUPS[group]
    sc = {"id": sid, "seed": rnd.randrange(1 << 30), "jitter": rnd.random() < 0.6, "q": q, "m": m, "maxBytes": mb,
          "nodir": not dirok, "early": False, "gens": []}
    gen = {"a": [], "c": [], "destroyAt": 10 ** 6, "policy": rnd.choice(["confirm", "handback", "hold"])}
    ev = 0
    prev = None
    early = False
    for act, par, st in beh:
        pre = prev if prev is not None else st
        if act == "AcceptStart":
            gen["a"].append({"at": ev, "do": "accept", "size": int(par)})
        elif act == "DestroyBegin":
            gen["destroyAt"] = ev
        elif act == "TakeBegin":
            gen["c"].append({"at": ev, "do": "take"})
        elif act == "ConfirmAny":
            held = ids_in(field_block(pre, "held"))
            cur = ids_in(field_block(st, "cur"))
            newest = bool(held and cur and cur[0] == max(held) and cur[0] != min(held))
            gen["c"].append({"at": ev, "do": "confirmNew" if newest else "confirm"})
        elif act == "HandBackAny":
            gen["c"].append({"at": ev, "do": "handback"})
            if "outClosed |-> FALSE" in pre:
                early = True
        elif act == "ConsFinish":
            gen["c"].append({"at": ev, "do": "finish"})
        elif act == "NewGeneration":
            sc["gens"].append(gen)
            gen = {"a": [], "c": [], "destroyAt": 10 ** 6, "policy": rnd.choice(["confirm", "handback", "hold"])}
            ev = 0
        ev += EVENTS.get(act, 0)
        prev = st
    sc["gens"].append(gen)
    sc["early"] = early
    for g in sc["gens"]:
        if g["destroyAt"] == 10 ** 6:
            g["destroyAt"] = (max([o["at"] for o in g["a"] + g["c"]] + [0]) + rnd.choice([0, 3, 10, 30]))
    return sc


def random_script(sid, rnd, group):
    q, m, mb, dirok = ALL_GROUPS[group]
    sc = {"id": sid, "seed": rnd.randrange(1 << 30), "jitter": rnd.random() < 0.6, "q": q, "m": m, "maxBytes": mb,
          "nodir": not dirok, "early": rnd.random() < 0.3, "gens": []}
    total = 0
    for g in range(rnd.randint(1, 3)):
        n = rnd.randint(0, min(5, 11 - total))
        total += n
        at = 0
        a, c = [], []
        for i in range(n):
            at += rnd.choice([0, 0, 0, 4, 9])
            a.append({"at": at, "do": "accept", "size": rnd.choice([1, 1, 2, 3])})
            if dirok and rnd.random() < 0.12:
                a[-1]["wfault"] = True      # a write error while this chunk is accepted (it only matters if something is saved then)
        at2 = 0
        for i in range(rnd.randint(0, 8)):
            at2 += rnd.choice([0, 2, 5, 9])
            c.append({"at": at2, "do": rnd.choices(["take", "confirm", "confirmNew", "handback", "stall", "finish"], [8, 4, 1, 2, 2, 0.5])[0]})
        sc["gens"].append({"a": a, "c": c, "destroyAt": rnd.choice([0, at, at + 5, at + 20, at + 60]),
                           "policy": rnd.choice(["confirm", "handback", "hold"])})
    return sc


ALL_GROUPS = dict(GROUPS, **EXTRA_GROUPS)


def stop_stories(group):
    """Destroy with a consumer that does not read its input (it waits for the InputClosed signal, as a forwarder does while its
    upstream refuses): every number of accepted chunks from none to window + queue + 2, the consumer having taken 0..M of them -
    in particular the window exactly full with one chunk in the feeder's hands and nothing queued behind it"""
    q, m, mb, dirok = ALL_GROUPS[group]
    out = []
    for k in range(0, q + m + 3):
        for j in range(0, min(k, m) + 1):
            for late in (40, 4):
                a = [{"at": 0, "do": "accept", "size": 1} for _ in range(k)]
                c = [{"at": 0, "do": "take"} for _ in range(j)]
                if late == 40 and k >= 2 and dirok:      # the same with a write error at the accept of the second-last chunk
                    a2 = [dict(x) for x in a]
                    a2[-2]["wfault"] = True
                    out.append({"id": "%s-stalled-wfault-%d-%d" % (group, k, j), "seed": 11 + k * 31 + j, "jitter": False, "q": q, "m": m, "maxBytes": mb,
                                "nodir": not dirok, "early": False,
                                "gens": [{"a": a2, "c": c, "destroyAt": 10 ** 6, "policy": "stalled"}, {"a": [], "c": [], "destroyAt": 30, "policy": "confirm"}]})
                out.append({"id": "%s-stalled-%d-%d-%d" % (group, k, j, late), "seed": 7 + k * 31 + j, "jitter": False, "q": q, "m": m, "maxBytes": mb,
                            "nodir": not dirok, "early": False,
                            "gens": [{"a": a, "c": c, "destroyAt": 10 ** 6 if late == 40 else 4 * k, "policy": "stalled"},
                                     {"a": [], "c": [], "destroyAt": 30, "policy": "confirm"}]})
    return out


def consts_for(group):
    q, m, mb, dirok = ALL_GROUPS[group]
    return {"Q": q, "M": m, "MaxBytes": mb, "DirUsable": "TRUE" if dirok else "FALSE"}


def run_scripts(chk, scripts, group, tag):
    """returns (n_traces, n_events, rejected, kinds, states, hung)"""
    chk.build_vh()
    d = chk.sub("hb-" + tag)
    nsh = min(vlib.NCPU, max(1, len(scripts) // 6))
    shards = [scripts[i::nsh] for i in range(nsh)]
    byid = {s["id"]: s for s in scripts}
    consts = consts_for(group)

    def drive(i):
        sp = os.path.join(d, "scripts%d.ndjson" % i)
        with open(sp, "w") as f:
            for s in shards[i]:
                f.write(json.dumps(s) + "\n")
        tp = os.path.join(d, "trace%d.ndjson" % i)
        w = os.path.join(d, "work%d" % i)
        os.makedirs(w, exist_ok=True)
        p = chk.vh(["hb", "-scripts", sp, "-out", tp, "-work", w], timeout=1200)
        return tp, json.loads(p.stdout.strip().splitlines()[-1]).get("hung", 0)

    driven = vlib.parallel(drive, range(nsh))
    hung = sum(h for _, h in driven)

    def validate(tp):
        return tp, chk.tlc_trace("HybridBufferTrace", "HybridBufferTrace.cfg", tp, consts=consts)

    results = vlib.parallel(validate, [tp for tp, _ in driven])
    kinds, n_tr, n_ev, rejected, states = set(), 0, 0, [], 0
    for tp, res in results:
        parts = vlib.split_traces(tp)
        n_tr += len(parts)
        states += res.get("states", 0)
        for sid, lines in parts:
            n_ev += len(lines)
            for ln in lines:
                e = json.loads(ln)
                k = e["ev"]
                for f in ("res", "branch", "phase", "spill", "ok"):
                    if f in e:
                        k += "/%s" % e[f]
                kinds.add(k)
        if not res["accepted"]:
            def one(part):
                sid, lines = part
                p = os.path.join(d, "single-%s.ndjson" % sid)
                open(p, "w").write("".join(lines))
                return sid, p, chk.tlc_trace("HybridBufferTrace", "HybridBufferTrace.cfg", p, consts=consts)
            for sid, p, r in vlib.parallel(one, parts):
                if not r["accepted"]:
                    rejected.append((byid.get(sid), p, r))
    return n_tr, n_ev, rejected, kinds, states, hung


def reproduce(chk, script, group, tries=10):
    d = chk.sub("repro")
    consts = consts_for(group)
    for i in range(tries):
        s = dict(script, seed=script["seed"] + i, id="%s-r%d" % (script["id"], i))
        sp = os.path.join(d, "s.ndjson")
        open(sp, "w").write(json.dumps(s) + "\n")
        tp = os.path.join(d, "t-%s.ndjson" % s["id"])
        w = os.path.join(d, "work")
        os.makedirs(w, exist_ok=True)
        chk.vh(["hb", "-scripts", sp, "-out", tp, "-work", w], timeout=120)
        r = chk.tlc_trace("HybridBufferTrace", "HybridBufferTrace.cfg", tp, consts=consts)
        if not r["accepted"]:
            return tp, r
    return None
