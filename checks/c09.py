"""C09 - syslog header parsing is faithful and every message is accounted for.  Spec: specs/Syslog.tla + SyslogTrace.tla.
DESIGN.md section 5.12."""
import json
from lib import vlib
from checks import fncommon


def klass(e):
    s = bytes(e["in"]).decode("latin1")
    if e["res"] == "panic":
        return "panic:first-token-%s" % ("short" if len(s.split(" ")[0]) < 2 else "other")
    if e["res"] == "record" and e.get("dOvf"):
        return "overflow-cut"
    if e["res"] == "record":
        return "record-fields"
    return "drop:" + ("counted-wrong" if e.get("dDrop") != 1 else "wellformed-dropped")


def run(chk):
    r = fncommon.run_fn(chk, "sy", "SyslogTrace", "SyslogTrace.cfg")
    # the same reference at larger limits: kept messages that end in long runs of multi-byte characters
    r2 = fncommon.run_fn(chk, "sy", "SyslogTrace", "SyslogTrace.cfg", extra_args=["-maxmsg", "80", "-maxrec", "200"], consts={"MaxMsg": 80, "MaxRec": 200}, tag="-long", shards=8)
    seen = {}
    for e, txt in r["findings"] + r2["findings"]:
        seen.setdefault(klass(e), e)
    for k, e in seen.items():
        chk.report("syslog:" + k, "syslog parser on line %r: observed %s, which the reference definition Syslog!Check rejects"
                   % (bytes(e["in"]).decode("latin1"), {x: (bytes(e[x]).decode("latin1") if x == "msg" else e[x]) for x in e if x not in ("in", "tokens", "mapping", "ev")}),
                   {"event.json": e})
    chk.cov.update({"states": r["states"], "transitions": r["states"], "traces_validated_against_impl": r["events"],
                    "evaluations": r["events"] + r2["events"], "distinct_nontrivial": r["cases"] + r2["cases"], "long_tail_cases": r2["cases"],
                    "rule": "lines enumerated by the driver with InputLogMaxMessageBytes=12, InputLogMaxRecordBytes=64: every PRI 0..191 and 13 out-of-range/non-canonical ones under 3 level mappings; first-token framings; each header token from 7 value classes one at a time and all at once, empty and missing tokens, absent/empty message; every prefix of a valid line; message bodies = every tail of <=%d symbols over {a, space, newline, 2/3/4-byte characters, invalid byte} behind 6-13 filler bytes and behind headers of 15 lengths (raw length below/at/above the record limit; header alone below/at/above it); the header skeleton: every string of <=%d symbols over {< > 1 3 space - a} followed by a well-formed remainder and by filler" % (5 if chk.tier == "thorough" else 3, 7 if chk.tier == "thorough" else 5),
                    "exhaustive": True,
                    "samples": [json.loads(l) for l in open(r["first_trace"]).read().splitlines()[5:7]]})
    chk.assumptions += ["well-formed = canonical PRI 0..191, version 1, six non-empty tokens and a message part (7 spaces); for other lines only 'counted exactly once, never a panic' is demanded",
                        "the exact message is demanded for structurally valid UTF-8 bodies; limits are the code's own variables lowered to 12/64"]


def replay(chk, path):
    run(chk)
