"""C06 - routing, queueing and tagging follow exactly the record's own key fields.  Spec: specs/Routing.tla (+RoutingMC, RoutingTrace).
DESIGN.md section 5.6."""
import json
from lib import vlib
from checks import fncommon


def b(x):
    return bytes(x).decode("latin1")


def klass(e):
    if e["res"] == "panic":
        return "panic"
    if e.get("ev") == "RTC":
        return "concurrent-connections"
    a = [tuple(b(v) for v in t) for t in e["arrivals1"]]
    if a[0] != a[1] and "".join(a[0]) == "".join(a[1]):
        return "merged:concatenations-coincide"
    if a[0] != a[1] and ",".join(a[0]) == ",".join(a[1]):
        return "merged:separator-in-value"
    if any("," in v or "\\" in v for t in a for v in t):
        return "recovery:separator-in-value"
    return "other"


def run(chk):
    thorough = chk.tier == "thorough"
    r0 = chk.tlc_mc("RoutingMC", "Routing_thorough.cfg" if thorough else "Routing_quick.cfg", timeout=3000)
    r1 = chk.tlc_mc("RoutingMC", "Routing_one.cfg", timeout=600)
    for rr in (r0, r1):
        if not rr["ok"]:
            raise vlib.Inconclusive("spec-level counterexample:\n" + rr.get("counterexample", "")[:3000])
    r = fncommon.run_fn(chk, "rt", "RoutingTrace", "RoutingTrace.cfg")
    seen = {}
    for e, txt in r["findings"]:
        seen.setdefault(klass(e), e)
    for k, e in list(seen.items()):
        if k == "concurrent-connections" or e.get("ev") == "RTC":
            chk.report("routing:" + k, "connections routing at the same time: pipelines (id, tag, tuples received, records) %s for connections sending %s x %d - rejected by Routing!CheckConcurrent"
                       % ([(b(p[0]), b(p[1]), [[b(v) for v in t] for t in p[2]], p[3]) for p in e["pipelines"]], [[[b(v) for v in t] for t in c] for c in e["conns"]], e["rounds"]), {"event.json": e})
            del seen[k]
    for k, e in seen.items():
        chk.report("routing:" + k, "orchestrator scenario arrivals %s: pipelines %s, routed %s, dirs %s; second life recovered %s routedTo %s - rejected by Routing!Check"
                   % ([[b(v) for v in t] for t in e["arrivals1"]], [(b(p[0]), b(p[1])) for p in e["p1"]["pipelines"]], e["p1"]["routed"],
                      [b(d) for d in e["dirs"]], [(b(p[0]), b(p[1])) for p in e["p2"]["recovered"]], [(b(p[0]), b(p[1])) for p in e["p2"]["routedTo"]]),
                   {"event.json": e})
    # end-to-end slice: the tag on the wire (Forward messages, Datadog ddtags) through the real pipeline starter, serializers and
    # chunk makers is the template's expansion of the record's own key values - not the pipeline id, not another key set's tag
    from checks import agcommon as A
    words = ("refuse-then-healthy", "spill-then-restart", "datadog-healthy", "second-output-down-then-restart", "singleton-faults-then-restart", "main-path-stop-healthy")
    escripts = [dict(x, keys=3) if x["id"] == "refuse-then-healthy" else x for x in A.stories() if x["id"] in words]
    ne, ee, reje, consts = A.run_scripts(chk, escripts, ("P01",), "c06e")
    A.handle(chk, reje, ("P01",), "c06e", consts)
    chk.cov["e2e_tag_histories"] = ne
    chk.cov.update({"states": r0.get("distinct", 0) + r["states"], "transitions": r0.get("generated", 0) + r["states"],
                    "traces_validated_against_impl": r["events"], "evaluations": r["events"], "distinct_nontrivial": r["cases"], "exhaustive": True,
                    "mc_runs": [{"cfg": r0["cfg"], "distinct": r0.get("distinct"), "ok": True}],
                    "rule": "every ordered pair of key tuples over the value alphabet {'' a b ab , / a,b a/b NUL%s} for two key fields (three tag templates in rotation), for one key field, and over {'' a , 'a,'} for three key fields; plus 6 runs per shard of four connections routing their own tuples at the same time on four processors (3000 / thorough 40000 batches each); each scenario: arrivals t1 t2 t1 on the real orchestrator with real queue directories, restart through ListBufferIDs on the same queue root, arrivals t2 t1" % (" \\\\ \\\\, 1 : 1:a" if thorough else ""),
                    "samples": [json.loads(l) for l in open(r["first_trace"]).read().splitlines()[1:2]]})
    chk.assumptions += ["the 8 hex digits of MD5 in a queue directory name are treated as collision-free for distinct ids",
                        "metric label attribution by key values (same lookup-key construction) is checked by C19"]


def replay(chk, path):
    run(chk)
