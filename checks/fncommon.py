"""function-level checks: the real function is run over a bounded input space by a Go driver (sharded); every recorded
(input, output) event is validated by TLC against the TLA+ reference definition."""
import json, os
from lib import vlib


def run_fn(chk, driver, module, cfg, extra_args=(), shards=None, max_findings_per_shard=12, timeout=3000, consts=None, tag=""):
    """returns dict(events, states, findings=[(event dict, hwm text)], cases)"""
    chk.build_vh()
    d = chk.sub("fn-" + driver + tag)
    nsh = shards or vlib.NCPU

    def drive(i):
        tp = os.path.join(d, "t%d.ndjson" % i)
        p = chk.vh([driver, "-out", tp, "-shard", str(i), "-of", str(nsh), "-seed", str(chk.seed), "-tier", chk.tier] + list(extra_args),
                   timeout=timeout)
        return tp, json.loads(p.stdout.strip().splitlines()[-1])

    driven = vlib.parallel(drive, range(nsh))

    def validate(item):
        tp, summ = item
        findings, states, offset = [], 0, 0
        lines = open(tp).read().splitlines(True)
        cur = tp
        while True:
            r = chk.tlc_trace(module, cfg, cur, timeout=timeout, consts=consts)
            states += r.get("states", 0)
            if r["accepted"]:
                break
            k = r["hwm"]   # 1-based index (within cur) of the first event that fails
            findings.append((json.loads(lines[offset + k - 1]), r.get("event", "")))
            offset += k
            if len(findings) >= max_findings_per_shard or offset >= len(lines):
                break
            cur = os.path.join(d, "rest-%s-%d.ndjson" % (os.path.basename(tp), offset))
            open(cur, "w").write("".join(lines[offset:]))
        return len(lines), states, findings, summ

    res = vlib.parallel(validate, driven)
    out = {"events": sum(r[0] for r in res), "states": sum(r[1] for r in res), "findings": [f for r in res for f in r[2]],
           "cases": max(r[3].get("cases_enumerated", 0) for r in res), "first_trace": driven[0][0]}
    return out
