"""C01 - at-least-once delivery end to end across upstream faults and restarts.  Specs: Agent.tla (coarse composition, TLC) +
AgentTrace.tla (observer of real end-to-end runs).  DESIGN.md section 5.4."""
import json, random
from lib import vlib
from checks import agcommon as A

FLAGS = ("P01",)


def mc(chk, cfgs):
    st = tr = 0
    chk.cov["mc_runs"] = []
    for cfg in cfgs:
        r = chk.tlc_mc("Agent", cfg, timeout=3000)
        if not r["ok"]:
            raise vlib.Inconclusive("spec-level counterexample in %s:\n%s" % (cfg, r.get("counterexample", "")[:3000]))
        st += r.get("distinct", 0); tr += r.get("generated", 0)
        chk.cov["mc_runs"].append({"cfg": cfg, "distinct": r.get("distinct"), "ok": True, "wall_s": r["wall_s"]})
    chk.cov["states"], chk.cov["transitions"] = st, tr


def run(chk, flags=FLAGS, reload_kinds=(), tag="c01"):
    thorough = chk.tier == "thorough"
    mc(chk, ["Agent_thorough.cfg", "Agent_quick2.cfg"] if thorough else ["Agent_quick2.cfg"])
    rnd = random.Random(chk.seed)
    behs = chk.tlc_simulate("Agent", "Agent_thorough.cfg", 900 if thorough else 24, 120, chk.seed)
    scripts = A.stories() + (A.big_stories() if flags == FLAGS else []) + [A.script_from_behaviour(b, "sim%d" % i, rnd) for i, b in enumerate(behs)]
    scripts += [A.random_script("rnd%d" % i, rnd, reload_kinds) for i in range(3000 if thorough else 26)]
    n, ev, rej, consts = A.run_scripts(chk, scripts, flags, tag)
    A.handle(chk, rej, flags, tag, consts)
    if flags == FLAGS:
        # the first mechanism the property names, at component level: the final flush of connection, sink and per-key buffers
        # (InputPath.tla: Conservation, NothingLeftAfterClose) replayed in lock step on the real receiver and orchestrator sink
        from checks import ipcommon
        ip_n, ip_ev = ipcommon.run(chk, random.Random(chk.seed + 29), thorough, "c01")
        n += ip_n
        # ... and of the pipeline's processing worker (tick flush, final tick and stop flush: Worker.tla NothingHeldBack)
        from checks import wkcommon
        wn, wev = wkcommon.run(chk, random.Random(chk.seed + 31), thorough, "c01")
        n += wn
    chk.cov.update({"traces_validated_against_impl": n, "trace_events": ev, "evaluations": n, "tlc_behaviours_replayed": len(behs),
                    "distinct_nontrivial": len({json.dumps(s["gens"], sort_keys=True) for s in scripts if any(g["upstream"] for g in s["gens"])}),
                    "rule": "histories = fixed stories (refuse then healthy, reset after the first chunk, never-ACK then restart, late ACK after reconnect, disk spill with a 2-chunk memory window then restart, stop in mid retry, connections left open across the stop with a slow input flush, two outputs with one upstream down then a restart without new input, the agent's own main path run.Run in a child process stopped by SIGTERM and reloaded by SIGHUP, the Datadog output against an HTTP intake with every failure kind and with a request in flight at the stop, the singleton orchestrator, shared-key login with servers holding another key, chunks rolling over by record count with the last record opening a new chunk, connections idle for longer than the channel timeout, silent upstream without a scheduled reconnect) + the environment projection of TLC -simulate behaviours of Agent + seeded random histories (1-3 generations on one queue root, 1-3 client connections, 1-3 key sets, per-connection upstream behaviours healthy/close at once/never ACK/reset after 1 or 2 chunks/late ACK/other shared key; 15 % Datadog output, 12 % singleton orchestrator, 30 % chunk record limit 1-5, 30 % without scheduled reconnect, 15 % shared-key login), each ending with a healthy generation that drains; non-trivial = at least one scripted upstream behaviour",
                    "samples": [scripts[1], scripts[-1]]})
    chk.assumptions += ["graceful stops only; clients close and the harness waits until the input counters show every line as read before it stops the agent",
                        "timeouts scaled to milliseconds through defs; a rejection is a violation only if the same history is rejected again on a re-run"]


def replay(chk, path):
    script = json.load(open(path + "/script.json"))
    n, ev, rej, consts = A.run_scripts(chk, [script], FLAGS, "replay")
    A.handle(chk, rej, FLAGS, "replay", consts)
    chk.cov.update({"evaluations": 1, "distinct_nontrivial": 2, "samples": [script], "rule": "replay"})
