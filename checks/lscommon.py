"""the real TCP line listener with several scripted clients and a stop request (drv/ls); model Listener.tla (TLC), observer
ListenerTrace.tla.  Used by C17 (one live sink per client number) and C18 (the stop waits for every connection task)."""
import json, os
from lib import vlib


def scripts(rnd, n_random):
    out = []
    for k in range(6):      # connections arriving while the stop request is being carried out
        cl = [{"atMs": 0, "lines": 1, "gapMs": 0, "end": "stay"} for _ in range(6)]
        cl += [{"atMs": 16 + i // 3, "lines": 1, "gapMs": 0, "end": rnd.choice(["stay", "stay", "close"]), "holdMs": 0} for i in range(24)]
        out.append({"id": "storm%d" % k, "clients": cl, "stopMs": 20 + k % 3})
    out.append({"id": "idle-stop", "clients": [], "stopMs": 5})
    out.append({"id": "all-orderly", "clients": [{"atMs": i, "lines": 3, "gapMs": 1, "end": "close", "holdMs": 2} for i in range(5)], "stopMs": 80})
    for i in range(n_random):
        cl = [{"atMs": rnd.randrange(40), "lines": rnd.randrange(4), "gapMs": rnd.choice([0, 1, 5]), "end": rnd.choice(["close", "reset", "stay"]), "holdMs": rnd.choice([0, 3, 30])}
              for _ in range(rnd.randrange(1, 10))]
        out.append({"id": "rnd%d" % i, "clients": cl, "stopMs": rnd.randrange(5, 70)})
    return out


def run(chk, rnd, thorough):
    """returns number of traces; reports rejections that reproduce"""
    for cfg, expect_ok in (("Listener_quick.cfg", True), ("Listener_oldorder.cfg", False)):
        r = chk.tlc_mc("Listener", cfg, timeout=600)
        if r["ok"] != expect_ok:
            raise vlib.Inconclusive("Listener.tla %s: expected %s" % (cfg, "no error" if expect_ok else "a counterexample for the order before the repair"))
    chk.build_vh()
    d = chk.sub("ls")
    ss = scripts(rnd, 400 if thorough else 40)
    nsh = 8
    shards = [ss[i::nsh] for i in range(nsh)]

    def one(i):
        sp = os.path.join(d, "s%d.ndjson" % i)
        open(sp, "w").write("".join(json.dumps(s) + "\n" for s in shards[i]))
        tp = os.path.join(d, "t%d.ndjson" % i)
        chk.vh(["ls", "-scripts", sp, "-out", tp], timeout=900)
        rej = []
        r = chk.tlc_trace("ListenerTrace", "ListenerTrace.cfg", tp)
        if not r["accepted"]:
            parts = vlib.split_traces(tp)
            for (sid, lines), sc in zip(parts, shards[i]):
                p1 = os.path.join(d, "single-%s.ndjson" % sid)
                open(p1, "w").write("".join(lines))
                r1 = chk.tlc_trace("ListenerTrace", "ListenerTrace.cfg", p1)
                if not r1["accepted"]:
                    rej.append((sc, r1))
        return len(shards[i]), rej
    res = vlib.parallel(one, range(nsh))
    for sc, r1 in [x for r in res for x in r[1]][:3]:
        again = None
        for t in range(5):       # sockets and goroutines: the same script has to be rejected again
            sp = os.path.join(d, "re.ndjson"); open(sp, "w").write(json.dumps(sc) + "\n")
            tp = os.path.join(d, "re-%s-%d.ndjson" % (sc["id"], t))
            chk.vh(["ls", "-scripts", sp, "-out", tp], timeout=120)
            r2 = chk.tlc_trace("ListenerTrace", "ListenerTrace.cfg", tp)
            if not r2["accepted"]:
                again = (tp, r2)
                break
        if again is None:
            chk.inconclusive.append("listener script %s rejected once (%s), accepted on 5 re-runs" % (sc["id"], str(r1.get("event"))[:200]))
        else:
            import re
            evn = re.search(r'ev \|-> "(\w+)"', again[1].get("event") or "")
            chk.report("listener:" + (evn.group(1) if evn else "?"), "real TCP listener trace rejected by ListenerTrace at %s" % str(again[1].get("event"))[:400],
                       {"script.json": sc, "trace.ndjson": open(again[0]).read()})
    return sum(r[0] for r in res)
