"""C14 - e-mail redaction is complete and touches nothing else.  Spec: specs/Redact.tla (reference relation) + RedactTrace.tla.
DESIGN.md section 5.14."""
import json
from lib import vlib
from checks import fncommon


def klass(e):
    i, o = bytes(e["in"]).decode("latin1"), bytes(e["out"]).decode("latin1")
    if e["res"] == "panic":
        return "panic"
    if i == o:
        import re
        m = re.search(r"@([a-z0-9.\-]+)", i)
        dom = m.group(1) if m else ""
        if dom and dom[0].isdigit() and dom.rstrip(".")[-1:].isdigit() and any(c.isalpha() for c in dom):
            return "left:domain-digit-edges-with-letters"
        return "left:address-remains"
    return "changed:not-preserving-or-incomplete"


def run(chk):
    r = fncommon.run_fn(chk, "re", "RedactTrace", "RedactTrace.cfg")
    seen = {}
    for e, txt in r["findings"]:
        seen.setdefault(klass(e), e)
    for k, e in seen.items():
        chk.report("redact:" + k, "redactEmail on %r gave %r (counted=%s), which the reference relation Redact!Check rejects"
                   % (bytes(e["in"]).decode("latin1"), bytes(e["out"]).decode("latin1"), e["counted"]), {"event.json": e})
    chk.cov.update({"states": r["states"], "transitions": r["states"], "traces_validated_against_impl": r["events"],
                    "evaluations": r["events"], "distinct_nontrivial": r["cases"],
                    "rule": "all texts of length <= %d over the 9 symbols {a 1 . - _ @ / space 2-byte-rune} (complete) plus seeded generated texts with 0-4 addresses (11 local parts x 19 domains) at all adjacencies with 29 fillers (multi-byte characters, escape sequences, non-address '@', '/' prefixes)" % (7 if chk.tier == "thorough" else 5),
                    "exhaustive": True,
                    "samples": [json.loads(l) for l in open(r["first_trace"]).read().splitlines()[100:103]]})
    chk.assumptions += ["inputs are lower case so that REDACTED tokens in the output are identifiable",
                        "the relation is one-sided: over-redaction of a candidate around an '@' with letters/digits on both sides is not an alarm as long as the span consists of address characters"]


def replay(chk, path):
    run(chk)
