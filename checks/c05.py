"""C05 - arrival order is preserved per connection and key set.  Specs: Agent.tla (Monitors "order"/"skip", TLC), component
level Forwarder.OldestFirst (C02) and HybridBuffer.Fifo (C03), AgentTrace.tla order monitors on real end-to-end runs.
DESIGN.md section 5.5."""
import json, random
from lib import vlib
from checks import agcommon as A, c01, c02, c03, fwdcommon as F, hbcommon as H

FLAGS = ("P05",)


def order_scripts(rnd, n):
    """histories that stress ordering: several connections and key sets, tick flushes, forced spills, retransmissions, restarts"""
    out = []
    for i in range(n):
        gens = []
        for g in range(rnd.randint(1, 3)):
            gens.append({"upstream": [rnd.choice(["resetAfter1", "resetAfter2", "noAck", "lateAck", "healthy", "closeNow"]) for _ in range(rnd.randint(1, 7))],
                         "clients": [{"n": rnd.choice([20, 45, 90]), "pauseEvery": rnd.choice([2, 3, 7]), "pauseMs": rnd.choice([31, 33, 40]), "delayMs": rnd.choice([0, 15])}
                                     for _ in range(rnd.randint(2, 3))],
                         "stopAfterMs": rnd.choice([0, 30, 100])})
        gens.append({"upstream": [], "clients": [{"n": 2, "pauseEvery": 0, "pauseMs": 0, "delayMs": 0}], "stopAfterMs": 20, "drain": True})
        out.append({"id": "ord%d" % i, "keys": rnd.choice([1, 2, 3]), "memWindow": rnd.choice([2, 2, 4, 0]), "gens": gens})
    return out


def run(chk):
    thorough = chk.tier == "thorough"
    c01.mc(chk, ["Agent_thorough.cfg", "Agent_quick2.cfg"] if thorough else ["Agent_quick.cfg"])
    rnd = random.Random(chk.seed)
    scripts = [s for s in A.stories() if not s.get("datadog")] + order_scripts(rnd, 700 if thorough else 26)
    n, ev, rej, consts = A.run_scripts(chk, scripts, FLAGS, "c05")
    A.handle(chk, rej, FLAGS, "c05", consts)
    # component level: the buffer hands chunks on in arrival order (HybridBuffer Fifo / hand-back rules) and the client never
    # skips an older undelivered chunk (Forwarder OldestFirst) - on real runs of both components
    hb_n = fw_n = 0
    for gi, group in enumerate(H.GROUPS):
        behs = chk.tlc_simulate("HybridBuffer", "HybridBuffer_sim_%s.cfg" % group, 800 if thorough else 60, 160, chk.seed + 100 + gi)
        hs = [H.script_from_behaviour(b, "%s-o-sim%d" % (group, i), rnd, group) for i, b in enumerate(behs)]
        hs += [H.random_script("%s-o-rnd%d" % (group, i), rnd, group) for i in range(400 if thorough else 40)]
        n2, e2, rej2, k2, st2, hung = H.run_scripts(chk, hs, group, "c05" + group)
        c03.handle_rejections(chk, rej2, group, chk.cov)
        hb_n += n2
    fbehs = chk.tlc_simulate("Forwarder", "Forwarder_sim_inorder.cfg", 400 if thorough else 40, 150, chk.seed + 7)
    fs = [F.script_from_behaviour(b, "o-sim%d" % i, rnd, inorder=True) for i, b in enumerate(fbehs)] + [F.random_script("o-rnd%d" % i, rnd, inorder=True) for i in range(300 if thorough else 30)]
    n1, e1, rej1, kinds, stop_ms, st1 = F.run_scripts(chk, fs, 2, "c05f", inorder=True)
    c02.handle_rejections(chk, rej1, 2, True, chk.cov)
    fw_n = n1
    # the input side: receiver buffer and per (connection, key set) buffers hand records on in arrival order, batch by batch
    from checks import ipcommon
    ip_n, ip_ev = ipcommon.run(chk, random.Random(chk.seed + 23), thorough, "c05")
    chk.cov["component_level"] = {"hybridbuffer_traces": hb_n, "forwarder_traces": fw_n, "inputpath_scripts": ip_n}
    n += hb_n + fw_n + ip_n
    chk.cov.update({"traces_validated_against_impl": n, "trace_events": ev, "evaluations": n,
                    "distinct_nontrivial": len({json.dumps(s["gens"], sort_keys=True) for s in scripts}),
                    "rule": "six fault stories + seeded histories with 2-3 client connections, 1-3 key sets, pauses around the 30 ms tick flush, a 2-4 chunk memory window (forced spills), resets / silent / late upstream connections (retransmissions) and 1-3 generations; the observer checks per (generation, connection, key) that first deliveries are in sent order and per upstream connection that no older un-ACKed chunk of a pipeline is skipped",
                    "samples": [scripts[6]]})
    chk.assumptions += ["chunk creation order = order of the chunk ids (checked by C11 for every scripted behaviour of the wall clock, ChunkId.tla)",
                        "a rejection is a violation only if the same history is rejected again on a re-run"]


def replay(chk, path):
    script = json.load(open(path + "/script.json"))
    n, ev, rej, consts = A.run_scripts(chk, [script], FLAGS, "replay")
    A.handle(chk, rej, FLAGS, "replay", consts)
    chk.cov.update({"evaluations": 1, "distinct_nontrivial": 2, "samples": [script], "rule": "replay"})
