"""C07 - no input can crash or wedge the agent.  Spec: specs/Robust.tla (the agent as a client sees it: no crash action, the
listener never stops) + RobustTrace.tla; drivers drv/rb (record level, in-process) and drv/rbs (stream level, agent in a
child process).  DESIGN.md section 5.18."""
import json, os
from lib import vlib
from checks import fncommon


def klass(e):
    if e.get("ev") == "Rec":
        d = e.get("detail", "")
        what = "panic" if e["res"] == "panic" else "undecodable" if e["res"] == "undecodable" else "sentinel-changed"
        for pat in ("not valid UTF-8", "index out of range", "slice bounds", "nil pointer", "negative reference"):
            if pat in d:
                what += ":" + pat.replace(" ", "-")
                break
        return "rec:conf%s:%s" % (e.get("conf"), what)
    if e.get("ev") == "Batch":
        return "rec:counters"
    if e.get("ev") == "Stream":
        why = "dead" if not e.get("alive") else "deaf" if not e.get("acceptsAfter") else "sentinel-lost" if e["sentinelsSent"] != e["sentinelsDelivered"] else "fd-leak" if e.get("fdBound", -1) >= 0 and e["fdAfter"] - e["fdBefore"] > e["fdBound"] else "other"
        return "stream:conf%s:%s:%s" % (e.get("conf"), e.get("script"), why)
    return "other:%s" % e.get("ev")


def run(chk):
    mc = chk.tlc_mc("Robust", "Robust_quick.cfg", timeout=300)
    if not mc["ok"]:
        chk.report("spec:Robust", "Robust.tla violates its own properties:\n" + mc.get("counterexample", ""), {})
    sample = os.path.join(vlib.REPO, "testdata", "config_sample.yml")
    d = chk.sub("rbwork")
    r = fncommon.run_fn(chk, "rb", "RobustTrace", "RobustTrace.cfg", extra_args=["-work", d, "-sample", sample], max_findings_per_shard=10)
    seen = {}
    for e, txt in r["findings"]:
        seen.setdefault(klass(e), e)
    for k, e in seen.items():
        if e.get("ev") == "Rec":
            e = dict(e)
            e["head"] = bytes(e["h"]).decode("latin1")
        chk.report(k, "record-level robustness: event rejected by RobustTrace: %s" % json.dumps(e)[:1500], {"event.json": e})
    # stream level: the scripts are dealt to 8 shards (each has its own agent processes)
    rs = fncommon.run_fn(chk, "rbs", "RobustTrace", "RobustTrace.cfg", extra_args=["-work", d, "-sample", sample], shards=8, max_findings_per_shard=10, tag="-s")
    seen = {}
    for e, txt in rs["findings"]:
        seen.setdefault(klass(e), e)
    if seen:
        # processes, sockets and timers: a rejection counts only if the same script fails again
        rs2 = fncommon.run_fn(chk, "rbs", "RobustTrace", "RobustTrace.cfg", extra_args=["-work", d, "-sample", sample], shards=8, max_findings_per_shard=10, tag="-s2")
        again = {klass(e) for e, _ in rs2["findings"]}
        for k in list(seen):
            if k not in again:
                chk.inconclusive.append("stream script rejected once, not on the second run: %s" % k)
                del seen[k]
    for k, e in seen.items():
        chk.report(k, "stream-level robustness: after script '%s' the agent process is %s: %s" % (e.get("script"), k.split(":")[-1], json.dumps(e)[:1500]), {"event.json": e})
    first = [json.loads(l) for l in open(r["first_trace"]).read().splitlines()]
    chk.cov.update({"states": mc.get("distinct", 0) + r["states"] + rs["states"], "transitions": mc.get("generated", 0) + r["states"] + rs["states"],
                    "traces_validated_against_impl": vlib.NCPU + 8, "evaluations": r["events"] + rs["events"], "distinct_nontrivial": r["cases"] + rs["cases"],
                    "record_level_cases": r["cases"], "stream_level_scripts": rs["cases"],
                    "rule": "record level, on long-lived components built by the loader code from the repository's sample configuration and from the C16 base file: every head of up to %d symbols over {< > 1 9 space - a ~ backslash} x 3 continuations; every header field and the message x ~95 value classes (empty, NIL, quotes, backslash endings, invalid UTF-8 of every kind, NUL, control bytes, 255/256/257 bytes, 64 KiB, timestamp shapes, numbers, config-relevant values), pairs of fields over the class set (quick: 1/7 sample + the first 14x14), fields at the maximum message / record length +-1 in 7 byte kinds, %d seeded random and mutated lines; each between two sentinel records whose decoded output must not change; stream level, agent in a child process with RLIMIT_NOFILE 160: garbage, lines at the record / listener-buffer limits +-1, 3 MB header fields, resets at every third offset, half-open connections, missing newline, CRLF, slow drip, hostile key-field values (dot-dot, NUL, 5000 bytes, invalid UTF-8), concurrent garbage with resets, %d connect/disconnect cycles" % (6 if chk.tier == "thorough" else 4, 1000000 if chk.tier == "thorough" else 3000, 1500 if chk.tier == "thorough" else 400),
                    "samples": [e for e in first if e["ev"] == "Rec"][:2]})
    chk.assumptions += ["'for all byte strings' is covered as the bounded alphabets, value classes, limits and seeded mutations listed under rule; a crash that needs a byte pattern outside them is not found",
                        "records reach the parser as the listener can deliver them: at most the listener buffer (4 x maximum record length)",
                        "sentinels written on a connection that the client then resets are not required to arrive (TCP may discard unread data)"]


def replay(chk, path):
    run(chk)
