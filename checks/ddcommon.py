"""the second output: the real Datadog client (shared baseoutput client over HTTP) against a scripted intake; observer spec
DatadogTrace.tla.  Used by C02 (same client, other connection type)."""
import json, os
from lib import vlib

OUTS = ["200", "200", "202", "299", "300", "404", "500", "500", "hang", "reset"]


def random_script(sid, rnd):
    sc = {"id": sid, "n": 2 + rnd.randrange(6), "final": "200", "stopAtMs": rnd.randrange(900),
          "status": [rnd.choice(OUTS) for _ in range(rnd.randrange(7))],
          "pushGap": [rnd.choice([0, 0, 5, 40, 120]) for _ in range(1 + rnd.randrange(3))], "drain": rnd.randrange(3) == 0}
    if rnd.randrange(5) == 0:
        sc["final"] = "500"
    return sc


def stories():
    return [{"id": "all-ok", "n": 5, "status": [], "pushGap": [0], "stopAtMs": 300, "final": "200", "drain": True},
            {"id": "every-failure-then-ok", "n": 4, "status": ["500", "hang", "reset", "300", "404"], "pushGap": [0, 30], "stopAtMs": 200, "final": "200", "drain": True},
            {"id": "never-ok", "n": 3, "status": [], "pushGap": [0], "stopAtMs": 300, "final": "500", "drain": False},
            {"id": "stop-during-hang", "n": 2, "status": ["hang", "hang", "hang", "hang"], "pushGap": [0], "stopAtMs": 60, "final": "200", "drain": False},
            # an httpTimeout far beyond the stop bound: only Close (the stop request) can end the request the intake never answers
            {"id": "stop-during-hang-long-timeout", "n": 2, "httpTimeoutMs": 6000, "status": ["hang"] * 4, "pushGap": [0], "stopAtMs": 60, "final": "200", "drain": False},
            {"id": "stop-during-hang-after-success-long-timeout", "n": 4, "httpTimeoutMs": 6000, "status": ["200", "202", "hang", "hang"], "pushGap": [5], "stopAtMs": 120, "final": "200", "drain": False},
            {"id": "stop-during-hang-after-failure-long-timeout", "n": 3, "httpTimeoutMs": 6000, "status": ["500", "reset", "hang", "hang"], "pushGap": [0], "stopAtMs": 300, "final": "200", "drain": False},
            {"id": "boundary-statuses", "n": 6, "status": ["299", "300", "200", "301", "202"], "pushGap": [10], "stopAtMs": 100, "final": "200", "drain": True}]


def _run(chk, d, name, scripts):
    sp = os.path.join(d, name + ".json")
    tp = os.path.join(d, name + ".ndjson")
    json.dump(scripts, open(sp, "w"))
    chk.vh(["dd", "-scripts", sp, "-out", tp], timeout=1200)
    return tp


def run_scripts(chk, scripts, tag):
    """returns (n_traces, n_events, rejected [(script, hwm-text)])"""
    chk.build_vh()
    d = chk.sub("dd-" + tag)
    nsh = min(vlib.NCPU, max(1, len(scripts) // 3))
    shards = [scripts[i::nsh] for i in range(nsh)]

    def one(i):
        tp = _run(chk, d, "s%d" % i, shards[i])
        rej, events = [], 0
        traces = vlib.split_traces(tp)
        traces = [t[1] for t in traces]
        events = sum(len(t) for t in traces)
        r = chk.tlc_trace("DatadogTrace", "DatadogTrace.cfg", tp, timeout=600)
        if not r["accepted"]:
            # find the script of the first rejected trace, then validate the remaining traces one by one
            for k, t in enumerate(traces):
                p1 = os.path.join(d, "s%d-t%d.ndjson" % (i, k))
                open(p1, "w").write("".join(t))
                r1 = chk.tlc_trace("DatadogTrace", "DatadogTrace.cfg", p1, timeout=300)
                if not r1["accepted"]:
                    rej.append((shards[i][k], r1.get("event", ""), p1))
        return len(traces), events, rej

    res = vlib.parallel(one, range(nsh))
    return sum(r[0] for r in res), sum(r[1] for r in res), [x for r in res for x in r[2]]


def handle(chk, rejected, tag):
    d = chk.sub("dd-re-" + tag)
    for script, ev, path in rejected[:4]:
        again = None
        for t in range(3):
            tp = _run(chk, d, "re-%s-%d" % (script["id"], t), [script])
            r = chk.tlc_trace("DatadogTrace", "DatadogTrace.cfg", tp, timeout=300)
            if not r["accepted"]:
                again = (tp, r)
                break
        if again is None:
            chk.inconclusive.append("datadog script %s rejected once (%s), accepted on 3 re-runs" % (script["id"], str(ev)[:200]))
            continue
        chk.report("datadog:" + str(again[1].get("event", ""))[:60].split("|->")[-1].strip(),
                   "real Datadog client trace rejected by DatadogTrace at event %s (first run: %s)" % (str(again[1].get("event", ""))[:400], str(ev)[:300]),
                   {"script.json": script, "trace.ndjson": open(again[0]).read()})
