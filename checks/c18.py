"""C18 - shutdown always completes in bounded time and leaves no chunk only in memory.  Spec side: StopTerminates (Forwarder,
no fairness on timers), DestroyTerminates and AllPersisted (HybridBuffer); code side: stop-to-finished time of every component
run and every end-to-end stop for each upstream state x load x phase.  DESIGN.md section 5.10."""
import json, random
from lib import vlib
from checks import agcommon as A, fwdcommon as F, hbcommon as H, c02, c03

FLAGS = ("P18",)
UP_STATES = {"healthy": ["healthy"] * 40, "refusing": ["closeNow"] * 400, "resetting": ["resetAfter1"] * 200, "silent": ["noAck"] * 40, "late": ["lateAck"] * 40}


def stop_scripts(rnd, n_extra):
    out = []
    i = 0
    for name, ups in UP_STATES.items():
        for load in ("idle", "open-chunk", "window-full", "pending"):
            for stop_after in (0, 25, 120):
                clients = {"idle": [{"n": 1, "pauseEvery": 0, "pauseMs": 0, "delayMs": 0}],
                           "open-chunk": [{"n": 10, "pauseEvery": 0, "pauseMs": 0, "delayMs": 0}],
                           "window-full": [{"n": 150, "pauseEvery": 5, "pauseMs": 32, "delayMs": 0}],
                           "pending": [{"n": 60, "pauseEvery": 10, "pauseMs": 32, "delayMs": 0}, {"n": 60, "pauseEvery": 10, "pauseMs": 32, "delayMs": 5}]}[load]
                i += 1
                out.append({"id": "stop-%s-%s-%d" % (name, load, stop_after), "keys": 2, "memWindow": 2 if load == "window-full" else 0,
                            "gens": [{"upstream": ups, "clients": clients, "stopAfterMs": stop_after},
                                     {"upstream": [], "clients": [{"n": 1, "pauseEvery": 0, "pauseMs": 0, "delayMs": 0}], "stopAfterMs": 10, "drain": True}]})
    # the same through the agent's own main path (run.Run in a child process, SIGTERM): a subset of the grid, open connections
    for name in ("healthy", "refusing", "silent"):
        for load in ("open-chunk", "pending"):
            base = [s for s in out if s["id"] == "stop-%s-%s-25" % (name, load)][0]
            s2 = json.loads(json.dumps(base))
            s2["id"] = "main-" + base["id"]
            s2["viaRun"] = True
            s2["stopWithInt"] = name == "refusing"      # SIGINT for one upstream state, SIGTERM for the others
            if load == "open-chunk":
                s2["gens"][0]["clients"][0]["keepOpen"] = True
                s2["gens"][0]["inputFlushMs"] = 400
            out.append(s2)
    # the Datadog output: intake state at the stop x httpTimeout below / beyond the buffer's shutdown bound (5 s of scaled timeouts)
    for name, ups in (("healthy", []), ("refusing", ["closeNow"] * 60), ("silent", ["noAck"] * 30), ("failing", ["resetAfter1"] * 60)):
        for tmo in (400, 9000):
            for stop_after in (0, 25):
                out.append({"id": "dd-stop-%s-%d-%d" % (name, tmo, stop_after), "datadog": True, "ddTimeoutMs": tmo, "keys": 2, "memWindow": 2 if stop_after else 0,
                            "gens": [{"upstream": ups, "clients": [{"n": 40, "pauseEvery": 5, "pauseMs": 32, "delayMs": 0}], "stopAfterMs": stop_after},
                                     {"upstream": [], "clients": [{"n": 1, "pauseEvery": 0, "pauseMs": 0, "delayMs": 0}], "stopAfterMs": 10, "drain": True}]})
    out += A.big_stories()      # the sender blocked in the middle of a write at the stop
    for j in range(n_extra):
        out.append(A.random_script("rnd%d" % j, rnd))
    return out


def run(chk):
    thorough = chk.tier == "thorough"
    cov = chk.cov
    st = tr = 0
    cov["mc_runs"] = []
    for mod, cfg in (("Forwarder", "Forwarder_stop.cfg"), ("HybridBuffer", "HybridBuffer_live.cfg"), ("HybridBuffer", "HybridBuffer_quick.cfg" if thorough else "HybridBuffer_nodir.cfg")):
        r = chk.tlc_mc(mod, cfg, timeout=3000)
        if not r["ok"]:
            raise vlib.Inconclusive("spec-level counterexample in %s:\n%s" % (cfg, r.get("counterexample", "")[:3000]))
        st += r.get("distinct", 0); tr += r.get("generated", 0)
        cov["mc_runs"].append({"cfg": cfg, "distinct": r.get("distinct"), "ok": True})
    cov["states"], cov["transitions"] = st, tr
    rnd = random.Random(chk.seed)
    # the listener: the stop closes every socket, waits for every connection task, and nothing is accepted after it
    from checks import lscommon
    cov["listener_traces"] = lscommon.run(chk, rnd, thorough)
    # the connection under the forwarding client: a write blocked by a peer that does not read, a read the peer never answers -
    # each ends at its deadline or as soon as Close is called (what the stop does), on the real Forward connection
    from checks import fccommon
    cov["connection_contract_traces"] = fccommon.run(chk, random.Random(chk.seed + 11), False)
    # component level: the driver reports HUNG (no Finished within 5 s of scaled timeouts) which no action explains
    behs = chk.tlc_simulate("Forwarder", "Forwarder_sim.cfg", 2000 if thorough else 60, 150, chk.seed)
    fs = [F.script_from_behaviour(b, "sim%d" % i, rnd) for i, b in enumerate(behs)] + [F.random_script("rnd%d" % i, rnd) for i in range(2000 if thorough else 40)] + [dict(s, id=s["id"] + "-%d" % rep) for rep in range(3) for s in F.recovery_stories()]
    n1, e1, rej1, kinds, stop_ms, st1 = F.run_scripts(chk, fs, 2, "c18")
    c02.handle_rejections(chk, rej1, 2, False, cov)
    hs = [H.random_script("B-rnd%d" % i, rnd, "B") for i in range(1600 if thorough else 40)] + H.stop_stories("B")
    n2, e2, rej2, k2, st2, hung = H.run_scripts(chk, hs, "B", "c18")
    c03.handle_rejections(chk, rej2, "B", cov)
    # the pipeline's processing worker: closed input -> final tick -> stop flush -> stopped, whatever its age and whatever is open
    # (Worker.tla StopTerminates / NothingHeldBack, trace validation of the real worker)
    from checks import wkcommon
    wn, wev = wkcommon.run(chk, random.Random(chk.seed + 37), thorough, "c18")
    cov["worker_traces"] = wn
    # end to end: every upstream state x load x moment of the stop
    scripts = stop_scripts(rnd, 1000 if thorough else 0)
    if not thorough:
        scripts = [s for k, s in enumerate(scripts) if k % 2 == chk.seed % 2 or "refusing" in s["id"] or "silent" in s["id"] or "blocked" in s["id"]]
    n3, e3, rej3, consts = A.run_scripts(chk, scripts, FLAGS, "c18", stop_bound_ms=4000)
    A.handle(chk, rej3, FLAGS, "c18", consts)
    cov.update({"traces_validated_against_impl": n1 + n2 + n3, "trace_events": e1 + e2 + e3, "evaluations": n1 + n2 + n3,
                "distinct_nontrivial": len({json.dumps(s, sort_keys=True) for s in fs + hs + scripts}),
                "max_forwarder_stop_to_finished_ms": max(stop_ms + [0]), "forwarder_or_buffer_hung_runs": hung,
                "rule": "forwarding client: stop at every trace position of TLC-derived and random fault scripts (a run that does not finish is a HUNG event no action explains); hybrid buffer: Destroy at scripted positions, and with a consumer that is not reading (it waits for the InputClosed signal) for every fill level from empty to window + queue + 2; end to end: upstream state at the stop {healthy, refusing, resetting, accepting but never answering, late ACK} x load {idle, open chunk, full 2-chunk memory window, pending ACKs} x stop 0/25/120 ms after the last client closed; bound 4 s with timeouts of 20-400 ms; after every stop every record read is acknowledged or in a chunk file",
                "samples": [scripts[0]]})
    chk.assumptions += ["'bounded time' is decided as: no spec step after the stop waits for a timer (StopTerminates without timer fairness) and, on the code, a generous wall-clock bound on scaled timeouts; 'blocked mid-write' is provoked at the connection level (drv/fc: a peer that stops reading, 32 MB chunk) and end to end (upstream that never reads, 12 MB of records, wide ACK window: the counters show no completed send at the stop)",
                        "a rejection is a violation only if reproduced on a re-run"]


def replay(chk, path):
    run(chk)
