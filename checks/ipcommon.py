"""InputPath (component level of C01 / C05): the input side between a connection and the pipeline channels - the parsing
receiver's buffer, the orchestrator sink's buffers per (connection, key set), the flush rules.  TLC explores InputPath.tla;
its -simulate behaviours and seeded random call sequences are replayed in lock step on the real code (drv/ip); after every
call the batches on the pipeline channels have to equal the model's (InputPathTrace.tla)."""
import json, os, re
from lib import vlib

KEYS = ["a", "b", "c"]
MAXLOGS, MAXBYTES = 3, 8


def script_from_behaviour(beh, sid):
    ops = []
    for act, par, st in beh:
        p = [x.strip().strip('"') for x in par.split(",")] if par else []
        if act == "Accept":
            ops.append({"do": "accept", "c": int(p[0]), "k": p[1], "sz": int(p[2])})
        elif act == "AcceptRefused":
            ops.append({"do": "refused", "c": int(p[0])})
        elif act == "Flush":
            ops.append({"do": "flush", "c": int(p[0])})
        elif act == "Close":
            ops.append({"do": "close", "c": int(p[0])})
        elif act == "Advance":
            ops.append({"do": "advance"})
    return {"id": sid, "keys": KEYS, "maxLogs": MAXLOGS, "maxBytes": MAXBYTES, "ops": ops}


def random_script(sid, rnd):
    ops, open_ = [], {1, 2, 3}
    adv = 0
    for i in range(rnd.randint(4, 40)):
        if not open_:
            break
        c = rnd.choice(sorted(open_))
        x = rnd.random()
        if x < 0.62:
            ops.append({"do": "accept", "c": c, "k": rnd.choice(KEYS[:rnd.choice([1, 2, 3])]), "sz": rnd.choice([1, 1, 2, 5])})
        elif x < 0.68:
            ops.append({"do": "refused", "c": c})
        elif x < 0.86:
            ops.append({"do": "flush", "c": c})
        elif x < 0.92 and adv < 3:
            adv += 1
            ops.append({"do": "advance"})
        elif x >= 0.92:
            ops.append({"do": "close", "c": c})
            open_.discard(c)
    return {"id": sid, "keys": KEYS, "maxLogs": MAXLOGS, "maxBytes": MAXBYTES, "ops": ops}


def stories():
    """the calls around the thresholds and the flush interval, written out"""
    A = lambda c, k, sz=1: {"do": "accept", "c": c, "k": k, "sz": sz}
    F = lambda c: {"do": "flush", "c": c}
    C = lambda c: {"do": "close", "c": c}
    ADV = {"do": "advance"}
    out = [
        ("count-threshold-both-levels", [A(1, "a"), A(1, "a"), A(1, "a"), A(1, "a"), A(1, "b"), A(1, "a"), C(1)]),
        ("byte-threshold", [A(1, "a", 5), A(1, "a", 2), A(1, "a", 1), A(1, "b", 5), A(1, "b", 5), F(1), C(1)]),
        ("tick-keeps-young-buffers", [A(1, "a"), F(1), A(1, "b"), F(1), ADV, A(1, "a"), F(1), F(1), ADV, F(1), C(1)]),
        ("fresh-after-threshold-flush", [A(1, "a"), F(1), ADV, A(1, "a"), A(1, "a"), A(1, "b"), F(1), A(1, "a"), F(1), ADV, F(1), C(1)]),
        ("close-without-anything", [C(1), A(2, "a"), C(2)]),
        ("two-connections-one-key", [A(1, "a"), A(2, "a"), A(1, "a"), F(2), A(2, "a"), ADV, F(1), A(2, "a"), C(2), F(1), C(1)]),
        ("refused-lines-between", [A(1, "a"), {"do": "refused", "c": 1}, A(1, "a"), {"do": "refused", "c": 1}, A(1, "a"), F(1), C(1)]),
        ("buffer-made-long-ago-first-record-young", [A(1, "a"), F(1), ADV, F(1), ADV, A(1, "a"), F(1), C(1)]),
    ]
    return [{"id": "story-" + n, "keys": KEYS, "maxLogs": MAXLOGS, "maxBytes": MAXBYTES, "ops": ops} for n, ops in out]


def run(chk, rnd, thorough, tag="ip"):
    """returns (traces validated, events)"""
    mc = chk.tlc_mc("InputPath", "InputPath_thorough.cfg" if thorough else "InputPath_quick.cfg", timeout=3000)
    if not mc["ok"]:
        raise vlib.Inconclusive("spec-level counterexample in InputPath:\n" + mc.get("counterexample", "")[:3000])
    chk.cov.setdefault("mc_runs", []).append({"cfg": mc["cfg"], "distinct": mc.get("distinct"), "ok": True})
    behs = chk.tlc_simulate("InputPath", "InputPath_sim.cfg", 3000 if thorough else 150, 45, chk.seed)
    scripts = stories() + [script_from_behaviour(b, "sim%d" % i) for i, b in enumerate(behs)]
    scripts += [random_script("rnd%d" % i, rnd) for i in range(6000 if thorough else 250)]
    chk.build_vh()
    d = chk.sub("ip-" + tag)
    nsh = vlib.NCPU
    shards = [scripts[i::nsh] for i in range(nsh)]
    byid = {s["id"]: s for s in scripts}

    def drive(i, scs=None, name=None):
        sp = os.path.join(d, "s%s.ndjson" % (name or i))
        open(sp, "w").write("".join(json.dumps(s) + "\n" for s in (scs or shards[i])))
        tp = os.path.join(d, "t%s.ndjson" % (name or i))
        chk.vh(["ip", "-scripts", sp, "-out", tp], timeout=1800)
        return tp

    def judged(tp):
        """drop the runs whose wall clock does not fit the model's notion of time"""
        parts = vlib.split_traces(tp)
        keep, skipped = [], 0
        for sid, lines in parts:
            if any('"ev":"Timing"' in ln and '"valid":false' in ln for ln in lines):
                skipped += 1
                continue
            keep.append((sid, lines))
        p2 = tp + ".judged"
        open(p2, "w").write("".join("".join(lines) for _, lines in keep))
        return p2, keep, skipped

    n = ev = skipped_total = 0
    for tp in vlib.parallel(drive, range(nsh)):
        p2, keep, skipped = judged(tp)
        skipped_total += skipped
        n += len(keep)
        ev += sum(len(lines) for _, lines in keep)
        if not keep:
            continue
        res = chk.tlc_trace("InputPathTrace", "InputPathTrace.cfg", p2)
        if res["accepted"]:
            continue
        for sid, lines in keep:
            p = os.path.join(d, "single-%s.ndjson" % sid)
            open(p, "w").write("".join(lines))
            r1 = chk.tlc_trace("InputPathTrace", "InputPathTrace.cfg", p)
            if r1["accepted"]:
                continue
            # one goroutine, deterministic but for the clock: run it again
            tp2 = drive(0, [byid[sid]], "re-" + sid)
            p3, keep2, sk2 = judged(tp2)
            r2 = chk.tlc_trace("InputPathTrace", "InputPathTrace.cfg", p3) if keep2 else {"accepted": True}
            if r2["accepted"]:
                chk.inconclusive.append("input path script %s rejected once, accepted on the re-run" % sid)
                continue
            evn = re.search(r'ev \|-> "(\w+)"', r2.get("event") or "")
            chk.report("inputpath:" + (r2.get("inv") or (evn.group(1) if evn else "?")),
                       "input path (parsing receiver + orchestrator sink buffers): after the call %s the batches on the pipeline channels differ from InputPath.tla, or invariant %s fails; script %s"
                       % (r2.get("event"), r2.get("inv"), json.dumps(byid[sid])[:1500]), {"script.json": byid[sid], "trace.ndjson": open(p3).read()})
            break
    chk.cov["inputpath_not_judged_for_timing"] = skipped_total
    chk.cov["inputpath_scripts"] = n
    chk.cov["inputpath_tlc_behaviours"] = len(behs)
    return n, ev
