"""C08 - record framing is independent of TCP segmentation and flush timing.  Spec: specs/Framing.tla (impl-shaped reader +
reference framer), FramingTrace.tla (step-by-step), FramingListenerTrace.tla (listener over real TCP).  DESIGN.md section 5.7."""
import json, os, random
from lib import vlib
from checks import fncommon


def listener_scripts(rnd, n):
    out = []
    lines = ["h1", "h2", "h33", "x1", "x22", " at", "h", "x", "", "g g"]
    for i in range(n):
        segs = [{"data": "h0\n", "pauseMs": 70}]          # warm-up: the read deadline has been renewed once
        stream = "".join(rnd.choice(lines) + "\n" for _ in range(rnd.randint(3, 9)))
        if rnd.random() < 0.5:                               # many tiny segments in a burst
            k = 0
            while k < len(stream):
                m = rnd.randint(1, 3)
                segs.append({"data": stream[k:k + m], "pauseMs": 0})
                k += m
        else:
            k = 0
            while k < len(stream):
                m = rnd.randint(1, 8)
                segs.append({"data": stream[k:k + m], "pauseMs": rnd.choice([0, 0, 0, 1, 2, 60])})
                k += m
        out.append({"id": "l%d" % i, "segs": segs})
    return out


def run(chk):
    cov = chk.cov
    thorough = chk.tier == "thorough"
    r = chk.tlc_mc("Framing", "Framing_thorough.cfg" if thorough else "Framing_quick.cfg", timeout=3000)
    if not r["ok"]:
        raise vlib.Inconclusive("spec-level counterexample:\n" + r.get("counterexample", "")[:3000])
    cov["states"], cov["transitions"] = r.get("distinct", 0), r.get("generated", 0)
    cov["mc_runs"] = [{"cfg": r["cfg"], "distinct": r.get("distinct"), "ok": r["ok"], "wall_s": r["wall_s"]}]
    # (a) reader level, lock-step, complete bounded space
    a = fncommon.run_fn(chk, "fr", "FramingTrace", "FramingTrace.cfg", ["-maxlen", "7" if thorough else "5"])
    # (a') the same with a buffer small enough to overflow (offsets and emitted records only)
    b = fncommon.run_fn(chk, "fr", "FramingTrace", "FramingTraceSmall.cfg", ["-maxlen", "7" if thorough else "6", "-minbuf", "12", "-soft", "4", "-noend"] )
    for tag, res in (("reader", a), ("reader-small-buffer", b)):
        for e, txt in res["findings"][:3]:
            chk.report("framing:%s:%s" % (tag, e.get("op")), "real multiLineReader step differs from Framing (%s): %s" % (tag, json.dumps(e)[:600]), {"event.json": e})
    # (b) the record-start test the listener gives the reader (syslogprotocol.TestRecordStart) against Syslog!RecordStart,
    # and that it recognises the first line of every well-formed record
    rs = fncommon.run_fn(chk, "sy", "SyslogTrace", "SyslogTrace.cfg", tag="-rs", max_findings_per_shard=2)
    for e, txt in rs["findings"][:1]:
        line = bytes(e["in"]).decode("latin1")
        chk.report("framing:record-start", "record-start test on line %r answers %s; Syslog!RecordStart / the parser's own verdict (%s) disagree" % (line[:120], e.get("start"), e.get("res")), {"event.json": e})
    cov["record_start_cases"] = rs["cases"]
    # (c) listener level over real TCP
    rnd = random.Random(chk.seed)
    scripts = listener_scripts(rnd, 400 if thorough else 64)
    chk.build_vh()
    d = chk.sub("frl")
    nsh = 16
    shards = [scripts[i::nsh] for i in range(nsh)]

    def drive(i):
        sp = os.path.join(d, "s%d.ndjson" % i)
        open(sp, "w").write("".join(json.dumps(s) + "\n" for s in shards[i]))
        tp = os.path.join(d, "t%d.ndjson" % i)
        chk.vh(["frl", "-scripts", sp, "-out", tp], timeout=900)
        return tp
    traces = vlib.parallel(drive, range(nsh))
    n_l = 0
    byid = {s["id"]: s for s in scripts}
    for tp in traces:
        res = chk.tlc_trace("FramingListenerTrace", "FramingListenerTrace.cfg", tp)
        parts = vlib.split_traces(tp)
        n_l += len(parts)
        if not res["accepted"]:
            for sid, lines in parts:
                p = os.path.join(d, "single-%s.ndjson" % sid)
                open(p, "w").write("".join(lines))
                r1 = chk.tlc_trace("FramingListenerTrace", "FramingListenerTrace.cfg", p)
                if r1["accepted"]:
                    continue
                # timing is involved: confirm on a second run of the same script
                sp = os.path.join(d, "re.ndjson"); open(sp, "w").write(json.dumps(byid[sid]) + "\n")
                tp2 = os.path.join(d, "re-%s.ndjson" % sid)
                chk.vh(["frl", "-scripts", sp, "-out", tp2], timeout=120)
                r2 = chk.tlc_trace("FramingListenerTrace", "FramingListenerTrace.cfg", tp2)
                if r2["accepted"]:
                    chk.inconclusive.append("listener trace %s rejected once, accepted on re-run" % sid)
                else:
                    chk.report("framing:listener:" + (r2.get("event") or "")[:40].split(",")[0], "TCP listener trace rejected by FramingListenerTrace at %s" % r2.get("event"),
                               {"script.json": byid[sid], "trace.ndjson": open(tp2).read()})
                break
    cov.update({"traces_validated_against_impl": a["events"] + b["events"] + n_l, "evaluations": a["cases"] + b["cases"] + n_l,
                "distinct_nontrivial": a["cases"] + b["cases"] + n_l, "exhaustive": True,
                "reader_schedules": a["cases"], "reader_small_buffer_schedules": b["cases"], "listener_connections": n_l,
                "rule": "reader level: every newline-terminated stream over {start byte, other byte, newline} up to length %s with every labelling of every byte boundary as none / read cut / read cut + Flush (complete), lock-step against the spec; the same with a 12-byte buffer (overflow path); listener level: seeded symbolic multi-line streams over real TCP with bursts of 1-3 byte segments and pauses around the flush interval" % ("7" if thorough else "5 (6 with the small buffer)"),
                "samples": [json.loads(l) for l in open(a["first_trace"]).read().splitlines()[:4]] + [scripts[0]]})
    chk.assumptions += ["the real reader is given the same record-start test as the model (first byte 'h'); the RFC 5424 start test itself belongs to C09/C07",
                        "listener level: flush timing enters only as an upper bound on the NUMBER of flushes per elapsed time (3 + elapsed/interval), which a stalled machine can only make more permissive"]


def replay(chk, path):
    run(chk)
