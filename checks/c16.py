"""C16 - accepted configurations always instantiate; rejected ones fail cleanly.  Spec: specs/Config.tla (life of one
configuration file, no crash action) + ConfigTrace.tla; driver drv/cfg (child processes).  DESIGN.md section 5.17."""
import json, os
from lib import vlib


def split_configs(path):
    """events grouped by configuration (Begin ... End)"""
    groups, cur = [], []
    for line in open(path):
        if '"ev":"Begin"' in line and cur:
            groups.append(cur)
            cur = []
        cur.append(line)
    if cur:
        groups.append(cur)
    return groups


def validate(chk, d, name, groups):
    """TLC over the concatenation; after a rejection continue with the next configuration.  returns (states, [bad group])"""
    bad, states = [], 0
    rest = groups
    n = 0
    while rest:
        tp = os.path.join(d, "%s-v%d.ndjson" % (name, n))
        n += 1
        open(tp, "w").write("".join("".join(g) for g in rest))
        r = chk.tlc_trace("ConfigTrace", "ConfigTrace.cfg", tp, timeout=1800)
        states += r.get("states", 0)
        if r["accepted"]:
            break
        k, seen = r["hwm"], 0
        for i, g in enumerate(rest):
            seen += len(g)
            if k <= seen:
                bad.append(g)
                rest = rest[i + 1:]
                break
        else:
            break
    return states, bad


def describe(g):
    evs = [json.loads(x) for x in g]
    b = evs[0]
    what = "site %s (class %s) <- kind %s, verdict '%s': " % (b.get("site"), b.get("class"), b.get("kind"), b.get("must"))
    stage = "?"
    for e in evs[1:]:
        if e["ev"] == "Crashed":
            stage = "crash@" + e["stage"] + ":" + e["how"]
            what += "process %s at stage %s: %s" % (e["how"], e["stage"], e.get("detail", "")[:600])
        elif e["ev"] == "Loaded" and e["res"] == "accepted" and b.get("must") == "reject":
            stage = "accepted"
            what += "accepted by run.ParseConfigFile although it references something that does not exist; "
        elif e["ev"] == "Loaded" and e["res"] == "rejected" and b.get("must") == "accept":
            stage = "valid-rejected"
            what += "a valid file was rejected: %s" % e.get("err", "")[:300]
        elif e["ev"] == "Processed" and (e["sent"] != e["accounted"] or e["procPassed"] + e["procDropped"] != e["inPassed"]):
            stage = "records-unaccounted"
            what += "records not accounted for after instantiation: %s" % json.dumps(e)
        elif e["ev"] == "Reloaded" and (e["sent"] != e["accounted"] or e["success"] + e["failure"] != 1):
            stage = "reload-unaccounted"
            what += "reload onto this file: %s" % json.dumps(e)
    return b, stage, what


def run(chk):
    mc = chk.tlc_mc("Config", "Config_quick.cfg", timeout=300)
    if not mc["ok"]:
        chk.report("spec:Config", "Config.tla violates its own properties:\n" + mc.get("counterexample", ""), {})
    chk.build_vh()
    d = chk.sub("cfg")
    nsh = vlib.NCPU

    def drive(i):
        tp = os.path.join(d, "t%d.ndjson" % i)
        p = chk.vh(["cfg", "-out", tp, "-work", d, "-shard", str(i), "-of", str(nsh), "-seed", str(chk.seed), "-tier", chk.tier], timeout=3000)
        return tp

    traces = vlib.parallel(drive, range(nsh))
    groups = [g for tp in traces for g in split_configs(tp)]
    states, bad = validate(chk, d, "all", groups)
    # a rejection is a verdict only if the same file fails again on its own (timing: the record accounting waits on counters)
    confirmed = []
    for g in bad:
        b = json.loads(g[0])
        tp = os.path.join(d, "re-%d.ndjson" % b["id"])
        chk.vh(["cfg", "-out", tp, "-work", d, "-only", str(b["id"]), "-seed", str(chk.seed), "-tier", chk.tier], timeout=600)
        s2, bad2 = validate(chk, d, "re%d" % b["id"], split_configs(tp))
        states += s2
        if bad2:
            confirmed.append((bad2[0], tp))
        else:
            chk.inconclusive.append("configuration %s/%s rejected once, accepted on re-run" % (b.get("site"), b.get("kind")))
    for g, tp in confirmed:
        b, stage, what = describe(g)
        yaml = chk.vh(["cfg-dump", "-id", str(b["id"]), "-seed", str(chk.seed), "-tier", chk.tier], timeout=60).stdout
        chk.report("config:%s:%s:%s" % (b.get("site"), b.get("kind"), stage), what, {"events.ndjson": "".join(g), "conf.yml": yaml})
    begins = [json.loads(g[0]) for g in groups]
    loaded = {}
    for g in groups:
        for x in g[1:]:
            e = json.loads(x)
            if e["ev"] == "Loaded":
                loaded[e["id"]] = e["res"]
    acc = sum(1 for v in loaded.values() if v == "accepted")
    rnd = [b for b in begins if b["class"] == "RANDOM"]
    rnd_acc = sum(1 for b in rnd if loaded.get(b["id"]) == "accepted")
    sites = {b["site"] for b in begins if b["class"] not in ("PAIR", "RANDOM", "ED", "BASE")}
    if rnd and rnd_acc == 0:
        raise vlib.Inconclusive("no generated valid configuration was accepted - the generator is broken")
    chk.cov.update({"states": mc.get("distinct", 0) + states, "transitions": mc.get("generated", 0) + states,
                    "traces_validated_against_impl": len(groups), "evaluations": len(groups), "distinct_nontrivial": len(groups),
                    "configurations": len(groups), "accepted": acc, "rejected": len(loaded) - acc,
                    "reference_sites": len(sites), "structural_edits": sum(1 for b in begins if b["class"] == "ED"),
                    "pairs": sum(1 for b in begins if b["class"] == "PAIR"), "generated_valid": len(rnd), "generated_valid_accepted": rnd_acc,
                    "must_reject_files": sum(1 for b in begins if b["must"] == "reject"),
                    "rule": "one base file with every transform type nested in if/switch/block, two outputs and rewriters; every reference site x every kind of value of its class (catalogue in drv/cfg kindsOf / Config.tla), structural edits of whole sections, seeded pairs of sites, seeded generated valid transform programs; each accepted file is instantiated, fed 15 records reaching every branch over TCP, shut down, and used as the target of a reload of an agent running the base file - in a child process",
                    "samples": [json.loads(x) for x in groups[1][:3]]})
    chk.assumptions += ["a fatal log line and exit at launch for a site that names an environmental resource (listen address, queue path) is a reported error, not a crash",
                        "the verdict 'must reject' is claimed only for kinds that name a schema field, template variable, named capture or step type that does not exist; for the other kinds either answer is allowed but never a crash, and an accepted file must instantiate and process records",
                        "upstreams refuse connections; timeouts are scaled down as in the end-to-end driver"]


def replay(chk, path):
    run(chk)
