"""C15 - transforms and matchers behave as documented for all values.  Spec: specs/Transforms.tla (reference interpreter) +
TransformsTrace.tla.  DESIGN.md section 5.16."""
import json
from lib import vlib
from checks import fncommon


def klass(e):
    if e.get("op") in ("loaderror", "buildpanic", "rejected", "new"):
        return "load:%s" % e.get("op")
    if e.get("res") == "panic":
        p = e.get("panic", "")
        return "panic:" + ("slice-bounds" if "slice bounds" in p else "index" if "index out of range" in p else "other")
    return "result-differs"


def apalache(chk):
    """unbounded inductive argument for the sampling bound (integers only): base case and inductive step"""
    import subprocess, shutil, tempfile, os
    d = tempfile.mkdtemp(prefix="apa-", dir=chk.scratch)
    shutil.copy(os.path.join(vlib.SPECS, "Sampling.tla"), d)
    res = []
    for args in (["--init=Init", "--length=0"], ["--init=IndInit", "--length=1"]):
        try:
            p = subprocess.run(["apalache-mc", "check", "--cinit=ConstInit", "--inv=IndInv"] + args + ["Sampling.tla"], cwd=d, capture_output=True, text=True, timeout=300)
        except subprocess.TimeoutExpired:
            raise vlib.Inconclusive("apalache timeout")
        ok = "EXITCODE: OK" in p.stdout
        res.append(ok)
        if not ok:
            raise vlib.Inconclusive("apalache did not discharge the sampling invariant (%s):\n%s" % (args, p.stdout[-1500:]))
    return res


def run(chk):
    chk.cov["apalache_sampling_inductive_invariant"] = apalache(chk)
    r = fncommon.run_fn(chk, "tf", "TransformsTrace", "TransformsTrace.cfg", max_findings_per_shard=8)
    seen = {}
    for e, txt in r["findings"]:
        seen.setdefault(klass(e), e)
    for k, e in seen.items():
        show = {x: e[x] for x in e if x in ("res", "panic", "error", "unescaped", "outUnescaped", "yaml")}
        if "fields" in e:
            show["in"] = [bytes(v).decode("latin1") for v in e["fields"]]
            show["out"] = [bytes(v).decode("latin1") for v in e["out"]]
        chk.report("transforms:" + k, "transform program step rejected by the reference interpreter Transforms!Run: %s" % json.dumps(show)[:1500], {"event.json": e})
    chk.cov.update({"states": r["states"], "transitions": r["states"], "traces_validated_against_impl": r["events"], "evaluations": r["events"],
                    "distinct_nontrivial": r["cases"],
                    "rule": "programs built from YAML by the real loader code: every pair of slice bounds in {none,-4..4} x value lengths 0-5; extractHead/Tail for 3 left x 4 wildcard x 3 right boundaries x search ranges 1,2,3,6 on every text up to length %d over 5 symbols; truncate maxLen 1-8 x 2/3/4-byte and invalid characters at every cut position, also on configuration-owned and shared values; sampled drop at %s rates x %d records; every match operator x boundary values; unescape on every escape string; if/switch/block; replace / extract / !!regex / !!glob from a fixed pattern menu on 30 ASCII values; %d seeded programs nested to depth 3 x %d boundary-biased records each" % (5 if chk.tier == "thorough" else 4, "all 100" if chk.tier == "thorough" else "13", 400 if chk.tier == "thorough" else 300, 40000 if chk.tier == "thorough" else 300, 100 if chk.tier == "thorough" else 30),
                    "samples": [json.loads(l) for l in open(r["first_trace"]).read().splitlines()[1:3]]})
    chk.assumptions += ["Go regexp and gobwas/glob are not re-specified: replace, extract, !!regex and !!glob are exercised with a fixed menu of eight patterns whose meaning Transforms.tla writes out, on ASCII values",
                        "configuration-side strings are printable ASCII (plus UTF-8 text); record values are arbitrary bytes; addFields with several interdependent pairs (Go map order) is not generated"]


def replay(chk, path):
    run(chk)
