"""Shared machinery of the slog-agent verification checks (stdlib only).

A check = TLC on a TLA+ spec (exhaustive MC and/or simulation) + a Go driver that executes the real code of /repo
(built with -tags verif from the current working tree) + TLC again as trace validator.  See DESIGN.md sections 2, 3.
"""
import json, os, re, shutil, subprocess, sys, tempfile, time, hashlib, concurrent.futures

VERIF = os.path.dirname(os.path.dirname(os.path.abspath(__file__)))
REPO = os.environ.get("VERIF_REPO", "/repo")
SPECS = os.path.join(VERIF, "specs")
HARNESS = os.environ.get("VERIF_HARNESS", os.path.join(VERIF, "harness"))
OUT = os.environ.get("VERIF_OUT", VERIF)   # where evidence/ and replays/ are written
JAR = "/opt/veriftools/tla/tla2tools.jar:/opt/veriftools/tla/CommunityModules-deps.jar"
NCPU = os.cpu_count() or 4

GOENV = dict(os.environ, GOFLAGS="-mod=mod", GOPROXY="off", GOSUMDB="off", GOTOOLCHAIN="local")


class Inconclusive(Exception):
    pass


def real_code_crash(stderr):
    """the function of relex/slog-agent in which a Go process died (panic / fatal error), or None if it died elsewhere"""
    i = max(stderr.rfind("\npanic:"), stderr.rfind("\nfatal error:"))
    if i < 0 and not stderr.startswith(("panic:", "fatal error:")):
        return None
    tail = stderr[max(i, 0):]
    j = tail.find("goroutine ")
    if j < 0:
        return None
    skip = ("panic(", "runtime.", "runtime/", "github.com/sirupsen/logrus", "github.com/relex/gotils", "sync.", "sync/", "reflect.", "created by", "internal/", "testing.")
    for line in tail[j:].splitlines()[1:]:
        if not line or line.startswith(("\t", " ")):
            continue
        if line.startswith("goroutine "):
            break
        if line.startswith(skip):
            continue
        if line.startswith("github.com/relex/slog-agent/"):
            fn = line.rsplit("(", 1)[0] if line.endswith(")") else line
            return fn.replace("github.com/relex/slog-agent/", "").replace("(*", "").replace(")", "")[:120]
        if line.startswith("verifharness/") or line.startswith("main."):
            return None      # the harness called into whatever died: not attributable
        # a frame of the standard library or of a third-party module (prometheus client, yaml, ...): look further up
    return None


def log(*a):
    print(*a, file=sys.stderr, flush=True)


class Check:
    def __init__(self, pid, tier, seed):
        self.pid, self.tier, self.seed = pid, tier, int(seed)
        self.t0 = time.time()
        self.scratch = tempfile.mkdtemp(prefix="verif-%s-" % pid, dir=os.environ.get("VERIF_SCRATCH", "/var/tmp"))
        self.cov = {}
        self.assumptions = []
        self.level = "model_checking"
        self.violations = []      # list of (what, replay_dir)
        self.known_hits = []      # list of strings
        self.inconclusive = []    # list of strings
        self.known = load_known().get(pid, [])
        self._vh = None

    # ------------------------------------------------------------------ paths
    def sub(self, name):
        d = os.path.join(self.scratch, name)
        os.makedirs(d, exist_ok=True)
        return d

    def specdir(self, name="specs"):
        """fresh scratch copy of /verif/specs (TLC litters its working directory)"""
        d = os.path.join(self.scratch, name)
        if not os.path.isdir(d):
            shutil.copytree(SPECS, d)
        return d

    # ------------------------------------------------------------------ go
    def build_vh(self):
        if self._vh:
            return self._vh
        out = os.path.join(self.scratch, "vh")
        gosum = os.path.join(HARNESS, "go.sum")
        if not os.path.exists(gosum):
            shutil.copy(os.path.join(REPO, "go.sum"), gosum)
        t = time.time()
        cover = []
        if os.environ.get("GOCOVERDIR"):   # diagnostic only: which functions of the code under verification do the drivers reach
            pl = subprocess.run("go list -tags verif -deps ./cmd/vh | grep '^github.com/relex/slog-agent'", shell=True, cwd=HARNESS, env=GOENV, capture_output=True, text=True).stdout.split()
            cover = ["-cover", "-coverpkg=" + ",".join(pl + ["verifharness/..."])]   # (the main module has to be among them)
        p = subprocess.run(["go", "build", "-tags", "verif"] + cover + ["-o", out, "./cmd/vh"], cwd=HARNESS, env=GOENV,
                           capture_output=True, text=True)
        if p.returncode != 0:
            raise Inconclusive("harness build failed (does /repo compile with -tags verif?):\n" + p.stderr[-3000:])
        log("[build] vh in %.1fs" % (time.time() - t))
        self._vh = out
        return out

    def vh(self, args, timeout=600, cwd=None, env=None, check=True):
        p = subprocess.run([self.build_vh()] + args, capture_output=True, text=True, timeout=timeout, cwd=cwd,
                           env=env or os.environ)
        if check and p.returncode != 0:
            where = real_code_crash(p.stderr or "")
            if where:
                # the process died inside the code under verification (not in the harness): a verdict if it does so again
                p2 = subprocess.run([self.build_vh()] + args, capture_output=True, text=True, timeout=timeout, cwd=cwd, env=env or os.environ)
                where2 = real_code_crash(p2.stderr or "") if p2.returncode != 0 else None
                if where2:
                    head = (p2.stderr or "")[(p2.stderr or "").find("panic:"):][:2500] if "panic:" in (p2.stderr or "") else (p2.stderr or "")[-2500:]
                    self.report("crash:" + where2, "the driver process died inside relex/slog-agent code (twice in a row) at %s while running: %s\n%s" % (where2, " ".join(args)[:300], head),
                                {"stderr.txt": (p2.stderr or "")[-20000:], "command.txt": " ".join(args)})
                    raise Inconclusive("driver process died inside the code under verification at %s" % where2)
            # not attributable to the code under verification (runtime fatal error, OOM kill, harness fault): one more try
            log("[vh] driver failed rc=%d (%s ...), retrying once" % (p.returncode, " ".join(args)[:80]))
            p3 = subprocess.run([self.build_vh()] + args, capture_output=True, text=True, timeout=timeout, cwd=cwd, env=env or os.environ)
            if p3.returncode == 0:
                self.inconclusive.append("driver run failed once with rc=%d and succeeded when repeated: %s" % (p.returncode, " ".join(args)[:200]))
                return p3
            raise Inconclusive("driver failed rc=%d: %s\n%s" % (p3.returncode, " ".join(args), (p3.stderr or p3.stdout)[-3000:]))
        return p

    # ------------------------------------------------------------------ TLC
    def _tlc(self, args, cwd, timeout, xmx="8g", props=()):
        cmd = ["java", "-XX:+UseParallelGC", "-Xmx" + xmx, "-Xss64m"] + list(props) + ["-cp", JAR, "tlc2.TLC"] + args
        try:
            p = subprocess.run(cmd, cwd=cwd, capture_output=True, text=True, timeout=timeout)
        except subprocess.TimeoutExpired:
            raise Inconclusive("TLC timeout after %ds: %s" % (timeout, " ".join(args)))
        return p.returncode, p.stdout + p.stderr

    def tlc_mc(self, module, cfg, workers=None, timeout=1800, xmx="24g", extra=()):
        """exhaustive model checking; returns dict(ok, generated, distinct, depth, out)"""
        d = self.specdir()
        md = tempfile.mkdtemp(prefix="md-", dir=self.scratch)
        args = ["-metadir", md, "-workers", str(workers or NCPU), "-config", cfg] + list(extra) + [module + ".tla"]
        t = time.time()
        rc, out = self._tlc(args, d, timeout, xmx)
        shutil.rmtree(md, ignore_errors=True)
        res = {"ok": "Model checking completed. No error has been found." in out, "out": out, "rc": rc,
               "wall_s": round(time.time() - t, 1), "cfg": cfg}
        m = re.search(r"(\d+) states generated, (\d+) distinct states found, (\d+) states left", out)
        if m:
            res["generated"], res["distinct"] = int(m.group(1)), int(m.group(2))
        m = re.search(r"depth of the complete state graph search is (\d+)", out)
        if m:
            res["depth"] = int(m.group(1))
        if not res["ok"]:
            if "is violated" in out or "Temporal properties were violated" in out or "Deadlock reached" in out:
                res["counterexample"] = out[out.find("Error:"):][:6000]
            else:
                raise Inconclusive("TLC failed on %s/%s:\n%s" % (module, cfg, out[-3000:]))
        log("[mc] %s %s: ok=%s distinct=%s generated=%s %.1fs" % (module, cfg, res["ok"], res.get("distinct"),
                                                                  res.get("generated"), res["wall_s"]))
        return res

    def tlc_simulate(self, module, cfg, num, depth, seed, timeout=600):
        """random behaviours of the spec; returns list of behaviours, each a list of (action, params, state-text)"""
        d = self.specdir()
        md = tempfile.mkdtemp(prefix="md-", dir=self.scratch)
        simdir = tempfile.mkdtemp(prefix="sim-", dir=self.scratch)
        args = ["-metadir", md, "-workers", "1", "-simulate", "file=%s/b,num=%d" % (simdir, num), "-depth", str(depth),
                "-seed", str(seed), "-config", cfg, module + ".tla"]
        rc, out = self._tlc(args, d, timeout, "4g")
        shutil.rmtree(md, ignore_errors=True)
        behs = []
        for fn in sorted(os.listdir(simdir)):
            txt = open(os.path.join(simdir, fn)).read()
            steps = []
            for m in re.finditer(r"\\\* <(\w+)(?:\(([^)]*)\))? line[^\n]*\nSTATE_\d+ ==\s*\n(.*?)(?=\n\n\n|\Z)", txt, re.S):
                steps.append((m.group(1), m.group(2) or "", m.group(3)))
            if steps:
                behs.append(steps)
        shutil.rmtree(simdir, ignore_errors=True)
        if not behs:
            raise Inconclusive("TLC simulation produced nothing:\n" + out[-2000:])
        return behs

    def tlc_trace(self, module, cfg, trace_path, timeout=600, consts=None, workdir=None):
        """validate one ndjson trace file (possibly many traces separated by RESET).
        returns dict(accepted, hwm, event, inv, states, out)"""
        d = workdir or tempfile.mkdtemp(prefix="tv-", dir=self.scratch)
        for fn in os.listdir(SPECS):
            if fn.endswith(".tla") or fn == cfg:
                shutil.copy(os.path.join(SPECS, fn), d)
        shutil.copy(trace_path, os.path.join(d, "trace.ndjson"))
        if consts:
            txt = open(os.path.join(d, cfg)).read()
            for k, v in consts.items():
                txt = re.sub(r"(?m)^(\s*%s\s*=\s*).*$" % re.escape(k), lambda m: m.group(1) + str(v), txt)
            open(os.path.join(d, cfg), "w").write(txt)
        args = ["-metadir", os.path.join(d, "md"), "-workers", "1", "-config", cfg, module + ".tla"]
        rc, out = self._tlc(args, d, timeout, "3g")
        res = {"accepted": "Model checking completed. No error has been found." in out, "out": out}
        m = re.search(r'<<\s*"HWM",\s*(\d+),\s*(\[.*?\])\s*>>\s*\n(?:Error|\d+ states)', out, re.S)
        if m:
            res["hwm"], res["event"] = int(m.group(1)), re.sub(r"\s+", " ", m.group(2))
        m = re.search(r"Invariant (\w+) is violated", out)
        if m:
            res["inv"] = m.group(1)
        m = re.search(r"(\d+) states generated, (\d+) distinct states found", out)
        if m:
            res["states"] = int(m.group(2))
        if not res["accepted"] and "hwm" not in res and "inv" not in res:
            shutil.rmtree(d, ignore_errors=True)
            i = out.find("Error:")
            raise Inconclusive("TLC failed validating %s:\n%s" % (trace_path, out[i:i + 3000] if i >= 0 else out[-3000:]))
        if workdir is None:
            shutil.rmtree(d, ignore_errors=True)
        return res

    # ------------------------------------------------------------------ verdicts
    def is_known(self, key):
        """a violation whose key is listed in known_findings.json (status open) is a KNOWN-FINDING, not a violation"""
        for k in self.known:
            if k.get("status") == "open" and k["key"] == key:
                return k
        return None

    def report(self, key, what, replay_files=None):
        """record a violation of the real code (already reproduced / deterministic). key identifies it."""
        k = self.is_known(key)
        if k:
            msg = "KNOWN-FINDING: property=%s %s" % (self.pid, k["what"])
            if msg not in self.known_hits:
                self.known_hits.append(msg)
            return
        rd = os.path.join(OUT, "replays", "%s-%s-%d" % (self.pid, hashlib.sha1(key.encode()).hexdigest()[:10], len(self.violations)))
        os.makedirs(rd, exist_ok=True)
        with open(os.path.join(rd, "what.txt"), "w") as f:
            f.write("property=%s key=%s\n%s\n" % (self.pid, key, what))
        for name, content in (replay_files or {}).items():
            if isinstance(content, str) and os.path.exists(content) and len(content) < 300:
                shutil.copy(content, os.path.join(rd, name))
            else:
                with open(os.path.join(rd, name), "w") as f:
                    f.write(content if isinstance(content, str) else json.dumps(content, indent=1))
        self.violations.append((key, what, rd))

    def finish(self):
        wall = round(time.time() - self.t0, 1)
        ev = {"property_id": self.pid, "tier": self.tier, "seed": self.seed, "level": self.level,
              "coverage": self.cov, "assumptions": self.assumptions, "wall_s": wall,
              "violations": len(self.violations), "known_findings_hit": self.known_hits,
              "inconclusive": self.inconclusive[:20]}
        os.makedirs(os.path.join(OUT, "evidence"), exist_ok=True)
        with open(os.path.join(OUT, "evidence", self.pid + ".json"), "w") as f:
            json.dump(ev, f, indent=1, sort_keys=True)
        shutil.rmtree(self.scratch, ignore_errors=True)
        for m in self.known_hits:
            print(m)
        for key, what, rd in self.violations:
            print("VIOLATION property=%s replay=%s" % (self.pid, rd))
            log("  " + what.replace("\n", "\n  ")[:2000])
        if self.violations:
            return 1
        if self.inconclusive and not self.cov.get("evaluations") and not self.cov.get("states"):
            for m in self.inconclusive[:5]:
                print("INCONCLUSIVE property=%s %s" % (self.pid, m[:500]))
            return 2
        for m in self.inconclusive[:5]:
            log("INCONCLUSIVE (partial) property=%s %s" % (self.pid, m[:500]))
        print("OK property=%s tier=%s wall=%.1fs" % (self.pid, self.tier, wall))
        return 0


def load_known():
    p = os.path.join(VERIF, "known_findings.json")
    if not os.path.exists(p):
        return {}
    data = json.load(open(p))
    out = {}
    for e in data.get("findings", []):
        out.setdefault(e["property"], []).append(e)
    return out


def split_traces(path):
    """split an ndjson batch at RESET events -> list of (script id, [lines])"""
    res, cur = [], []
    for line in open(path):
        if not line.strip():
            continue
        cur.append(line)
        if '"ev":"RESET"' in line:
            sid = json.loads(line).get("script", "?")
            res.append((sid, cur))
            cur = []
    if cur:
        res.append(("tail", cur))
    return res


def parallel(fn, items, workers=None):
    with concurrent.futures.ThreadPoolExecutor(max_workers=workers or NCPU) as ex:
        return list(ex.map(fn, items))


def main_wrapper(run):
    """common CLI: check <ID> [--tier quick|thorough] [--seed N]"""
    import argparse
    ap = argparse.ArgumentParser()
    ap.add_argument("--tier", default=os.environ.get("VERIF_TIER", "quick"))
    ap.add_argument("--seed", default=os.environ.get("VERIF_SEED", "1"))
    ap.add_argument("--replay", default=None)
    a = ap.parse_args(sys.argv[2:])
    return a
