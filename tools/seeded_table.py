#!/usr/bin/env python3
"""print the seeded-change matrix (markdown) from seeded/*/meta.json and README.agent.md"""
import json, glob, os, re
rows = []
for d in sorted(glob.glob("/verif/seeded/*/")):
    name = os.path.basename(d.rstrip("/"))
    m = json.load(open(d + "meta.json"))
    what = ""
    rp = d + "README.agent.md"
    if os.path.exists(rp):
        first = open(rp).read().strip().splitlines()[0]
        what = re.sub(r"^#+\s*", "", first)
        what = re.sub(r"^[A-Za-z0-9 /\-]*?(m\d|M\d)\s*[—:\-]+\s*", "", what)[:110]
    det = m.get("detected_by") or {}
    caught = sorted(k.split(":")[0] for k, v in det.items() if v == "caught")
    missed = sorted(k.split(":")[0] for k, v in det.items() if v != "caught")
    rows.append("| %s%s | %s | %s | %s |" % (name, " (rebased)" if m.get("rebased") else "", m.get("property"), what or m.get("needs", "")[:110], ", ".join(caught) + ((" — missed by " + ", ".join(missed)) if missed else "")))
print("| seeded change | property | what | caught by (quick tier) |\n|---|---|---|---|")
print("\n".join(rows))
