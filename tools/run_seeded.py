#!/usr/bin/env python3
"""apply a seeded mutation to a scratch worktree of /repo (never to /repo itself), run the given checks against it, remove
the worktree, record which checks caught it in seeded/<name>/meta.json.
usage: run_seeded.py <seeded-name> <ID> [<ID> ...] [--tier quick|thorough]"""
import json, os, subprocess, sys, shutil, tempfile
args = sys.argv[1:]
tier = "quick"
if "--tier" in args:
    i = args.index("--tier"); tier = args[i + 1]; del args[i:i + 2]
name, ids = args[0], args[1:]
d = os.path.join("/verif/seeded", name)
scratch = tempfile.mkdtemp(prefix="seeded-%s-" % name, dir="/var/tmp")
wt = os.path.join(scratch, "repo")
subprocess.run(["git", "-C", "/repo", "worktree", "add", "--detach", wt, "HEAD"], check=True, capture_output=True)
res = {}
try:
    p = subprocess.run("git -C %s apply --3way %s/patch.diff" % (wt, d), shell=True, capture_output=True, text=True)
    if p.returncode != 0:
        print("patch does not apply:", p.stderr); sys.exit(2)
    h = os.path.join(scratch, "harness")
    shutil.copytree("/verif/harness", h)
    gm = open(os.path.join(h, "go.mod")).read().replace("=> /repo", "=> " + wt)
    open(os.path.join(h, "go.mod"), "w").write(gm)
    env = dict(os.environ, VERIF_REPO=wt, VERIF_HARNESS=h, VERIF_OUT=os.path.join(scratch, "out"))
    for pid in ids:
        r = subprocess.run(["/verif/bin/check", pid, "--tier", tier], cwd="/verif", capture_output=True, text=True, env=env)
        lines = [l for l in r.stdout.splitlines() if l.startswith(("VIOLATION", "OK", "INCONCLUSIVE", "KNOWN"))]
        why = [l.strip()[:300] for l in r.stderr.splitlines() if "rejected" in l or "violated" in l or "differs" in l][:2]
        res[pid] = {"exit": r.returncode, "lines": lines[:3]}
        print(name, pid, r.returncode, lines[:1], why[:1])
finally:
    subprocess.run(["git", "-C", "/repo", "worktree", "remove", "--force", wt], capture_output=True)
    shutil.rmtree(scratch, ignore_errors=True)
meta = json.load(open(os.path.join(d, "meta.json")))
det = meta.get("detected_by") or {}
for pid, r in res.items():
    det[pid + ":" + tier] = "caught" if r["exit"] == 1 else ("missed" if r["exit"] == 0 else "inconclusive")
meta["detected_by"] = det
json.dump(meta, open(os.path.join(d, "meta.json"), "w"), indent=1)
