#!/usr/bin/env python3
"""apply a seeded mutation to /repo, run the given checks (quick tier), undo it, record which checks caught it.
usage: run_seeded.py <seeded-name> <ID> [<ID> ...] [--tier quick|thorough]"""
import json, os, subprocess, sys, shutil
args = sys.argv[1:]
tier = "quick"
if "--tier" in args:
    i = args.index("--tier"); tier = args[i + 1]; del args[i:i + 2]
name, ids = args[0], args[1:]
d = os.path.join("/verif/seeded", name)
assert subprocess.run("git -C /repo status --porcelain --untracked-files=no", shell=True, capture_output=True, text=True).stdout.strip() == "", "/repo not clean"
p = subprocess.run("git -C /repo apply --3way %s/patch.diff" % d, shell=True, capture_output=True, text=True)
if p.returncode != 0:
    print("patch does not apply:", p.stderr); sys.exit(2)
res = {}
try:
    for pid in ids:
        r = subprocess.run(["/verif/bin/check", pid, "--tier", tier], cwd="/verif", capture_output=True, text=True)
        lines = [l for l in r.stdout.splitlines() if l.startswith(("VIOLATION", "OK", "INCONCLUSIVE", "KNOWN"))]
        res[pid] = {"exit": r.returncode, "lines": lines[:3]}
        print(pid, r.returncode, lines[:2])
finally:
    subprocess.run("git -C /repo reset -q --hard HEAD", shell=True)
    shutil.rmtree("/verif/replays", ignore_errors=True)
meta = json.load(open(os.path.join(d, "meta.json")))
det = meta.get("detected_by") or {}
for pid, r in res.items():
    det[pid + ":" + tier] = "caught" if r["exit"] == 1 else ("missed" if r["exit"] == 0 else "inconclusive")
meta["detected_by"] = det
json.dump(meta, open(os.path.join(d, "meta.json"), "w"), indent=1)
