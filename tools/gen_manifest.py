#!/usr/bin/env python3
"""writes MANIFEST.json from the table below (one source of truth for the registered checks)"""
import json, subprocess
CHECKS = {
 "C02": dict(cat="model_checking", ref="5.1", engine="forwarder",
   technique="TLA+ spec Forwarder (TLC exhaustive safety + liveness) bound to the real ClientWorker by script replay of TLC behaviours and TLC trace validation (ForwarderTrace)",
   text="TLC exhausts every interleaving of worker, dialer, sender, acknowledger, stop callback and a faulty upstream at small constants (safety invariants, EventuallyDelivered and StopTerminates under fairness); the real baseoutput.ClientWorker, rebuilt from /repo with the verif hooks, is driven by the environment projection of TLC-simulated behaviours plus seeded fault scripts through a scripted fake connection, and every recorded trace must be explained event by event by the spec, with all invariants evaluated along the explaining behaviour. Exhaustive for the spec at the MC constants; the code is sampled by scripts, which is what a schedule/fault-sequence property over a four-goroutine component admits.",
   note="Trusts TLC, the fake connection honouring the ClosableClientConnection contract (Close cancels pending I/O), and the hook placement (events are confirmations logged by the goroutine that made the change). A rejection is reported only if a re-run of the same script is rejected again."),
 "C03": dict(cat="model_checking", ref="5.2", engine="hybridbuffer",
   technique="TLA+ spec HybridBuffer (TLC exhaustive safety + liveness) bound to the real bufferer by script replay of TLC behaviours and TLC trace validation (HybridBufferTrace) with directory and metric projections at quiescence",
   text="TLC exhausts every interleaving of Accept/Destroy, the feeder goroutine and an unconstrained consumer (confirm, hand back, stall, stop early) over several generations on one directory at small constants, with UnloadChunk as three steps, and checks conservation (NoSilentLoss), no double confirmation, FIFO, the disk limit with the concurrent-save slack as a history variable, gauge soundness, chunk accounting, AllPersisted and DestroyTerminates under fairness. The real bufferer rebuilt from /repo is driven by the acceptor/consumer projection of TLC-simulated behaviours plus seeded scripts at four (queue, window, byte-limit, directory) settings, with schedule jitter at gates; every recorded trace - hook events of the feeder, Accept and UnloadChunk, harness events of the consumer, the directory listing with sizes and contents and the metric registry after every shutdown - must be explained by the spec.",
   note="Trusts TLC and the hook placement; the consumer is the harness (contract-abiding by construction); Accept and Destroy are never concurrent. A rejection is reported only if a re-run of the same script is rejected again."),
 "C04": dict(cat="fault_enumeration", ref="5.3", engine="chunkfile",
   technique="TLA+ spec ChunkFile (TLC exhaustive) bound to the real persistence/recovery code by replaying every fault scenario in victim/recovery child processes (RLIMIT_FSIZE, kill points in WriteFileAt) and TLC trace validation (ChunkFileTrace)",
   text="TLC exhausts persist (open temp, write loop with arbitrary short writes, failure, close, rename, cleanup), process death at every step, a second life of the agent, external damage and the recovery scan/load/forward at 3 chunks x lengths 1-3, with NeverTruncatedUpstream, ChunkNamesAreWhole, MarkedSavedOnlyIfWhole, BadFileDoesNotBlock, FailedNotForwarded. Every scenario of the bounded grid (victim length x queue position x byte offset where the write stops x kill point x damaged neighbour x second life) and the fault projection of TLC-simulated behaviours is executed on the real file system: a victim child process persists chunks through the real bufferer under RLIMIT_FSIZE and dies at a verif kill point inside util.WriteFileAt; the parent lists the directory; a second child recovers it with a strict consumer; TLC must explain the listing and every forward/corrupt/read-failure event.",
   note="Crash = process death with the page cache intact (no power loss, no fsync claim); faults produced by RLIMIT_FSIZE and by replacing a file with a directory; lengths 1-3 units at byte units 1/4096 (quick) and 1/512/4096/33000 (thorough)."),
 "C13": dict(cat="model_checking", ref="5.13", engine="functions",
   technique="TLA+ reference definition Timestamp (RFC 3339 grammar + instant in integer arithmetic) evaluated by TLC on every (input, output) event recorded from the real parseTime transform over an enumerated input space",
   text="The real parseTime transform (rebuilt from /repo) is run over the enumerated space - empty, NIL, every truncation/substitution/insertion/deletion of valid timestamps, short garbage, boundary dates x times x zones x fractions, repeated malformed zones on one instance, fractions of 1-6 digits (thorough: all 1,111,110) and sampled 7-9 digits - with panics recovered and logged; TLC validates every event against Timestamp!Check: not shaped => error, counted, fallback kept; valid => exact <<days, second of day, nanosecond>>; never a panic. The oracle is the TLA+ text, not a second Go implementation.",
   note="Trusts TLC's integer arithmetic and the driver's projection of time.Time to (days, second of day, nanosecond). Not covered: all 10^9 fractions (7-9 digits are sampled), strings outside the enumerated families."),
 "C14": dict(cat="model_checking", ref="5.14", engine="functions",
   technique="TLA+ reference relation Redact (Preserving + Complete) evaluated by TLC on every (text, redacted text) event recorded from the real redactEmail transform over the complete space of short texts plus generated texts",
   text="The real redactEmail transform is run on every text of length <=5 (thorough <=7, 5.4 million) over 9 symbols including '@', '/', separators and a 2-byte character, and on seeded generated texts with 0-4 addresses at all adjacencies; TLC validates every event against the relation the statement demands: the output is the input with disjoint spans of address characters around one '@' replaced by REDACTED (everything else byte for byte), no unambiguous address of the supported shape remains once the tokens are masked, and the label counter moved iff the text changed. The relation is one-sided where the statement leaves a choice, so it cannot alarm on over-redaction of borderline candidates.",
   note="Inputs are lower case (tokens identifiable); Complete only demands redaction of addresses whose every label is well-formed; the symbol alphabet bounds the byte contents."),
 "C09": dict(cat="model_checking", ref="5.12", engine="functions",
   technique="TLA+ reference definition Syslog (well-formedness, fields, UTF-8-safe cut, accounting) evaluated by TLC on every parser call recorded from the real syslog parser over an enumerated space of lines",
   text="The real syslogparser (limits lowered through the code's own variables) parses every line of the enumerated space - all PRI values under three level mappings, first-token framings, token value classes, missing/empty tokens, prefixes of a valid line, message bodies with every tail of multi-byte/invalid/newline symbols around the cut position behind headers below/at/above the record limit - and each call is logged with the record's fields, the Unescaped flag and the deltas of the passed/dropped/overflow counters; TLC validates every event against Syslog!Check: a well-formed line yields exactly its facility, mapped level, six tokens and message (cut at a character boundary and counted as overflow when over-long); every line is counted exactly once with its length; never a panic.",
   note="Well-formed = canonical PRI, version 1, six non-empty tokens, a message part; exact message demanded for structurally valid UTF-8; limits 12/64 instead of 1 MiB (same code path, the limits are variables)."),
 "C08": dict(cat="model_checking", ref="5.7", engine="framing",
   technique="TLA+ spec Framing (impl-shaped multiLineReader + reference framer; TLC exhausts all streams, cuts and flush placements) bound to the code by lock-step trace validation of the real reader on the complete bounded space and by an observer spec on the real TCP listener",
   text="TLC checks on the spec, for EVERY newline-terminated stream over {record-start byte, other byte, newline} up to length 7 (thorough 8) and every sequence of read fragmentations and flushes, that the valid records equal the reference framing when no flush intervenes (FragmentationIndependent), also under any flush placement for single-line streams, and that with flushes every record start is delivered exactly once, in order, with a prefix of its lines. The real multiLineReader (through a tag-guarded accessor) is run lock-step on every (stream, labelling of each byte boundary as none/cut/cut+flush) up to length 5 (thorough 7), also with a buffer small enough to overflow: the bytes read, the records handed to the consumer and both offsets after every step must equal the spec's. The real TCP listener is driven over real TCP with bursts of tiny segments and pauses; an observer spec checks the delivered records against the reference and that flushes stay periodic (at most one per interval).",
   note="The reader gets the model's record-start test; listener timing is used only as an upper bound on the number of flushes; streams are symbolic (3 byte classes)."),
 "C11": dict(cat="model_checking", ref="5.8", engine="packer",
   technique="TLA+ spec Packer (TLC exhaustive: concatenation, limits, no empty chunk) bound to the real chunk makers by lock-step trace validation over the complete bounded space of write/flush schedules, chunks decoded by an independent path",
   text="TLC exhausts all sequences of writes (sizes around the limits) and flushes for the Fluentd and the Datadog byte accounting and checks that emitted chunks concatenated with the open chunk are exactly the input, that no chunk is empty and none exceeds the limits unless a single record does. The real LogChunkMakers (Forward, PackedForward, CompressedPackedForward, Datadog; limits lowered through tag-guarded accessors) are run on every schedule up to depth 4-6 (thorough 5-8); after every step the returned chunk - decoded by generic MessagePack or gzip+JSON - must be the chunk the spec closes: same record stamps in order, count = option.size = array header, option.chunk = storage name with the output's suffix, increasing ids, the pipeline's tag, body size as modelled, within limits; and a chunk handed out earlier must stay byte-identical while the maker goes on.",
   note="Records are synthetic MessagePack/JSON events of exact sizes carrying a stamp; chunk id order is checked by string comparison in the driver; wall clock stepping backwards (id generator) is not provoked."),
}
NOT_YET = {
}
def main():
    props = [json.loads(l) for l in open("/verif/properties.jsonl")]
    hooks = subprocess.run("git -C /repo log --format=%H --grep='^verif hooks' ", shell=True, capture_output=True, text=True).stdout.split()
    m = {"version": 1,
         "setup_cmd": "cd /verif && cp /repo/go.sum harness/go.sum && cd harness && GOFLAGS=-mod=mod GOPROXY=off GOSUMDB=off GOTOOLCHAIN=local go build -tags verif -o /dev/null ./cmd/vh",
         "hooks": {"guard": "verif (Go build tag)", "enable": "go build -tags verif (harness module /verif/harness, replace github.com/relex/slog-agent => /repo)",
                   "baseline_off_cmd": "cd /repo && GOFLAGS=-mod=mod GOPROXY=off GOSUMDB=off GOTOOLCHAIN=local go test -vet=off -count=1 -timeout 25m ./...",
                   "source_commits": list(reversed(hooks)), "add_only": True},
         "engines": [], "checks": [], "not_applicable": [],
         "notes": "bin/check <ID> --tier quick|thorough; exit 2 + INCONCLUSIVE = tool failure / not reproduced, never a violation. known_findings.json lists genuine defects (open / fixed)."}
    engines = {}
    for p in props:
        pid = p["id"]
        if pid in CHECKS:
            c = CHECKS[pid]
            m["checks"].append({"property_id": pid, "quick_cmd": "bin/check %s --tier quick" % pid,
                                "thorough_cmd": "bin/check %s --tier thorough" % pid,
                                "evidence_file": "/verif/evidence/%s.json" % pid,
                                "replay_cmd_template": "bin/check %s --replay {path}" % pid, "engine": c["engine"],
                                "level_claimed": {"category": c["cat"], "text": c["text"], "design_ref": "DESIGN.md section " + c["ref"]},
                                "level_note": c["note"], "technique": c["technique"]})
            engines.setdefault(c["engine"], []).append(pid)
        else:
            m["not_applicable"].append({"property_id": pid, "reason": NOT_YET.get(pid, "check not built yet (planned per DESIGN.md section 9); nothing is claimed for this property in this commit")})
    for e, ids in engines.items():
        m["engines"].append({"name": e, "path": "/verif/checks", "serves_properties": ids, "kind_free_text": "TLA+ spec + TLC + Go driver on the real code"})
    json.dump(m, open("/verif/MANIFEST.json", "w"), indent=1)
main()
