#!/bin/bash
# runs the thorough tier of the given checks one after the other, evidence to a scratch directory (not the committed one)
export GOFLAGS=-mod=mod GOPROXY=off GOSUMDB=off GOTOOLCHAIN=local
out=${VERIF_OUT:-/var/tmp/thor4}
mkdir -p $out
for id in "$@"; do
  s=$(date +%s)
  VERIF_OUT=$out /verif/bin/check $id --tier thorough > $out/$id.log 2>&1
  rc=$?
  echo "$id exit=$rc wall=$(( $(date +%s) - s ))s $(grep -E '^(OK|VIOLATION|INCONCLUSIVE)' $out/$id.log | head -3 | tr '\n' ' ' | cut -c1-300)" >> $out/summary.txt
done
