#!/usr/bin/env python3
"""intake of one sub-agent change: confirm it (tools/confirm_seed.py) in the sub-agent's worktree, store it, run the
registered quick checks against it.  usage: intake_seed.py <ID> <wave> <m1|m2> <pkgdir> <demo-cmd> <needs> [check ids...]"""
import glob, os, subprocess, sys
pid, wave, m, pkg, democmd, needs = sys.argv[1:7]
ids = sys.argv[7:] or [pid]
wt = "/tmp/mut%s/%s" % (wave, pid)
subprocess.run("mv %s/_out /tmp/mut%s/%s._out 2>/dev/null" % (wt, wave, pid), shell=True)   # keep the worktree clean for confirm
md2 = "/tmp/mut%s/%s._out/%s" % (wave, pid, m)
demo = [os.path.basename(f) for f in glob.glob(md2 + "/*_test.go")]
name = "%s-w%sm%s" % (pid, wave, m[1:])
places = ["%s:%s/%s" % (f, pkg, f) for f in demo]
subprocess.run(["git", "-C", wt, "checkout", "--", "."])
r = subprocess.run(["python3", "/verif/tools/confirm_seed.py", name, pid, wt, md2, democmd, needs] + places)
if r.returncode != 0:
    sys.exit(r.returncode)
subprocess.run(["python3", "/verif/tools/run_seeded.py", name] + ids)
