#!/usr/bin/env python3
"""re-run stored seeded changes against one check that caught them (the first "caught" entry of meta.json) and report which
ones are still caught.  usage: regress_seeded.py <stream index> <number of streams> [name-filter-regex]"""
import json, os, re, subprocess, sys
i, n = int(sys.argv[1]), int(sys.argv[2])
flt = re.compile(sys.argv[3]) if len(sys.argv) > 3 else None
names = sorted(d for d in os.listdir("/verif/seeded") if os.path.isdir("/verif/seeded/" + d))
todo = []
for nm in names:
    if flt and not flt.search(nm):
        continue
    meta = json.load(open("/verif/seeded/%s/meta.json" % nm))
    if meta.get("superseded"):
        continue
    det = meta.get("detected_by") or {}
    caught = [k.split(":")[0] for k, v in det.items() if v == "caught" and k.endswith(":quick")]
    if caught:
        # prefer the cheapest check
        order = ["C10", "C14", "C13", "C09", "C15", "C16", "C04", "C07", "C06", "C12", "C08", "C17", "C19", "C02", "C11", "C18", "C03", "C05", "C01"]
        caught.sort(key=lambda c: order.index(c) if c in order else 99)
        todo.append((nm, caught[0]))
for k, (nm, cid) in enumerate(todo):
    if k % n != i:
        continue
    p = subprocess.run(["python3", "/verif/tools/run_seeded.py", nm, cid], capture_output=True, text=True)
    line = [l for l in p.stdout.splitlines() if l.startswith(nm)]
    rc = line[-1].split()[2] if line else "?"
    print("%s %s %s" % (nm, cid, {"1": "caught", "0": "MISSED", "2": "inconclusive"}.get(rc, "error:" + (p.stderr[-200:] or p.stdout[-200:]))), flush=True)
