#!/bin/bash
# runs the repository's suite (tag off) in the given dir (default /repo); retries while another suite holds port 5140
dir=${1:-/repo}; shift
export GOFLAGS=-mod=mod GOPROXY=off GOSUMDB=off GOTOOLCHAIN=local
for i in 1 2 3 4 5 6 7 8; do
  out=$(cd $dir && go test -vet=off -count=1 -timeout 25m ${@:-./...} 2>&1); rc=$?
  if echo "$out" | grep -q "address already in use"; then sleep $((RANDOM % 20 + 5)); continue; fi
  echo "$out" | grep -E "^(ok|FAIL|---|panic)" | grep -v "^ok" | head -20
  echo "suite rc=$rc (attempt $i)"; exit $rc
done
echo "suite: port 5140 busy after 8 attempts"; exit 3
