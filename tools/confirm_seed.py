#!/usr/bin/env python3
"""confirm a seeded mutation produced by a sub-agent in its own scratch worktree and store it under /verif/seeded/<name>/.
usage: confirm_seed.py <name> <property> <worktree> <mutdir> <demo-test-cmd> <needs-text> src:dst [src:dst ...]
 - demo passes on the original, fails with the patch; the existing suite passes with the patch (run twice)"""
import json, os, shutil, subprocess, sys
name, prop, wt, mdir, democmd, needs = sys.argv[1:7]
places = [p.split(":") for p in sys.argv[7:]]
env = dict(os.environ, GOFLAGS="-mod=mod", GOPROXY="off", GOSUMDB="off", GOTOOLCHAIN="local")
def sh(cmd):
    p = subprocess.run(cmd, shell=True, cwd=wt, env=env, capture_output=True, text=True, errors="replace")
    return p.returncode, (p.stdout + p.stderr)[-1500:]
assert sh("git status --porcelain --untracked-files=no")[1].strip() == "", "worktree not clean"
patch = os.path.join(mdir, "patch.diff")
for src, dst in places:
    shutil.copy(os.path.join(mdir, src), os.path.join(wt, dst))
res = {}
rc, out = sh(democmd); res["demo_on_original"] = "pass" if rc == 0 else "FAIL"; o1 = out
rc, out = sh("git apply " + patch); assert rc == 0, out
rc, out = sh("go build ./..."); res["build_with_patch"] = "ok" if rc == 0 else "FAIL"
rc, out = sh(democmd); res["demo_with_patch"] = "fail" if rc != 0 else "PASSES"; o2 = out
for _, dst in places:
    os.rename(os.path.join(wt, dst), os.path.join(wt, dst) + ".off")
suite = []
import time, random
for i in range(2):
    for attempt in range(10):
        p = subprocess.run("go test -vet=off -count=1 -timeout 25m ./...", shell=True, cwd=wt, env=env, capture_output=True, text=True, errors="replace")
        rc, out = p.returncode, p.stdout + p.stderr
        if "address already in use" in out:   # another suite holds port 5140 right now
            time.sleep(random.randint(5, 25)); continue
        break
    suite.append("pass" if rc == 0 else "FAIL")
    if rc != 0:
        print("\n".join(l for l in out.splitlines() if l.startswith(("FAIL", "---", "panic")))[:1500])
res["existing_suite_with_patch"] = suite
for _, dst in places:
    os.remove(os.path.join(wt, dst) + ".off")
sh("git checkout -- .")
ok = res["demo_on_original"] == "pass" and res["demo_with_patch"] == "fail" and res["build_with_patch"] == "ok" and suite == ["pass", "pass"]
print(json.dumps(res), "CONFIRMED" if ok else "NOT CONFIRMED")
if not ok:
    print(o1[-600:]); print(o2[-600:]); sys.exit(1)
d = os.path.join("/verif/seeded", name)
os.makedirs(os.path.join(d, "demo"), exist_ok=True)
shutil.copy(patch, os.path.join(d, "patch.diff"))
for src, dst in places:
    shutil.copy(os.path.join(mdir, src), os.path.join(d, "demo", os.path.basename(src)))
if os.path.exists(os.path.join(mdir, "README.md")):
    shutil.copy(os.path.join(mdir, "README.md"), os.path.join(d, "README.agent.md"))
json.dump({"property": prop, "needs": needs, "demo_placement": {os.path.basename(s): t for s, t in places}, "demo_cmd": democmd,
           "confirmed": res, "detected_by": None}, open(os.path.join(d, "meta.json"), "w"), indent=1)
