// Package vmetrics reads counters and gauges out of a Prometheus gatherer
package vmetrics

import (
	"sort"
	"strings"

	"github.com/prometheus/client_golang/prometheus"
)

// Errors counts the Gather calls that reported an error (LastError holds the text of the latest)
var Errors int

// LastError is the text of the latest gather error
var LastError string

// Gather returns name{label="value",...} -> value for counters and gauges
func Gather(g prometheus.Gatherer) map[string]float64 {
	out := map[string]float64{}
	mfs, err := g.Gather()
	if err != nil {
		// e.g. two metrics with the same name and label values: what a scrape of the agent would report as an error;
		// the metrics that could be gathered are still returned
		Errors++
		LastError = err.Error()
	}
	for _, mf := range mfs {
		for _, m := range mf.GetMetric() {
			parts := make([]string, 0, len(m.GetLabel()))
			for _, lp := range m.GetLabel() {
				parts = append(parts, lp.GetName()+"="+lp.GetValue())
			}
			sort.Strings(parts)
			key := mf.GetName()
			if len(parts) > 0 {
				key += "{" + strings.Join(parts, ",") + "}"
			}
			switch {
			case m.Counter != nil:
				out[key] = m.Counter.GetValue()
			case m.Gauge != nil:
				out[key] = m.Gauge.GetValue()
			}
		}
	}
	return out
}
