// Package vmetrics reads counters and gauges out of a Prometheus gatherer
package vmetrics

import (
	"sort"
	"strings"

	"github.com/prometheus/client_golang/prometheus"
)

// Gather returns name{label="value",...} -> value for counters and gauges
func Gather(g prometheus.Gatherer) map[string]float64 {
	out := map[string]float64{}
	mfs, err := g.Gather()
	if err != nil {
		panic(err)
	}
	for _, mf := range mfs {
		for _, m := range mf.GetMetric() {
			parts := make([]string, 0, len(m.GetLabel()))
			for _, lp := range m.GetLabel() {
				parts = append(parts, lp.GetName()+"="+lp.GetValue())
			}
			sort.Strings(parts)
			key := mf.GetName()
			if len(parts) > 0 {
				key += "{" + strings.Join(parts, ",") + "}"
			}
			switch {
			case m.Counter != nil:
				out[key] = m.Counter.GetValue()
			case m.Gauge != nil:
				out[key] = m.Gauge.GetValue()
			}
		}
	}
	return out
}
