// Package vtrace records events of the real code under one mutex with one global sequence number.
package vtrace

import (
	"bufio"
	"encoding/json"
	"math/rand"
	"os"
	"strconv"
	"sync"
	"sync/atomic"
	"time"
)

// Event is one recorded event
type Event map[string]any

// Tracer is the single recorder of a run; Emit may be called from any goroutine
type Tracer struct {
	mu         sync.Mutex
	seq        int64
	evs        []Event
	rnd        *rand.Rand
	Jitter     bool                       // sleep a little after some emits to perturb the schedule
	IntKeys    map[string]bool            // keys whose string / []string values are chunk ids to be logged as integers
	lastEmit   atomic.Int64               // unix nanos of the last emit
	OnEmit     func(seq int64, ev string) // called under the mutex (must not block)
	IdleIgnore map[string]bool            // events that do not count as activity for IdleFor
	start      time.Time
}

// New creates a tracer
func New(seed int64, jitter bool, intKeys ...string) *Tracer {
	t := &Tracer{rnd: rand.New(rand.NewSource(seed)), Jitter: jitter, IntKeys: map[string]bool{}, IdleIgnore: map[string]bool{}, start: time.Now()}
	for _, k := range intKeys {
		t.IntKeys[k] = true
	}
	t.lastEmit.Store(time.Now().UnixNano())
	return t
}

func toInt(v any) any {
	switch x := v.(type) {
	case string:
		if n, err := strconv.Atoi(x); err == nil {
			return n
		}
		return -1 // not a chunk id the harness made (e.g. a temporary file taken for a chunk): no id of any model
	case []string:
		r := make([]int, len(x))
		for i, e := range x {
			r[i], _ = strconv.Atoi(e)
		}
		return r
	}
	return v
}

// EmitQuiet records an event that does not count as activity for IdleFor
func (t *Tracer) EmitQuiet(ev string, kv ...any) { t.emit(true, ev, kv...) }

// Emit records an event; kv are alternating keys and values
func (t *Tracer) Emit(ev string, kv ...any) { t.emit(false, ev, kv...) }

func (t *Tracer) emit(quiet bool, ev string, kv ...any) {
	t.mu.Lock()
	t.seq++
	m := Event{"seq": t.seq, "ev": ev, "t": time.Since(t.start).Microseconds()}
	for i := 0; i+1 < len(kv); i += 2 {
		k := kv[i].(string)
		if t.IntKeys[k] {
			m[k] = toInt(kv[i+1])
		} else {
			m[k] = kv[i+1]
		}
	}
	t.evs = append(t.evs, m)
	if !quiet && !t.IdleIgnore[ev] {
		t.lastEmit.Store(time.Now().UnixNano())
	}
	if t.OnEmit != nil {
		t.OnEmit(t.seq, ev)
	}
	j := t.Jitter && t.rnd.Intn(4) == 0
	d := 0
	if j {
		d = 50 + t.rnd.Intn(400)
	}
	t.mu.Unlock()
	if j {
		time.Sleep(time.Duration(d) * time.Microsecond)
	}
}

// Seq returns the number of events so far
func (t *Tracer) Seq() int64 {
	t.mu.Lock()
	defer t.mu.Unlock()
	return t.seq
}

// IdleFor tells how long ago the last event was recorded
func (t *Tracer) IdleFor() time.Duration {
	return time.Duration(time.Now().UnixNano() - t.lastEmit.Load())
}

// Events returns a copy of the recorded events
func (t *Tracer) Events() []Event {
	t.mu.Lock()
	defer t.mu.Unlock()
	return append([]Event(nil), t.evs...)
}

// AppendTo appends the events as ndjson to the file
func (t *Tracer) AppendTo(path string, extra ...Event) error {
	f, err := os.OpenFile(path, os.O_CREATE|os.O_WRONLY|os.O_APPEND, 0o644)
	if err != nil {
		return err
	}
	w := bufio.NewWriter(f)
	enc := json.NewEncoder(w)
	for _, e := range t.Events() {
		if err := enc.Encode(e); err != nil {
			return err
		}
	}
	for _, e := range extra {
		if err := enc.Encode(e); err != nil {
			return err
		}
	}
	if err := w.Flush(); err != nil {
		return err
	}
	return f.Close()
}
