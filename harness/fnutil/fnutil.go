// Package fnutil has helpers shared by the function-level drivers: sharded case enumeration and ndjson event output
package fnutil

import (
	"bufio"
	"encoding/json"
	"flag"
	"os"
)

// Out writes ndjson events for the cases of one shard
type Out struct {
	Shard, Of int
	Seed      int64
	Tier      string
	n         int64 // cases enumerated so far
	Written   int64
	w         *bufio.Writer
	f         *os.File
}

// Open parses the common flags (-out -shard -of -seed -tier) and opens the output
func Open(name string, args []string, extra func(fs *flag.FlagSet)) *Out {
	fs := flag.NewFlagSet(name, flag.ExitOnError)
	out := fs.String("out", "", "ndjson output file")
	shard := fs.Int("shard", 0, "shard index")
	of := fs.Int("of", 1, "number of shards")
	seed := fs.Int64("seed", 1, "seed")
	tier := fs.String("tier", "quick", "quick|thorough")
	if extra != nil {
		extra(fs)
	}
	_ = fs.Parse(args)
	f, err := os.Create(*out)
	if err != nil {
		panic(err)
	}
	return &Out{Shard: *shard, Of: *of, Seed: *seed, Tier: *tier, w: bufio.NewWriterSize(f, 1<<20), f: f}
}

// Mine tells whether the next enumerated case belongs to this shard (call once per case, in enumeration order)
func (o *Out) Mine() bool {
	k := o.n
	o.n++
	return int(k%int64(o.Of)) == o.Shard
}

// Emit writes one event
func (o *Out) Emit(ev map[string]any) {
	b, err := json.Marshal(ev)
	if err != nil {
		panic(err)
	}
	o.w.Write(b)
	o.w.WriteByte('\n')
	o.Written++
}

// Close flushes and prints a summary line
func (o *Out) Close() {
	o.w.Flush()
	o.f.Close()
	b, _ := json.Marshal(map[string]any{"cases_enumerated": o.n, "events_written": o.Written})
	os.Stdout.Write(append(b, '\n'))
}

// Bytes converts a string to a slice of byte values (JSON array of small integers)
func Bytes(s string) []int {
	r := make([]int, len(s))
	for i := 0; i < len(s); i++ {
		r[i] = int(s[i])
	}
	return r
}

// Counter is a LogCustomCounterRegistry that counts per label
type Counter struct {
	Count map[string]int64
	Bytes map[string]int64
}

// NewCounter creates a Counter
func NewCounter() *Counter {
	return &Counter{Count: map[string]int64{}, Bytes: map[string]int64{}}
}

// RegisterCustomCounter implements base.LogCustomCounterRegistry
func (c *Counter) RegisterCustomCounter(label string) func(length int) {
	return func(length int) {
		c.Count[label]++
		c.Bytes[label] += int64(length)
	}
}
