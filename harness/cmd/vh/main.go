// Command vh is the verification harness: one binary, one sub-command per driver.
package main

import (
	"fmt"
	"os"

	"verifharness/drv/ag"
	"verifharness/drv/cf"
	"verifharness/drv/cfg"
	"verifharness/drv/dd"
	"verifharness/drv/ec"
	"verifharness/drv/fr"
	"verifharness/drv/frl"
	"verifharness/drv/fwd"
	"verifharness/drv/hb"
	"verifharness/drv/idg"
	"verifharness/drv/ip"
	"verifharness/drv/fc"
	"verifharness/drv/ls"
	"verifharness/drv/pk"
	"verifharness/drv/rb"
	"verifharness/drv/rbs"
	"verifharness/drv/re"
	"verifharness/drv/rl"
	"verifharness/drv/rp"
	"verifharness/drv/rt"
	"verifharness/drv/sy"
	"verifharness/drv/tf"
	"verifharness/drv/ts"
	"verifharness/drv/wk"
)

func main() {
	if len(os.Args) < 2 {
		fmt.Fprintln(os.Stderr, "usage: vh <driver> [flags]")
		os.Exit(2)
	}
	switch os.Args[1] {
	case "fwd":
		os.Exit(fwd.Main(os.Args[2:]))
	case "cf":
		os.Exit(cf.Main(os.Args[2:]))
	case "cf-victim":
		os.Exit(cf.VictimMain(os.Args[2:]))
	case "cf-recover":
		os.Exit(cf.RecoverMain(os.Args[2:]))
	case "ts":
		os.Exit(ts.Main(os.Args[2:]))
	case "re":
		os.Exit(re.Main(os.Args[2:]))
	case "sy":
		os.Exit(sy.Main(os.Args[2:]))
	case "fr":
		os.Exit(fr.Main(os.Args[2:]))
	case "frl":
		os.Exit(frl.Main(os.Args[2:]))
	case "pk":
		os.Exit(pk.Main(os.Args[2:]))
	case "ec":
		os.Exit(ec.Main(os.Args[2:]))
	case "ip":
		os.Exit(ip.Main(os.Args[2:]))
	case "wk":
		os.Exit(wk.Main(os.Args[2:]))
	case "rt":
		os.Exit(rt.Main(os.Args[2:]))
	case "ag-runmain":
		os.Exit(ag.RunMain(os.Args[2:]))
	case "ag":
		os.Exit(ag.Main(os.Args[2:]))
	case "rl":
		os.Exit(rl.Main(os.Args[2:]))
	case "tf":
		os.Exit(tf.Main(os.Args[2:]))
	case "cfg":
		os.Exit(cfg.Main(os.Args[2:]))
	case "cfg-child":
		os.Exit(cfg.ChildMain(os.Args[2:]))
	case "cfg-dump":
		os.Exit(cfg.DumpMain(os.Args[2:]))
	case "rp":
		os.Exit(rp.Main(os.Args[2:]))
	case "rb":
		os.Exit(rb.Main(os.Args[2:]))
	case "lb":
		os.Exit(rb.LabelsMain(os.Args[2:]))
	case "rbs":
		os.Exit(rbs.Main(os.Args[2:]))
	case "rbs-agent":
		os.Exit(rbs.AgentMain(os.Args[2:]))
	case "idg":
		os.Exit(idg.Main(os.Args[2:]))
	case "dd":
		os.Exit(dd.Main(os.Args[2:]))
	case "ls":
		os.Exit(ls.Main(os.Args[2:]))
	case "fc":
		os.Exit(fc.Main(os.Args[2:]))
	case "hb":
		os.Exit(hb.Main(os.Args[2:]))
	default:
		fmt.Fprintln(os.Stderr, "unknown driver", os.Args[1])
		os.Exit(2)
	}
}
