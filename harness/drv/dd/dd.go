// Package dd runs the real Datadog client (output/datadog.NewClientWorker: the shared baseoutput client over an HTTP
// "connection" whose Close is a no-op and whose acknowledgements are immediate and anonymous) against a scripted HTTP
// intake and records what the intake received and what the client told the buffer, for DatadogTrace.tla.
package dd

import (
	"encoding/json"
	"flag"
	"fmt"
	"io"
	"math/rand"
	"net"
	"net/http"
	"os"
	"sync"
	"time"

	"github.com/relex/gotils/channels"
	"github.com/relex/gotils/logger"
	"github.com/relex/gotils/promexporter/promreg"
	"github.com/relex/slog-agent/base"
	"github.com/relex/slog-agent/defs"
	"github.com/relex/slog-agent/output/datadog"

	"verifharness/vtrace"
)

// Script is one history
type Script struct {
	ID       string   `json:"id"`
	N        int      `json:"n"`        // chunks
	Status   []string `json:"status"`   // outcome of the k-th request: "200" "202" "299" "300" "404" "500" "hang" "reset"; then 200 for ever
	PushGap  []int    `json:"pushGap"`  // ms before the i-th push (cycled)
	StopAtMs int      `json:"stopAtMs"` // when the input is closed (after the last push if larger)
	Final    string   `json:"final"`    // what the intake answers after the scripted outcomes ("200" or "500")
	Drain    bool     `json:"drain"`    // wait (bounded) until every chunk was confirmed before the stop
	// the client's httpTimeout in ms (0 = 150); with a long one only the stop request can end a request the intake never answers
	HTTPTimeoutMs int `json:"httpTimeoutMs"`
}

func runScript(sc Script, no int) *vtrace.Tracer {
	tr := vtrace.New(1, false)
	tr.Emit("History", "n", sc.N, "script", sc.ID)
	var mu sync.Mutex
	reqNo := 0
	httpTimeout := 150 * time.Millisecond
	if sc.HTTPTimeoutMs > 0 {
		httpTimeout = time.Duration(sc.HTTPTimeoutMs) * time.Millisecond
	}
	hangFor := httpTimeout + 250*time.Millisecond
	srv := &http.Server{Handler: http.HandlerFunc(func(w http.ResponseWriter, r *http.Request) {
		body, _ := io.ReadAll(r.Body)
		mu.Lock()
		k := reqNo
		reqNo++
		mu.Unlock()
		out := sc.Final
		if k < len(sc.Status) {
			out = sc.Status[k]
		}
		var id int
		fmt.Sscanf(string(body), "chunk-%d", &id)
		switch out {
		case "hang":
			tr.Emit("ServerGot", "id", id, "status", 0, "how", "hang")
			select { // longer than the client's HTTP timeout, unless the client gives up first
			case <-r.Context().Done():
			case <-time.After(hangFor):
			}
			return
		case "reset":
			tr.Emit("ServerGot", "id", id, "status", 0, "how", "reset")
			if hj, ok := w.(http.Hijacker); ok {
				if c, _, err := hj.Hijack(); err == nil {
					_ = c.(*net.TCPConn).SetLinger(0)
					c.Close()
				}
			}
			return
		}
		var code int
		fmt.Sscanf(out, "%d", &code)
		// logged before the answer is written: the client may act on the answer at once
		tr.Emit("ServerGot", "id", id, "status", code, "how", "answer")
		w.WriteHeader(code)
		_, _ = w.Write([]byte("{}"))
	})}
	ln, err := net.Listen("tcp", "127.0.0.1:0")
	if err != nil {
		tr.Emit("HarnessError", "what", err.Error())
		return tr
	}
	go srv.Serve(ln)
	defer srv.Close()

	in := make(chan base.LogChunk, sc.N+1)
	closed := channels.NewSignalAwaitable()
	finished := make(chan struct{})
	args := base.ChunkConsumerArgs{
		InputChannel:    in,
		InputClosed:     closed,
		OnChunkConsumed: func(c base.LogChunk) { tr.Emit("Consumed", "id", idOf(c)) },
		OnChunkLeftover: func(c base.LogChunk) { tr.Emit("Leftover", "id", idOf(c)) },
		OnFinished:      func() { tr.Emit("Finished"); close(finished) },
	}
	mf := promreg.NewMetricFactory(fmt.Sprintf("dd%d_", no), nil, nil)
	w := datadog.NewClientWorker(logger.Root(), args, mf, datadog.UpstreamConfig{Address: "http://" + ln.Addr().String() + "/api/v2/logs", HTTPTimeout: httpTimeout})
	w.Start()
	start := time.Now()
	for i := 1; i <= sc.N; i++ {
		if len(sc.PushGap) > 0 {
			time.Sleep(time.Duration(sc.PushGap[(i-1)%len(sc.PushGap)]) * time.Millisecond)
		}
		tr.Emit("Push", "id", i)
		in <- base.LogChunk{ID: fmt.Sprintf("%019d-%08d.dd", 1, i), Data: []byte(fmt.Sprintf("chunk-%d", i)), Saved: false}
	}
	if d := time.Duration(sc.StopAtMs)*time.Millisecond - time.Since(start); d > 0 {
		time.Sleep(d)
	}
	if sc.Drain && sc.Final == "200" {
		deadline := time.Now().Add(6 * time.Second)
		for time.Now().Before(deadline) {
			n := 0
			for _, e := range tr.Events() {
				if e["ev"] == "Consumed" {
					n++
				}
			}
			if n >= sc.N {
				break
			}
			time.Sleep(10 * time.Millisecond)
		}
		tr.Emit("DrainWaited")
	}
	tr.Emit("Stop")
	t0 := time.Now()
	close(in)
	closed.Signal()
	select {
	case <-finished:
		tr.Emit("Stopped", "ms", time.Since(t0).Milliseconds())
	case <-time.After(8 * time.Second):
		tr.Emit("HUNG")
	}
	// what is still in the channel was never taken by the client (the buffer keeps it)
	left := []int{}
	for c := range in {
		left = append(left, idOf(c))
	}
	tr.Emit("Untaken", "ids", left)
	return tr
}

func idOf(c base.LogChunk) int {
	var ep, id int
	fmt.Sscanf(c.ID, "%d-%d.dd", &ep, &id)
	return id
}

// RandomScript makes a seeded history
func RandomScript(id string, rnd *rand.Rand) Script {
	outs := []string{"200", "200", "202", "299", "300", "404", "500", "500", "hang", "reset"}
	sc := Script{ID: id, N: 2 + rnd.Intn(6), Final: "200", StopAtMs: rnd.Intn(900)}
	for k := 0; k < rnd.Intn(7); k++ {
		sc.Status = append(sc.Status, outs[rnd.Intn(len(outs))])
	}
	if rnd.Intn(5) == 0 {
		sc.Final = "500"
	}
	sc.Drain = rnd.Intn(3) == 0
	for k := 0; k < 1+rnd.Intn(3); k++ {
		sc.PushGap = append(sc.PushGap, []int{0, 0, 5, 40, 120}[rnd.Intn(5)])
	}
	return sc
}

// Main is the entry point of `vh dd`: runs the scripts of a JSON file and appends the traces (separated by RESET)
func Main(args []string) int {
	fs := flag.NewFlagSet("dd", flag.ExitOnError)
	scripts := fs.String("scripts", "", "json file with the scripts")
	out := fs.String("out", "", "ndjson output")
	_ = fs.Parse(args)
	logger.SetLogLevel(logger.FatalLevel)
	defs.EnableTestMode()
	defs.ForwarderRetryInterval = 20 * time.Millisecond
	defs.ForwarderBatchAckTimeout = 250 * time.Millisecond
	defs.ForwarderBatchSendTimeoutBase = 250 * time.Millisecond
	defs.ForwarderAckerStopTimeout = 400 * time.Millisecond
	defs.ForwarderMaxPendingChunksForAck = 3
	var list []Script
	data, _ := os.ReadFile(*scripts)
	if err := json.Unmarshal(data, &list); err != nil {
		fmt.Fprintln(os.Stderr, err)
		return 2
	}
	_ = os.Remove(*out)
	for i, sc := range list {
		tr := runScript(sc, i)
		_ = tr.AppendTo(*out, vtrace.Event{"ev": "RESET"})
	}
	return 0
}
