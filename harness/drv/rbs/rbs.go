// Package rbs decides the stream-level half of C07 on the real agent: the agent runs in a child process (real loader, TCP
// listener, orchestrator, pipelines; the forwarders are replaced by collectors that report which sentinel records came
// out); the parent plays TCP byte streams against it - garbage, over-long lines, resets at every phase, many
// disconnects, hostile key-field values - and after each script requires: the process is alive, a new connection is
// accepted, and every sentinel sent (before, inside and after the bad input) was delivered by every output.
package rbs

import (
	"bufio"
	"bytes"
	"encoding/json"
	"flag"
	"fmt"
	"math/rand"
	"net"
	"os"
	"os/exec"
	"path/filepath"
	"regexp"
	"strings"
	"sync"
	"syscall"
	"time"

	"github.com/relex/gotils/channels"
	"github.com/relex/gotils/logger"
	"github.com/relex/slog-agent/base"
	"github.com/relex/slog-agent/defs"
	"github.com/relex/slog-agent/run"

	"verifharness/drv/cfg"
	"verifharness/fnutil"
)

var sentRe = regexp.MustCompile(`S(\d{6})S`)

type reporter struct {
	mu  sync.Mutex
	enc *json.Encoder
}

func (r *reporter) emit(m map[string]any) {
	r.mu.Lock()
	defer r.mu.Unlock()
	_ = r.enc.Encode(m)
}

type worker struct {
	r       *reporter
	name    string
	dec     base.ChunkDecoder
	args    base.ChunkConsumerArgs
	stopped *channels.SignalAwaitable
}

func (w *worker) Start()                      { go w.run() }
func (w *worker) Stopped() channels.Awaitable { return w.stopped }
func (w *worker) run() {
	defer w.args.OnFinished()
	defer w.stopped.Signal()
	for {
		select {
		case chunk, ok := <-w.args.InputChannel:
			if !ok {
				return
			}
			w.scan(chunk)
			w.args.OnChunkConsumed(chunk)
		case <-w.args.InputClosed.Channel():
			return
		}
	}
}

// scan reports the sentinel tokens in the decoded chunk
func (w *worker) scan(chunk base.LogChunk) {
	var buf bytes.Buffer
	if _, err := w.dec.DecodeChunkToJSON(chunk, []byte(","), false, &buf); err != nil {
		w.r.emit(map[string]any{"ev": "undecodable", "out": w.name, "what": err.Error()})
	}
	toks := []int{}
	for _, m := range sentRe.FindAllSubmatch(buf.Bytes(), -1) {
		var n int
		fmt.Sscanf(string(m[1]), "%d", &n)
		toks = append(toks, n)
	}
	if len(toks) > 0 {
		w.r.emit(map[string]any{"ev": "delivered", "out": w.name, "toks": toks})
	}
}

// AgentMain is the child process
func AgentMain(args []string) int {
	fs := flag.NewFlagSet("rbs-agent", flag.ExitOnError)
	conf := fs.String("conf", "", "configuration file")
	nofile := fs.Uint64("nofile", 160, "RLIMIT_NOFILE (soft)")
	_ = fs.Parse(args)
	logger.SetLogLevel(logger.FatalLevel)
	var lim syscall.Rlimit
	if syscall.Getrlimit(syscall.RLIMIT_NOFILE, &lim) == nil {
		lim.Cur = *nofile
		_ = syscall.Setrlimit(syscall.RLIMIT_NOFILE, &lim)
	}
	defs.EnableTestMode()
	defs.IntermediateFlushInterval = 30 * time.Millisecond
	defs.InputFlushInterval = 30 * time.Millisecond
	defs.BufferMaxNumChunksInQueue = 1000
	defs.BufferShutDownTimeout = 2 * time.Second
	rep := &reporter{enc: json.NewEncoder(os.Stdout)}
	ld, err := run.NewLoaderFromConfigFile(*conf, "rbs_")
	if err != nil {
		rep.emit(map[string]any{"ev": "error", "what": err.Error()})
		return 3
	}
	ld.PipelineArgs.NewConsumerOverride = func(parentLogger logger.Logger, name string, dec base.ChunkDecoder, cargs base.ChunkConsumerArgs) base.ChunkConsumer {
		return &worker{r: rep, name: name, dec: dec, args: cargs, stopped: channels.NewSignalAwaitable()}
	}
	orc := ld.StartOrchestrator(logger.Root())
	addrs, shutdownInputs := ld.LaunchInputs(orc)
	rep.emit(map[string]any{"ev": "listening", "addr": addrs[0], "outputs": len(ld.Config.OutputBuffersPairs)})
	// run until stdin is closed
	_, _ = bufio.NewReader(os.Stdin).ReadString('\x04')
	shutdownInputs()
	orc.Shutdown()
	rep.emit(map[string]any{"ev": "exit"})
	return 0
}

// child is the parent's handle of a running agent
type child struct {
	cmd         *exec.Cmd
	stdin       interface{ Close() error }
	addr        string
	outputs     int
	mu          sync.Mutex
	delivered   map[int]map[string]bool
	undecodable int
	exited      chan struct{}
	exitErr     error
	stderr      *strings.Builder
}

func startChild(conf string) (*child, error) {
	c := &child{delivered: map[int]map[string]bool{}, exited: make(chan struct{}), stderr: &strings.Builder{}}
	c.cmd = exec.Command(os.Args[0], "rbs-agent", "-conf", conf)
	c.cmd.Env = append(os.Environ(), "DD_API_KEY=x")
	in, _ := c.cmd.StdinPipe()
	c.stdin = in
	out, _ := c.cmd.StdoutPipe()
	c.cmd.Stderr = &headWriter{sb: c.stderr}
	if err := c.cmd.Start(); err != nil {
		return nil, err
	}
	ready := make(chan error, 1)
	go func() {
		sc := bufio.NewScanner(out)
		sc.Buffer(make([]byte, 1<<20), 1<<26)
		for sc.Scan() {
			var ev map[string]any
			if json.Unmarshal(sc.Bytes(), &ev) != nil {
				continue
			}
			switch ev["ev"] {
			case "listening":
				c.addr = ev["addr"].(string)
				c.outputs = int(ev["outputs"].(float64))
				ready <- nil
			case "error":
				ready <- fmt.Errorf("%v", ev["what"])
			case "undecodable":
				c.mu.Lock()
				c.undecodable++
				c.mu.Unlock()
			case "delivered":
				c.mu.Lock()
				for _, t := range ev["toks"].([]any) {
					n := int(t.(float64))
					if c.delivered[n] == nil {
						c.delivered[n] = map[string]bool{}
					}
					c.delivered[n][ev["out"].(string)] = true
				}
				c.mu.Unlock()
			}
		}
		c.exitErr = c.cmd.Wait()
		close(c.exited)
	}()
	select {
	case err := <-ready:
		if err != nil {
			return nil, err
		}
	case <-c.exited:
		return nil, fmt.Errorf("agent exited at start: %v %s", c.exitErr, c.stderr.String())
	case <-time.After(10 * time.Second):
		return nil, fmt.Errorf("agent did not start")
	}
	return c, nil
}

func (c *child) alive() bool {
	select {
	case <-c.exited:
		return false
	default:
		return true
	}
}

func (c *child) fds() int {
	l, err := os.ReadDir(fmt.Sprintf("/proc/%d/fd", c.cmd.Process.Pid))
	if err != nil {
		return -1
	}
	return len(l)
}

// waitDelivered waits until every token was delivered by every output; returns the number of tokens fully delivered
func (c *child) waitDelivered(toks []int, d time.Duration) int {
	deadline := time.Now().Add(d)
	for {
		n := 0
		c.mu.Lock()
		for _, t := range toks {
			if len(c.delivered[t]) >= c.outputs {
				n++
			}
		}
		c.mu.Unlock()
		if n == len(toks) || time.Now().After(deadline) || !c.alive() {
			return n
		}
		time.Sleep(5 * time.Millisecond)
	}
}

func (c *child) stop() {
	_ = c.stdin.Close()
	select {
	case <-c.exited:
	case <-time.After(8 * time.Second):
		_ = c.cmd.Process.Kill()
		<-c.exited
	}
}

type headWriter struct{ sb *strings.Builder }

func (t *headWriter) Write(p []byte) (int, error) {
	if t.sb.Len() < 6000 {
		t.sb.Write(p)
	}
	return len(p), nil
}

// script context
type ctx struct {
	c     *child
	rnd   *rand.Rand
	next  *int
	toks  []int
	fails []string
}

func (x *ctx) sentinel() []byte {
	*x.next++
	x.toks = append(x.toks, *x.next)
	return []byte(fmt.Sprintf("<134>1 2020-07-20T03:48:20Z sent-host sentapp 1 src.log - SENTINEL S%06dS payload\n", *x.next))
}

func (x *ctx) dial() net.Conn {
	conn, err := net.DialTimeout("tcp", x.c.addr, 2*time.Second)
	if err != nil {
		x.fails = append(x.fails, "dial: "+err.Error())
		return nil
	}
	return conn
}

// send writes on a fresh connection and closes it (reset = abortive close)
func (x *ctx) send(data []byte, reset bool) {
	conn := x.dial()
	if conn == nil {
		return
	}
	_ = conn.SetWriteDeadline(time.Now().Add(10 * time.Second))
	_, _ = conn.Write(data)
	if reset {
		_ = conn.(*net.TCPConn).SetLinger(0)
	}
	conn.Close()
}

type script struct {
	name string
	run  func(x *ctx)
}

func validLine(host, app, msg string) string {
	return fmt.Sprintf("<134>1 2020-07-20T03:48:20.154Z %s %s 101 main.log - %s\n", host, app, msg)
}

func scripts(thorough bool) []script {
	var l []script
	add := func(name string, f func(x *ctx)) { l = append(l, script{name, f}) }
	add("plain", func(x *ctx) { x.send(x.sentinel(), false) })
	add("garbage-binary", func(x *ctx) {
		var b bytes.Buffer
		b.Write(x.sentinel())
		g := make([]byte, 200000)
		x.rnd.Read(g)
		b.Write(g)
		b.WriteByte('\n')
		b.Write(x.sentinel())
		x.send(b.Bytes(), false)
	})
	add("garbage-printable-heads", func(x *ctx) {
		var b bytes.Buffer
		b.Write(x.sentinel())
		for _, h := range []string{"<", "<>", "<1", "<13>", "<13>1", "<13>1 ", "<999>1 - - - - - -", "<13>2 2020-07-20T03:48:20Z h a p m - x", "<-1>1 2020-07-20T03:48:20Z h a p m - x padding padding", "<13>1  \x00 - - - - - - - - - - - - - - - - - -", "\x00\x00\x00", "\xff\xfe", "<13>1 2020-07-20T03:48:20Z h a p m [ x padding padding padding", "<13>1 2020-07-20T03:48:20Z h a p m [a=\"] x padding padding"} {
			b.WriteString(h + "\n")
		}
		b.Write(x.sentinel())
		x.send(b.Bytes(), false)
	})
	for _, n := range []int{defs.InputLogMaxRecordBytes - 1, defs.InputLogMaxRecordBytes, defs.InputLogMaxRecordBytes + 1, defs.ListenerLineBufferSize - 1, defs.ListenerLineBufferSize, defs.ListenerLineBufferSize + 1, 3 * defs.ListenerLineBufferSize / 2} {
		n := n
		add(fmt.Sprintf("long-line-%d", n), func(x *ctx) {
			var b bytes.Buffer
			b.Write(x.sentinel())
			b.WriteString("<134>1 2020-07-20T03:48:20Z h a 1 m - ")
			b.Write(bytes.Repeat([]byte("L"), n))
			b.WriteByte('\n')
			b.Write(x.sentinel())
			x.send(b.Bytes(), false)
		})
		add(fmt.Sprintf("long-garbage-line-%d", n), func(x *ctx) {
			var b bytes.Buffer
			b.Write(x.sentinel())
			b.Write(bytes.Repeat([]byte("\xff"), n))
			b.WriteByte('\n')
			b.Write(x.sentinel())
			x.send(b.Bytes(), false)
		})
	}
	for f, name := range map[int]string{2: "host", 3: "app", 5: "msgid", 4: "pid", 1: "time"} {
		f, name := f, name
		add("3MB-"+name, func(x *ctx) {
			fields := []string{"<134>1", "2020-07-20T03:48:20Z", "h", "a", "1", "m", "-", "msg"}
			fields[f] = strings.Repeat("h", 3*1024*1024)
			var b bytes.Buffer
			b.Write(x.sentinel())
			b.WriteString(strings.Join(fields, " ") + "\n")
			b.Write(x.sentinel())
			x.send(b.Bytes(), false)
		})
	}
	add("reset-at-every-offset", func(x *ctx) {
		line := []byte(validLine("web01", "appServ", "a message that will be cut"))
		for k := 0; k <= len(line); k += 3 {
			x.send(line[:k], true)
		}
		x.send(x.sentinel(), false)
	})
	add("reset-after-sentinel-same-connection", func(x *ctx) {
		// the record is complete (newline sent); an abortive close after it must not lose it once it was read - wait first
		conn := x.dial()
		if conn == nil {
			return
		}
		s := x.sentinel()
		_, _ = conn.Write(s)
		x.c.waitDelivered(x.toks, 3*time.Second)
		_, _ = conn.Write([]byte("<134>1 2020-07-20T03:48:20Z partial"))
		_ = conn.(*net.TCPConn).SetLinger(0)
		conn.Close()
	})
	add("half-open-and-empty", func(x *ctx) {
		for i := 0; i < 20; i++ {
			x.send(nil, i%2 == 0)
			x.send([]byte("<"), i%2 == 1)
			x.send([]byte("\n\n\n"), false)
		}
		x.send(x.sentinel(), false)
	})
	add("no-newline-at-close", func(x *ctx) {
		s := x.sentinel()
		x.send(s[:len(s)-1], false)
	})
	add("crlf", func(x *ctx) {
		s := x.sentinel()
		x.send(append(append(append([]byte{}, s[:len(s)-1]...), '\r', '\n'), x.sentinel()...), false)
	})
	add("slow-drip", func(x *ctx) {
		conn := x.dial()
		if conn == nil {
			return
		}
		s := x.sentinel()
		for i := 0; i < len(s); i += 7 {
			end := i + 7
			if end > len(s) {
				end = len(s)
			}
			_, _ = conn.Write(s[i:end])
			time.Sleep(6 * time.Millisecond)
		}
		conn.Close()
	})
	add("hostile-key-fields", func(x *ctx) {
		var b bytes.Buffer
		b.Write(x.sentinel())
		vals := []string{"..", ".", "a/b", "/", "//", "a/", "\x00", "a\x00b", strings.Repeat("k", 300), strings.Repeat("k", 5000), "\xff", "a\xc3", "%2F", "con", "\\", "a\\b", "\"", "a b", "$app", "${app}", "*", "?", "~", "-", "\t", "\r", "\x1b", "\xe2\x80\xae", "..\\..", strings.Repeat("../", 40) + "etc"}
		for _, v := range vals {
			b.WriteString(validLine(v, "appServ", "host is hostile"))
			b.WriteString(validLine("web01", v, "app is hostile"))
			b.WriteString(fmt.Sprintf("<134>1 2020-07-20T03:48:20.154Z web01 appServ 101 %s - msgid is hostile\n", v))
			b.WriteString(fmt.Sprintf("<134>1 2020-07-20T03:48:20.154Z web01 appServ/%s 101 main.log - vhost is hostile\n", v))
			b.WriteString(fmt.Sprintf("<134>1 2020-07-20T03:48:20.154Z web01 appServ 101 t.log:%s - task is hostile\n", v))
		}
		b.Write(x.sentinel())
		x.send(b.Bytes(), false)
	})
	add("field-value-classes", func(x *ctx) {
		var b bytes.Buffer
		b.Write(x.sentinel())
		vals := []string{"", "-", " ", "\\", "a\\", "\\n\\", "\"", "<", ">", "]", "[", "=", "@", "a@b.c", "\xff", "\xc3", "\xed\xa0\x80", "\x00", strings.Repeat("a", 256), strings.Repeat("\\", 301), "2020-07-20T03:48:20.", "2020-07-20T03:48:20+99:99", "99999999999999999999", "POST /x params=" + strings.Repeat("q", 300), "[Cls ] - x"}
		base9 := []string{"<134>1", "2020-07-20T03:48:20.154Z", "web01", "appServ", "101", "main.log", "-", "a message of the usual kind, long enough"}
		for f := range base9 {
			for _, v := range vals {
				fs := append([]string{}, base9...)
				fs[f] = v
				b.WriteString(strings.Join(fs, " ") + "\n")
			}
		}
		b.Write(x.sentinel())
		x.send(b.Bytes(), false)
	})
	add("concurrent-garbage", func(x *ctx) {
		var wg sync.WaitGroup
		datas := [][]byte{}
		for i := 0; i < 8; i++ {
			var b bytes.Buffer
			b.Write(x.sentinel())
			g := make([]byte, 50000)
			x.rnd.Read(g)
			b.Write(g)
			b.WriteByte('\n')
			b.WriteString(validLine("web01", "appServ", "between"))
			b.Write(x.sentinel())
			datas = append(datas, b.Bytes())
		}
		for i, d := range datas {
			wg.Add(1)
			go func(i int, d []byte) {
				defer wg.Done()
				conn, err := net.DialTimeout("tcp", x.c.addr, 2*time.Second)
				if err != nil {
					return
				}
				_, _ = conn.Write(d)
				if i%3 == 0 {
					_ = conn.(*net.TCPConn).SetLinger(0)
					// an abortive close may discard what the agent has not read yet: sentinels of this stream are not required
				}
				conn.Close()
			}(i, d)
		}
		wg.Wait()
		// drop the requirement for the sentinels of the reset connections (every third)
		keep := []int{}
		for i, t := range x.toks {
			if (i/2)%3 != 0 {
				keep = append(keep, t)
			}
		}
		x.toks = keep
		x.send(x.sentinel(), false)
	})
	cycles := 400
	if thorough {
		cycles = 1500
	}
	add("many-disconnects", func(x *ctx) {
		// more client-initiated disconnects than the agent has file descriptors
		for i := 0; i < cycles; i++ {
			conn, err := net.DialTimeout("tcp", x.c.addr, 2*time.Second)
			if err != nil {
				x.fails = append(x.fails, fmt.Sprintf("dial %d: %v", i, err))
				break
			}
			if i%40 == 0 {
				_, _ = conn.Write(x.sentinel())
			} else if i%3 == 0 {
				_, _ = conn.Write([]byte("<134>1 2020-07-20T03:48:20Z partial"))
			}
			conn.Close()
			if i%50 == 49 {
				time.Sleep(20 * time.Millisecond)
			}
		}
		x.send(x.sentinel(), false)
	})
	return l
}

func prepareSample(sample, root string) (string, error) {
	data, err := os.ReadFile(sample)
	if err != nil {
		return "", err
	}
	s := string(data)
	s = strings.Replace(s, "address: localhost:5140", "address: localhost:0", 1)
	s = strings.Replace(s, "rootPath: /tmp/slog-buffer-fluentd", "rootPath: "+root+"/qf", 1)
	s = strings.Replace(s, "rootPath: /tmp/slog-buffer-datadog", "rootPath: "+root+"/qd", 1)
	if !strings.Contains(s, root+"/qf") || !strings.Contains(s, "localhost:0") {
		return "", fmt.Errorf("sample configuration has an unexpected shape")
	}
	p := filepath.Join(root, "sample.yml")
	return p, os.WriteFile(p, []byte(s), 0o644)
}

// Main plays the scripts of this shard against child agents
func Main(args []string) int {
	var work, sample *string
	o := fnutil.Open("rbs", args, func(fs *flag.FlagSet) {
		work = fs.String("work", "", "scratch dir")
		sample = fs.String("sample", "", "path of the repository's testdata/config_sample.yml")
	})
	root := filepath.Join(*work, fmt.Sprintf("rbs-%d", o.Shard))
	_ = os.RemoveAll(root)
	_ = os.MkdirAll(root, 0o755)
	defer os.RemoveAll(root)
	confs := []string{}
	if *sample != "" {
		p, err := prepareSample(*sample, root)
		if err != nil {
			o.Emit(map[string]any{"ev": "HarnessError", "what": err.Error()})
		} else {
			confs = append(confs, p)
		}
	}
	c2 := filepath.Join(root, "base.yml")
	_ = os.WriteFile(c2, []byte(cfg.BaseYAML(root)), 0o644)
	confs = append(confs, c2)
	rnd := rand.New(rand.NewSource(o.Seed))
	next := 0
	for ci, cf := range confs {
		var c *child
		for _, sc := range scripts(o.Tier == "thorough") {
			if !o.Mine() {
				continue
			}
			if c == nil || !c.alive() {
				var err error
				c, err = startChild(cf)
				if err != nil {
					o.Emit(map[string]any{"ev": "HarnessError", "what": err.Error()})
					break
				}
			}
			fd0 := c.fds()
			x := &ctx{c: c, rnd: rnd, next: &next}
			sc.run(x)
			got := c.waitDelivered(x.toks, 6*time.Second)
			alive := c.alive()
			// the listener accepts a new connection and delivers its record
			after := &ctx{c: c, rnd: rnd, next: &next}
			acceptsAfter := false
			if alive {
				after.send(after.sentinel(), false)
				acceptsAfter = len(after.fails) == 0 && c.waitDelivered(after.toks, 4*time.Second) == 1
			}
			time.Sleep(50 * time.Millisecond)
			fd1 := c.fds()
			ev := map[string]any{"ev": "Stream", "conf": ci, "script": sc.name, "sentinelsSent": len(x.toks), "sentinelsDelivered": got, "alive": c.alive(), "acceptsAfter": acceptsAfter,
				"fdBefore": fd0, "fdAfter": fd1, "fdBound": fdBound(sc.name), "dialFailures": len(x.fails), "undecodable": c.undecodable}
			if !c.alive() {
				d := c.stderr.String()
				if len(d) > 1500 {
					d = d[:1500]
				}
				ev["detail"] = d
			} else if len(x.fails) > 0 {
				ev["detail"] = x.fails[0]
			}
			o.Emit(ev)
		}
		if c != nil && c.alive() {
			c.stop()
			o.Emit(map[string]any{"ev": "Stopped", "conf": ci, "clean": c.exitErr == nil})
		}
	}
	o.Close()
	return 0
}

// fdBound is the growth of open file descriptors allowed over a script that opens many connections and no new key sets
func fdBound(script string) int {
	switch script {
	case "many-disconnects", "half-open-and-empty", "reset-at-every-offset":
		return 12
	}
	return -1
}
