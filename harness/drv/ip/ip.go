// Package ip replays scripts (sequences of listener calls: a line the parser passes or refuses, flush, close, a pause of
// one flush interval) on the real input path - bsupport.NewLogParsingReceiver in front of the real byKeySet orchestrator
// with its per-connection buffers - and records, after every call, every batch that has arrived on every pipeline
// channel. InputPathTrace.tla applies the same call to the model and compares. Everything runs on one goroutine: the
// pipeline channels are given room and are drained by the driver itself after each call, so a run is deterministic but
// for the wall clock, which the driver checks (a run whose non-pause steps take a noticeable part of the flush interval
// is not judged).
package ip

import (
	"bufio"
	"encoding/json"
	"flag"
	"fmt"
	"os"
	"strconv"
	"strings"
	"time"

	"github.com/relex/gotils/logger"
	"github.com/relex/gotils/promexporter/promreg"
	"github.com/relex/slog-agent/base"
	"github.com/relex/slog-agent/base/bsupport"
	"github.com/relex/slog-agent/defs"
	"github.com/relex/slog-agent/orchestrate/obykeyset"

	"verifharness/vtrace"
)

// Op is one call
type Op struct {
	Do string `json:"do"` // accept | refused | flush | close | advance
	C  int    `json:"c"`
	K  string `json:"k"`
	Sz int    `json:"sz"`
}

// Script is one scenario
type Script struct {
	ID       string   `json:"id"`
	Keys     []string `json:"keys"`
	MaxLogs  int      `json:"maxLogs"`
	MaxBytes int      `json:"maxBytes"`
	Ops      []Op     `json:"ops"`
}

const interval = 100 * time.Millisecond

var schema = base.MustNewLogSchema([]string{"key", "msg"})

// lineParser is the harness's parser: "<key>|<size>|<id>" becomes a record, "refused" is refused
type lineParser struct{}

func (lineParser) Parse(input []byte, _ time.Time) *base.LogRecord {
	parts := strings.Split(string(input), "|")
	if len(parts) != 3 {
		return nil
	}
	sz, _ := strconv.Atoi(parts[1])
	rec := schema.NewTestRecord1(base.LogFields{parts[0], parts[2]})
	rec.RawLength = sz
	return rec
}

type pipe struct {
	id string
	ch <-chan []*base.LogRecord
}

var runNo int

// RunScript executes one script
func RunScript(sc Script) *vtrace.Tracer {
	runNo++
	tr := vtrace.New(1, false)
	defs.IntermediateBufferMaxNumLogs = sc.MaxLogs
	defs.IntermediateBufferMaxTotalBytes = sc.MaxBytes
	defs.IntermediateFlushInterval = interval
	defs.IntermediateBufferedChannelSize = 256 // no send of a script ever waits for a reader
	var pipes []*pipe
	stops := []func(){}
	start := func(_ logger.Logger, _ promreg.MetricCreator, input <-chan []*base.LogRecord, bufferID string, _ string, onStopped func()) {
		pipes = append(pipes, &pipe{bufferID, input})
		stops = append(stops, onStopped)
	}
	mf := promreg.NewMetricFactory(fmt.Sprintf("ip%d_", runNo), nil, nil)
	orc := obykeyset.NewOrchestrator(logger.Root(), schema, []string{"key"}, "t.$key", mf, start, nil)
	recv := bsupport.NewLogParsingReceiver(logger.Root(), func(logger.Logger, *base.LogInputCounterSet) base.LogParser { return lineParser{} }, orc, mf)
	sinks := map[int]base.MessageReceiverSink{}
	sink := func(c int) base.MessageReceiverSink {
		if s, ok := sinks[c]; ok {
			return s
		}
		s := recv.NewSink(fmt.Sprintf("conn%d", c), base.ClientNumber(c))
		sinks[c] = s
		return s
	}
	out := map[string][][]int{}
	for _, k := range sc.Keys {
		out[k] = [][]int{}
	}
	drain := func() {
		for _, p := range pipes {
			for {
				select {
				case b, ok := <-p.ch:
					if !ok {
						goto next
					}
					ids := []int{}
					for _, r := range b {
						n, _ := strconv.Atoi(r.Fields[1])
						ids = append(ids, n)
					}
					out[p.id] = append(out[p.id], ids)
					continue
				default:
				}
				break
			}
		next:
		}
	}
	snapshot := func() (map[string][][]int, []string) {
		o := map[string][][]int{}
		for k, v := range out {
			o[k] = append([][]int{}, v...)
		}
		ps := []string{}
		for _, p := range pipes {
			ps = append(ps, p.id)
		}
		return o, ps
	}
	nextID := 0
	epoch := time.Now()
	worst := time.Duration(0)
	for _, op := range sc.Ops {
		kv := []any{"c", op.C}
		func() {
			defer func() {
				if r := recover(); r != nil {
					tr.Emit("Panic", "op", op.Do, "what", fmt.Sprint(r))
				}
			}()
			switch op.Do {
			case "accept":
				nextID++
				sink(op.C).Accept([]byte(fmt.Sprintf("%s|%d|%d", op.K, op.Sz, nextID)))
				kv = append(kv, "k", op.K, "sz", op.Sz)
			case "refused":
				sink(op.C).Accept([]byte("refused"))
			case "flush":
				sink(op.C).Flush()
			case "close":
				s := sink(op.C)
				s.Flush() // the listener's contract: a connection ends with Flush, then Close
				s.Close()
				delete(sinks, op.C)
			case "advance":
				if d := time.Since(epoch); d > worst {
					worst = d
				}
				time.Sleep(interval + 30*time.Millisecond)
				epoch = time.Now()
			}
		}()
		drain()
		o, ps := snapshot()
		kv = append(kv, "out", o, "pipes", ps)
		name := map[string]string{"accept": "Accept", "refused": "Refused", "flush": "Flush", "close": "Close", "advance": "Advance"}[op.Do]
		tr.Emit(name, kv...)
	}
	if d := time.Since(epoch); d > worst {
		worst = d
	}
	// the wall clock: between two pauses everything has to fit well inside one flush interval, otherwise the model's
	// "no time passes" does not describe this run
	tr.Emit("Timing", "valid", worst < interval/2, "worstMs", worst.Milliseconds())
	// end: close what is still open, shut the orchestrator down (it closes the channels and waits for the pipelines)
	for c, s := range sinks {
		_ = c
		s.Flush()
		s.Close()
	}
	done := make(chan struct{})
	go func() {
		for i, p := range pipes {
			for range p.ch {
			}
			stops[i]()
		}
		close(done)
	}()
	orc.Shutdown()
	<-done
	return tr
}

// Main is the entry point of `vh ip`
func Main(args []string) int {
	fs := flag.NewFlagSet("ip", flag.ExitOnError)
	scriptsPath := fs.String("scripts", "", "ndjson scripts")
	outPath := fs.String("out", "", "ndjson trace")
	_ = fs.Parse(args)
	logger.SetLogLevel(logger.FatalLevel)
	f, err := os.Open(*scriptsPath)
	if err != nil {
		fmt.Fprintln(os.Stderr, err)
		return 2
	}
	defer f.Close()
	_ = os.Remove(*outPath)
	scan := bufio.NewScanner(f)
	scan.Buffer(make([]byte, 1<<20), 1<<24)
	n := 0
	for scan.Scan() {
		var sc Script
		if json.Unmarshal(scan.Bytes(), &sc) != nil {
			continue
		}
		tr := RunScript(sc)
		_ = tr.AppendTo(*outPath, vtrace.Event{"ev": "RESET", "script": sc.ID})
		n++
	}
	fmt.Printf("{\"scripts\":%d}\n", n)
	return 0
}
