// Package fwd drives the real baseoutput.ClientWorker with a scripted fake connection and records a trace
// for ForwarderTrace.tla. One process runs its scripts sequentially (vhook.Emit is process-global).
package fwd

import (
	"bufio"
	"encoding/json"
	"errors"
	"flag"
	"fmt"
	"os"
	"os/signal"
	"sync"
	"syscall"
	"time"

	"github.com/relex/gotils/channels"
	"github.com/relex/gotils/logger"
	"github.com/relex/gotils/promexporter/promreg"
	"github.com/relex/slog-agent/base"
	"github.com/relex/slog-agent/defs"
	"github.com/relex/slog-agent/output/baseoutput"
	"github.com/relex/slog-agent/util/vhook"

	"verifharness/vmetrics"
	"verifharness/vtrace"
)

// EnvAction is one environment action, performed when the trace has reached `At` events (or the system is idle)
type EnvAction struct {
	At    int64  `json:"at"`
	Do    string `json:"do"`    // feed | stop | steal | usr1
	After string `json:"after"` // wait until the trace has Nth events of this name (then At / idle as usual)
	Nth   int    `json:"nth"`
}

// Script is the environment's half of a behaviour
type Script struct {
	ID       string      `json:"id"`
	Seed     int64       `json:"seed"`
	Jitter   bool        `json:"jitter"`
	InOrder  bool        `json:"inorder"`  // connection acknowledges in order with an empty id
	MaxDurMs int         `json:"maxDurMs"` // max session age (0 = none)
	Dial     []string    `json:"dial"`     // ok | fail
	Send     []string    `json:"send"`     // ok | err | errgot | block
	Ack      []string    `json:"ack"`      // ack | other | garbage | err | block
	Ping     []string    `json:"ping"`     // ok | err
	Env      []EnvAction `json:"env"`
}

type outcomes struct {
	mu   sync.Mutex
	list []string
	def  string
}

func (o *outcomes) next() string {
	o.mu.Lock()
	defer o.mu.Unlock()
	if len(o.list) == 0 {
		return o.def
	}
	r := o.list[0]
	o.list = o.list[1:]
	return r
}

type run struct {
	tr                    *vtrace.Tracer
	dial, send, ack, ping *outcomes
	inorder               bool
	connMu                sync.Mutex
	connNo                int
}

type fakeConn struct {
	no     int
	r      *run
	closed chan struct{}
	once   sync.Once
	mu     sync.Mutex // Close and every "ok" result are logged under this mutex
	recv   []string   // received completely by the upstream, not yet acknowledged
}

func (c *fakeConn) Logger() logger.Logger { return logger.WithField("conn", c.no) }
func (c *fakeConn) isClosed() bool {
	select {
	case <-c.closed:
		return true
	default:
		return false
	}
}

func (c *fakeConn) waitClosedOr(deadline time.Time) {
	d := time.Until(deadline)
	if d < 0 {
		d = 0
	}
	tm := time.NewTimer(d)
	defer tm.Stop()
	select {
	case <-c.closed:
	case <-tm.C:
	}
}

func (c *fakeConn) SendChunk(chunk base.LogChunk, deadline time.Time) error {
	tr := c.r.tr
	slowReturn := false
	defer func() {
		if slowReturn {
			time.Sleep(3 * time.Millisecond)
		}
	}()
	if c.isClosed() {
		tr.Emit("SendEnd", "id", chunk.ID, "out", "err", "conn", c.no, "got", false)
		return errors.New("closed")
	}
	switch c.r.send.next() {
	case "err":
		tr.Emit("SendEnd", "id", chunk.ID, "out", "err", "conn", c.no, "got", false)
		return errors.New("send error")
	case "errgot": // the upstream received it completely but the client sees an error
		c.mu.Lock()
		if c.isClosed() {
			c.mu.Unlock()
			tr.Emit("SendEnd", "id", chunk.ID, "out", "err", "conn", c.no, "got", false)
			return errors.New("closed")
		}
		c.recv = append(c.recv, chunk.ID)
		tr.Emit("SendEnd", "id", chunk.ID, "out", "err", "conn", c.no, "got", true)
		c.mu.Unlock()
		return errors.New("send error after delivery")
	case "block":
		c.waitClosedOr(deadline)
		tr.Emit("SendEnd", "id", chunk.ID, "out", "err", "conn", c.no, "got", false)
		return errors.New("send timeout")
	case "slowret":
		// the write succeeds at once (logged at that point) but the call returns to the client a few milliseconds later:
		// whatever happens meanwhile (a stop request, an abort of the connection) finds the chunk already sent
		slowReturn = true
	}
	c.mu.Lock()
	defer c.mu.Unlock()
	if c.isClosed() {
		tr.Emit("SendEnd", "id", chunk.ID, "out", "err", "conn", c.no, "got", false)
		return errors.New("closed")
	}
	c.recv = append(c.recv, chunk.ID)
	tr.Emit("SendEnd", "id", chunk.ID, "out", "ok", "conn", c.no)
	return nil
}

func (c *fakeConn) SendPing(deadline time.Time) error {
	tr := c.r.tr
	if c.isClosed() || c.r.ping.next() == "err" {
		tr.Emit("PingEnd", "out", "err", "conn", c.no)
		return errors.New("ping error")
	}
	c.mu.Lock()
	defer c.mu.Unlock()
	if c.isClosed() {
		tr.Emit("PingEnd", "out", "err", "conn", c.no)
		return errors.New("closed")
	}
	tr.Emit("PingEnd", "out", "ok", "conn", c.no)
	return nil
}

func (c *fakeConn) ReadChunkAck(deadline time.Time) (string, error) {
	tr := c.r.tr
	fail := func(msg string) (string, error) {
		tr.Emit("AckReadEnd", "out", "err", "conn", c.no)
		return "", errors.New(msg)
	}
	if c.isClosed() {
		return fail("closed")
	}
	what := c.r.ack.next()
	switch what {
	case "err":
		return fail("ack error")
	case "block":
		c.waitClosedOr(deadline)
		return fail("ack timeout")
	case "garbage":
		if !c.r.inorder {
			c.mu.Lock()
			defer c.mu.Unlock()
			if c.isClosed() {
				return fail("closed")
			}
			tr.Emit("AckReadEnd", "out", "garbage", "conn", c.no)
			return "zzz-unknown", nil
		}
	}
	c.mu.Lock()
	if c.isClosed() {
		c.mu.Unlock()
		return fail("closed")
	}
	if len(c.recv) == 0 { // nothing to acknowledge: a silent upstream
		c.mu.Unlock()
		c.waitClosedOr(deadline)
		return fail("ack timeout (nothing to ack)")
	}
	defer c.mu.Unlock()
	if c.r.inorder {
		c.recv = c.recv[1:]
		tr.Emit("AckReadEnd", "out", "inorder", "conn", c.no)
		return "", nil
	}
	i := 0
	if what == "other" {
		i = len(c.recv) - 1 // the newest instead of the oldest
	}
	id := c.recv[i]
	c.recv = append(c.recv[:i:i], c.recv[i+1:]...)
	tr.Emit("AckReadEnd", "out", "ack", "id", id, "conn", c.no)
	return id, nil
}

func (c *fakeConn) Close() {
	c.once.Do(func() {
		c.mu.Lock()
		c.r.tr.Emit("ConnClose", "conn", c.no)
		close(c.closed)
		c.mu.Unlock()
	})
}

var runCounter int

// RunScript executes one script against the real ClientWorker and returns the recorded events
func RunScript(sc Script) (*vtrace.Tracer, bool) {
	runCounter++
	tr := vtrace.New(sc.Seed, sc.Jitter, "id", "prev", "chan", "unack", "pending", "result")
	tr.IdleIgnore["PingEnd"] = true
	r := &run{
		tr:      tr,
		dial:    &outcomes{list: sc.Dial, def: "ok"},
		send:    &outcomes{list: sc.Send, def: "ok"},
		ack:     &outcomes{list: sc.Ack, def: "ack"},
		ping:    &outcomes{list: sc.Ping, def: "ok"},
		inorder: sc.InOrder,
	}
	vhook.Emit = tr.Emit
	defer func() { vhook.Emit = nil }()

	nFeeds := 0
	for _, a := range sc.Env {
		if a.Do == "feed" {
			nFeeds++
		}
	}
	in := make(chan base.LogChunk, nFeeds+1)
	inClosed := channels.NewSignalAwaitable()
	finished := make(chan struct{})
	mfactory := promreg.NewMetricFactory(fmt.Sprintf("fwd%d_", runCounter), nil, nil)
	args := base.ChunkConsumerArgs{
		InputChannel:    in,
		InputClosed:     inClosed,
		OnChunkConsumed: func(c base.LogChunk) { tr.Emit("Consumed", "id", c.ID) },
		OnChunkLeftover: func(c base.LogChunk) { tr.Emit("Leftover", "id", c.ID) },
		OnFinished:      func() { tr.Emit("Finished"); close(finished) },
	}
	w := baseoutput.NewClientWorker(logger.WithField("script", sc.ID), args, mfactory,
		func() (baseoutput.ClosableClientConnection, error) {
			r.connMu.Lock()
			defer r.connMu.Unlock()
			if r.dial.next() == "fail" {
				tr.Emit("Dial", "out", "fail")
				return nil, errors.New("refused")
			}
			r.connNo++
			c := &fakeConn{no: r.connNo, r: r, closed: make(chan struct{})}
			tr.Emit("Dial", "out", "ok", "conn", r.connNo)
			return c, nil
		}, time.Duration(sc.MaxDurMs)*time.Millisecond)
	w.Start()

	// environment: actions in script order, each when the trace has `At` events or nothing happened for a while
	fed := 0
	stopped := false
	doStop := func() {
		if stopped {
			return
		}
		stopped = true
		tr.Emit("CloseBegin")
		close(in)
		tr.Emit("CloseEnd")
		tr.Emit("StopBegin")
		inClosed.Signal()
		tr.Emit("StopEnd")
	}
	idle := 12 * time.Millisecond
	for _, a := range sc.Env {
		deadline := time.Now().Add(2 * time.Second)
		if a.After != "" {
			for time.Now().Before(deadline) {
				n := 0
				for _, e := range tr.Events() {
					if e["ev"] == a.After {
						n++
					}
				}
				if n >= a.Nth {
					break
				}
				time.Sleep(100 * time.Microsecond)
			}
		}
		for tr.Seq() < a.At && tr.IdleFor() < idle && time.Now().Before(deadline) {
			time.Sleep(200 * time.Microsecond)
		}
		switch a.Do {
		case "feed":
			if stopped {
				continue
			}
			fed++
			id := fmt.Sprintf("%03d", fed)
			tr.Emit("FeedBegin", "id", id)
			in <- base.LogChunk{ID: id, Data: []byte(id)}
			tr.Emit("FeedEnd", "id", id)
		case "stop":
			doStop()
		case "steal":
			if !stopped {
				continue
			}
			tr.Emit("StealBegin")
			c, ok := <-in
			if ok {
				tr.Emit("StealEnd", "id", c.ID)
			} else {
				tr.Emit("StealEnd", "id", "000")
			}
		case "usr1":
			if !stopped {
				_ = syscall.Kill(os.Getpid(), syscall.SIGUSR1)
			}
		}
	}
	// let the system settle, then always stop
	if !stopped {
		deadline := time.Now().Add(400 * time.Millisecond)
		for tr.IdleFor() < 3*idle && time.Now().Before(deadline) {
			time.Sleep(500 * time.Microsecond)
		}
		doStop()
	}
	tStop := time.Now()
	hung := false
	select {
	case <-finished:
	case <-time.After(5 * time.Second):
		hung = true
		tr.Emit("HUNG")
	}
	stopDur := time.Since(tStop)
	w.Stopped().Wait(time.Second)
	time.Sleep(2 * time.Millisecond) // orphan dial goroutines and the stop callback may still log
	m := vmetrics.Gather(mfactory)
	p := fmt.Sprintf("fwd%d_", runCounter)
	tr.Emit("Metrics",
		"forwarded", int(m[p+"forwarded_chunks_total"]), "acknowledged", int(m[p+"acknowledged_chunks_total"]),
		"attempts", int(m[p+"forward_attempts_total"]), "opened", int(m[p+"opened_sessions_total"]),
		"pendingAck", int(m[p+"queued_chunks{type=pendingAck}"]), "leftover", int(m[p+"queued_chunks{type=leftover}"]),
		"stopMs", int(stopDur.Milliseconds()), "script", sc.ID)
	vhook.Emit = nil
	return tr, hung
}

// Main is the entry point of `vh fwd`
func Main(args []string) int {
	fs := flag.NewFlagSet("fwd", flag.ExitOnError)
	scriptsPath := fs.String("scripts", "", "ndjson file of scripts")
	outPath := fs.String("out", "", "ndjson trace file to write (all scripts, separated by RESET events)")
	sepDir := fs.String("sepdir", "", "if set, also write one trace file per script into this directory")
	ackCap := fs.Int("ackcap", 2, "defs.ForwarderMaxPendingChunksForAck")
	_ = fs.Parse(args)

	logger.SetLogLevel(logger.FatalLevel)
	defs.ForwarderRetryInterval = 4 * time.Millisecond
	defs.ForwarderPingInterval = 15 * time.Millisecond
	defs.ForwarderBatchAckTimeout = 30 * time.Millisecond
	defs.ForwarderBatchSendTimeoutBase = 30 * time.Millisecond
	defs.ForwarderAckerStopTimeout = 50 * time.Millisecond
	defs.IntermediateChannelTimeout = 2 * time.Second
	defs.ForwarderMaxPendingChunksForAck = *ackCap
	// make sure SIGUSR1 never kills the driver, whether or not a session is listening
	keep := make(chan os.Signal, 16)
	signal.Notify(keep, syscall.SIGUSR1)

	f, err := os.Open(*scriptsPath)
	if err != nil {
		fmt.Fprintln(os.Stderr, err)
		return 2
	}
	defer f.Close()
	_ = os.Remove(*outPath)
	scan := bufio.NewScanner(f)
	scan.Buffer(make([]byte, 1<<20), 1<<24)
	n, hungN := 0, 0
	for scan.Scan() {
		if len(scan.Bytes()) == 0 {
			continue
		}
		var sc Script
		if err := json.Unmarshal(scan.Bytes(), &sc); err != nil {
			fmt.Fprintln(os.Stderr, "bad script:", err)
			return 2
		}
		tr, hung := RunScript(sc)
		if hung {
			hungN++
		}
		reset := vtrace.Event{"ev": "RESET", "script": sc.ID}
		if err := tr.AppendTo(*outPath, reset); err != nil {
			fmt.Fprintln(os.Stderr, err)
			return 2
		}
		if *sepDir != "" {
			_ = os.MkdirAll(*sepDir, 0o755)
			_ = tr.AppendTo(*sepDir+"/"+sc.ID+".ndjson", reset)
		}
		n++
	}
	fmt.Printf("{\"scripts\":%d,\"hung\":%d}\n", n, hungN)
	return 0
}
