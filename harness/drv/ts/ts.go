// Package ts runs the real parseTime transform over a bounded space of time-field values and records
// (input, outcome, instant) events for TimestampTrace.tla
package ts

import (
	"fmt"
	"math/rand"
	"strings"
	"time"

	"github.com/relex/gotils/logger"
	"github.com/relex/slog-agent/base"
	"github.com/relex/slog-agent/transform/tparsetime"

	"verifharness/fnutil"
)

var fallback = time.Date(2001, 2, 3, 4, 5, 6, 7, time.UTC)

func floorDiv(a, b int64) int64 {
	q := a / b
	if (a%b != 0) && ((a < 0) != (b < 0)) {
		q--
	}
	return q
}

// Main is the entry point of `vh ts`
func Main(args []string) int {
	o := fnutil.Open("ts", args, nil)
	logger.SetLogLevel(logger.FatalLevel)
	schema := base.MustNewLogSchema([]string{"time"})
	cnt := fnutil.NewCounter()
	cfg := &tparsetime.Config{Key: "time", ErrorLabel: "timeError"}
	tf := cfg.NewTransform(schema, logger.Root(), cnt)

	var exec func(in string)
	run := func(in string) {
		if o.Mine() {
			exec(in)
		}
	}
	// a group of values is processed by one shard, in order (the transform keeps state between calls)
	runGroup := func(ins ...string) {
		if o.Mine() {
			for _, in := range ins {
				exec(in)
			}
		}
	}
	exec = func(in string) {
		ev := map[string]any{"ev": "TS", "in": fnutil.Bytes(in)}
		before := cnt.Count["timeError"]
		rec := schema.NewTestRecord2(fallback, base.LogFields{in})
		rec.RawLength = 100
		func() {
			defer func() {
				if r := recover(); r != nil {
					ev["res"] = "panic"
					ev["panic"] = fmt.Sprint(r)
				}
			}()
			tf.Transform(rec)
		}()
		counted := cnt.Count["timeError"] != before
		kept := rec.Timestamp.Equal(fallback)
		if _, ok := ev["res"]; !ok {
			if counted {
				ev["res"] = "err"
			} else {
				ev["res"] = "ok"
			}
		}
		u := rec.Timestamp.Unix()
		ev["counted"], ev["kept"] = counted, kept
		ev["days"], ev["sod"], ev["ns"] = floorDiv(u, 86400), u-floorDiv(u, 86400)*86400, rec.Timestamp.Nanosecond()
		o.Emit(ev)
	}

	thorough := o.Tier == "thorough"
	rnd := rand.New(rand.NewSource(o.Seed))
	syms := []string{"-", ":", "T", ".", "Z", "+", "5", "x", " "}
	bases := []string{"2019-08-15T15:50:46.866915+03:00", "2020-02-29T23:59:59Z", "1999-12-31T00:00:00.5-1130", "2038-01-19T03:14:08.123456789Z"}
	// (i) empty, NIL, every truncation, every position replaced by every symbol, one byte inserted/removed
	run("")
	run("-")
	for _, b := range bases {
		for n := 0; n <= len(b); n++ {
			run(b[:n])
		}
		for i := 0; i < len(b); i++ {
			for _, s := range syms {
				run(b[:i] + s + b[i+1:])
			}
			run(b[:i] + b[i+1:])
			run(b[:i] + "0" + b[i:])
		}
	}
	// all strings of length <= 3 over a few symbols (short garbage)
	alpha := []string{"-", "1", "T", ":", "Z"}
	for _, a := range alpha {
		run(a)
		for _, b := range alpha {
			run(a + b)
			for _, c := range alpha {
				run(a + b + c)
			}
		}
	}
	// (ii) boundary dates x times x offsets x fraction patterns
	dates := []string{"1970-01-01", "1969-12-31", "2000-02-29", "1900-02-28", "2100-03-01", "2024-12-31", "2038-01-19", "0001-01-01", "9999-12-31",
		"2023-02-29", "2023-04-31", "2023-13-01", "2023-00-10", "2023-06-00", "2024-02-29"}
	times := []string{"00:00:00", "23:59:59", "12:34:56", "24:00:00", "12:60:00", "03:14:07"}
	zones := []string{"Z", "+00:00", "-00:00", "+03:00", "-03:30", "-09:30", "+05:45", "+14:00", "-12:00", "+0530", "-0330", "-0045", "+1400",
		"+23:59", "-23:59", "+24:00", "+03:60", "", "z", "+3:00", "+03", "+03:0", " UTC", "+", "+030", "+03:000"}
	fracs := []string{"", ".0", ".9", ".000", ".999", ".123", ".000001", ".999999", ".123456", ".000000001", ".999999999", ".123456789",
		".1234", ".12345", ".1234567", ".12345678", ".0000000001", ".", ".x", ".25", ".000200", ".00000005"}
	for _, d := range dates {
		for _, t := range times {
			for _, z := range zones {
				for _, f := range fracs {
					if !thorough && len(f) > 0 && len(z) > 1 && rnd.Intn(3) != 0 {
						continue // quick: thin out the full cross product
					}
					run(d + "T" + t + f + z)
				}
			}
		}
	}
	// (v) pooled records: the time value is a view into the record's pooled backing buffer (records over 1 KiB). A record
	// with one zone is processed and released, then a record with another zone of the same length is parsed into the
	// recycled buffer, on a fresh transform instance for every pair: what the transform remembers about zones must not
	// depend on bytes it does not own. All 2 x 24 x 4 offsets +-HH:MM (MM in 00 15 30 45) after three first zones.
	{
		alloc := base.NewLogAllocator(schema, 1)
		pad := strings.Repeat("p", 1200)
		viaPool := func(tv string) *base.LogRecord {
			rec, view := alloc.NewRecord([]byte(tv + " " + pad))
			rec.Fields[0] = view[:len(tv)]
			rec.Timestamp = fallback
			rec.RawLength = 100
			return rec
		}
		for _, first := range []string{"+03:00", "-11:30", "+00:00"} {
			for _, sign := range []string{"+", "-"} {
				for hh := 0; hh < 24; hh++ {
					for _, mm := range []string{"00", "15", "30", "45"} {
						if !o.Mine() {
							continue
						}
						second := fmt.Sprintf("%s%02d:%s", sign, hh, mm)
						old := tf
						tf = cfg.NewTransform(schema, logger.Root(), cnt)
						r1 := viaPool("2021-06-07T08:09:10" + first)
						tf.Transform(r1)
						alloc.Release(r1)
						r2 := viaPool("2021-06-07T08:09:10" + second)
						in := "2021-06-07T08:09:10" + second
						ev := map[string]any{"ev": "TS", "in": fnutil.Bytes(in), "pooledAfter": first}
						before := cnt.Count["timeError"]
						tf.Transform(r2)
						counted := cnt.Count["timeError"] != before
						ev["res"] = map[bool]string{true: "err", false: "ok"}[counted]
						u := r2.Timestamp.Unix()
						ev["counted"], ev["kept"] = counted, r2.Timestamp.Equal(fallback)
						ev["days"], ev["sod"], ev["ns"] = floorDiv(u, 86400), u-floorDiv(u, 86400)*86400, r2.Timestamp.Nanosecond()
						o.Emit(ev)
						alloc.Release(r2)
						tf = old
					}
				}
			}
		}
	}
	// (iv') the same unparsable value several times in a row, around a good one, and as the very first value of a fresh
	// transform instance: every failure is counted, not only the first of its kind
	for _, bad := range []string{"-", "", "x", "2021-06-07T08:09:1", "2021-06-07 08:09:10Z"} {
		runGroup(bad, bad, bad, "2021-06-07T08:09:10Z", bad, "2021-06-07T08:09:11Z", "2021-06-07T08:09:11Z", bad)
		if o.Mine() {
			old := tf
			tf = cfg.NewTransform(schema, logger.Root(), cnt)
			exec(bad)
			exec(bad)
			tf = old
		}
	}
	// (iv) the same malformed zone several times on one transform instance (the zone cache is state)
	for _, z := range []string{"+03:0", "+03", "+", " +03:00", " UTC", "+25:00", "-0:30", "+0300", "+03:00", "-03:30", "-0330"} {
		a, b := "2021-06-07T08:09:10"+z, "2021-06-07T08:09:10.5"+z
		runGroup(a, b, a, b, "2021-06-07T08:09:10Z", a, b)
	}
	// (iii) fractions: thorough = ALL fractions of 1..6 digits; quick = a seeded sample + edges; 7..9 digits sampled
	frac := func(digits int, v int) string { return fmt.Sprintf("2021-06-07T08:09:10.%0*d", digits, v) }
	if thorough {
		p := 1
		for d := 1; d <= 6; d++ {
			p *= 10
			for v := 0; v < p; v++ {
				run(frac(d, v) + "Z")
			}
		}
	} else {
		p := 1
		for d := 1; d <= 6; d++ {
			p *= 10
			for k := 0; k < 2500; k++ {
				if p <= 2500 {
					if k < p {
						run(frac(d, k) + "Z")
					}
				} else {
					run(frac(d, rnd.Intn(p)) + "+02:00")
				}
			}
		}
	}
	n79 := 4000
	if thorough {
		n79 = 100000
	}
	for k := 0; k < n79; k++ {
		d := 7 + rnd.Intn(3)
		p := 1
		for i := 0; i < d; i++ {
			p *= 10
		}
		run(frac(d, rnd.Intn(p)) + strings.Repeat("", 0) + "-11:30")
	}
	o.Close()
	return 0
}
