// Package ec runs the real Fluentd event serializer over a bounded space of schemas, serialization configs and records
// and logs each record with the event decoded by an independent decoder, for EventCodecTrace.tla
package ec

import (
	"bytes"
	"fmt"
	"strings"
	"time"

	"github.com/relex/gotils/logger"
	"github.com/relex/slog-agent/base"
	"github.com/relex/slog-agent/base/bconfig"
	"github.com/relex/slog-agent/output/fluentdforward"
	"github.com/relex/slog-agent/rewrite/rcopy"
	"github.com/relex/slog-agent/rewrite/rinline"
	"github.com/relex/slog-agent/rewrite/runescape"
	"github.com/vmihailenco/msgpack/v4"

	"verifharness/fnutil"
)

type triple struct {
	P []int `json:"p"`
	N int   `json:"n"`
	S []int `json:"s"`
}

// canon splits a string at its first run of at least 100 'a's
func canon(s string) triple {
	if len(s) > 120 {
		i := strings.Index(s, strings.Repeat("a", 100))
		if i >= 0 {
			j := i
			for j < len(s) && s[j] == 'a' {
				j++
			}
			return triple{fnutil.Bytes(s[:i]), j - i, fnutil.Bytes(s[j:])}
		}
	}
	return triple{fnutil.Bytes(s), 0, []int{}}
}

type decoded struct {
	Ok     bool    `json:"ok"`
	Time   []int   `json:"time"`
	Fields [][]any `json:"fields"`
	Env    [][]any `json:"env"`
}

func decode(stream []byte) (d decoded) {
	d.Fields, d.Env, d.Time = [][]any{}, [][]any{}, []int{}
	defer func() {
		if r := recover(); r != nil {
			d.Ok = false
		}
	}()
	rd := bytes.NewReader(stream)
	dec := msgpack.NewDecoder(rd)
	if n, err := dec.DecodeArrayLen(); err != nil || n != 2 {
		return
	}
	typ, ln, err := dec.DecodeExtHeader()
	if err != nil || typ != 0 || ln != 8 {
		return
	}
	tb := make([]byte, 8)
	for i := range tb { // the decoder reads straight from the bytes.Reader (an io.ByteScanner), without own buffering
		b, err := rd.ReadByte()
		if err != nil {
			return
		}
		tb[i] = b
	}
	d.Time = []int{int(tb[0])<<8 | int(tb[1]), int(tb[2])<<8 | int(tb[3]), int(tb[4])<<24 | int(tb[5])<<16 | int(tb[6])<<8 | int(tb[7])}
	n, err := dec.DecodeMapLen()
	if err != nil {
		return
	}
	for i := 0; i < n; i++ {
		key, err := dec.DecodeString()
		if err != nil {
			return
		}
		if key == "environment" {
			m, err := dec.DecodeMapLen()
			if err != nil {
				return
			}
			for j := 0; j < m; j++ {
				k, err := dec.DecodeString()
				if err != nil {
					return
				}
				v, err := dec.DecodeString()
				if err != nil {
					return
				}
				d.Env = append(d.Env, []any{fnutil.Bytes(k), canon(v)})
			}
			if i != n-1 {
				return
			}
			continue
		}
		v, err := dec.DecodeString()
		if err != nil {
			return
		}
		d.Fields = append(d.Fields, []any{fnutil.Bytes(key), canon(v)})
	}
	if rd.Len() != 0 {
		return
	}
	d.Ok = true
	return
}

type chainItem struct {
	kind, field string
}

type config struct {
	schema  []string
	env     []string
	hidden  []string
	rewrite map[string][]chainItem
}

func (c config) build() (base.LogSchema, base.LogSerializer, base.LogSerializer) {
	schema := base.MustNewLogSchema(c.schema)
	sc := fluentdforward.SerializationConfig{EnvironmentFields: c.env, HiddenFields: c.hidden,
		RewriteFields: map[string][]bconfig.LogRewriterConfigHolder{}}
	for f, chain := range c.rewrite {
		var hs []bconfig.LogRewriterConfigHolder
		for _, it := range chain {
			switch it.kind {
			case "inline":
				hs = append(hs, bconfig.LogRewriterConfigHolder{Value: &rinline.Config{Field: it.field}})
			case "unescape":
				hs = append(hs, bconfig.LogRewriterConfigHolder{Value: &runescape.Config{}})
			case "copy":
				hs = append(hs, bconfig.LogRewriterConfigHolder{Value: &rcopy.Config{}})
			}
		}
		sc.RewriteFields[f] = hs
	}
	s1, err := fluentdforward.NewEventSerializer(logger.Root(), schema, sc)
	if err != nil {
		panic(err)
	}
	s2, _ := fluentdforward.NewEventSerializer(logger.Root(), schema, sc)
	return schema, s1, s2
}

var chains = map[string][]chainItem{
	"copy":     {{"copy", ""}},
	"unescape": {{"unescape", ""}},
	"in+copy":  {{"inline", "f1"}, {"copy", ""}},
	"in+un":    {{"inline", "f1"}, {"unescape", ""}},
	"in+in+un": {{"inline", "f1"}, {"inline", "f2"}, {"unescape", ""}},
}
var chainNames = []string{"copy", "unescape", "in+copy", "in+un", "in+in+un"}

// Main is the entry point of `vh ec`
func Main(args []string) int {
	o := fnutil.Open("ec", args, nil)
	logger.SetLogLevel(logger.FatalLevel)
	thorough := o.Tier == "thorough"

	type inst struct {
		c        config
		schema   base.LogSchema
		s1, s2   base.LogSerializer
		ev       map[string]any
		hasInst  bool
	}
	mk := func(c config) *inst { return &inst{c: c} }
	run := func(in *inst, values []string, unescaped bool, tm time.Time) {
		if !o.Mine() {
			return
		}
		if !in.hasInst {
			in.schema, in.s1, in.s2 = in.c.build()
			in.hasInst = true
			rw := [][]any{}
			for f, ch := range in.c.rewrite {
				items := [][]any{}
				for _, it := range ch {
					if it.kind == "inline" {
						items = append(items, []any{"inline", fnutil.Bytes(it.field)})
					} else {
						items = append(items, []any{it.kind})
					}
				}
				rw = append(rw, []any{fnutil.Bytes(f), items})
			}
			bl := func(ss []string) [][]int {
				r := [][]int{}
				for _, s := range ss {
					r = append(r, fnutil.Bytes(s))
				}
				return r
			}
			in.ev = map[string]any{"schema": bl(in.c.schema), "env": bl(in.c.env), "hidden": bl(in.c.hidden), "rewrite": rw}
		}
		ev := map[string]any{"ev": "EC", "res": "ok", "unescaped": unescaped}
		for k, v := range in.ev {
			ev[k] = v
		}
		vals := make([]triple, len(values))
		fields := make(base.LogFields, len(values))
		for i, v := range values {
			vals[i] = canon(v)
			fields[i] = strings.Clone(v)
		}
		ev["values"] = vals
		u := uint32(tm.Unix())
		ev["time"] = []int{int(u >> 16), int(u & 0xffff), tm.Nanosecond()}
		rec := in.schema.NewTestRecord2(tm, fields)
		rec.Unescaped = unescaped
		func() {
			defer func() {
				if r := recover(); r != nil {
					ev["res"] = "panic"
					ev["panic"] = fmt.Sprint(r)
					ev["decoded"], ev["second"] = decoded{}, decoded{}
				}
			}()
			ev["decoded"] = decode(in.s1.SerializeRecord(rec))
			ev["second"] = decode(in.s2.SerializeRecord(rec)) // a second output shares the record
		}()
		o.Emit(ev)
	}
	t0 := time.Unix(1600000000, 123456789)

	// F1: roles of three fields x small values
	roles12 := []string{"plain", "env", "hidden"}
	roles3 := append([]string{"plain", "env", "hidden"}, chainNames...)
	small := []string{"", "v", "a\\nb", "x y", "tail\\"}
	for _, r1 := range roles12 {
		for _, r2 := range roles12 {
			for _, r3 := range roles3 {
				c := config{schema: []string{"f1", "f2", "f3"}, rewrite: map[string][]chainItem{}}
				for i, r := range []string{r1, r2, r3} {
					name := c.schema[i]
					switch r {
					case "plain":
					case "env":
						c.env = append(c.env, name)
					case "hidden":
						c.hidden = append(c.hidden, name)
					default:
						c.rewrite[name] = chains[r]
					}
				}
				in := mk(c)
				for _, v1 := range small {
					for _, v2 := range small {
						for _, v3 := range small {
							if !thorough && v2 != "" && v2 != "v" && v1 != "v" {
								continue
							}
							run(in, []string{v1, v2, v3}, false, t0)
						}
					}
				}
			}
		}
	}
	// F2: schemas around the fixmap / map16 boundary
	for _, nf := range []int{3, 13, 14, 15, 16, 20} {
		names := make([]string, nf)
		for i := range names {
			names[i] = fmt.Sprintf("f%d", i+1)
		}
		c := config{schema: names, env: []string{names[nf-1]}, hidden: []string{"f2"}, rewrite: map[string][]chainItem{"f3": chains["in+un"]}}
		in := mk(c)
		all := make([]string, nf)
		for i := range all {
			all[i] = fmt.Sprintf("v%d\\t", i)
		}
		run(in, all, false, t0)
		some := append([]string{}, all...)
		for i := 0; i < nf; i += 2 {
			some[i] = ""
		}
		run(in, some, false, t0)
		none := make([]string, nf)
		run(in, none, false, t0)
		cenv := config{schema: names, env: names[:nf-1], rewrite: map[string][]chainItem{}} // environment map with >= 16 entries
		run(mk(cenv), all, false, t0)
	}
	// F2b: field NAMES on both sides of the length-encoding boundaries of a key (fixstr up to 31 bytes, str8 beyond; the encoder
	// has its own switch at 16), as plain, environment, hidden and rewritten fields
	for _, nl := range []int{1, 14, 15, 16, 17, 30, 31, 32, 33, 64, 255, 256, 300} {
		long := strings.Repeat("n", nl-1)
		names := []string{long + "a", long + "b", long + "c", long + "d"}
		c := config{schema: names, env: []string{names[1]}, hidden: []string{names[2]}, rewrite: map[string][]chainItem{names[3]: chains["unescape"]}}
		in := mk(c)
		run(in, []string{"v1", "v2", "v3", "x\\ny"}, false, t0)
		run(in, []string{"v1", "", "v3", ""}, false, t0)
		if nl >= 2 {
			run(mk(config{schema: names, env: names[:3], rewrite: map[string][]chainItem{}}), []string{"a", "b", "c", "d"}, false, t0)
		}
	}
	// F3: value lengths on both sides of every length-encoding boundary, per field class and chain
	lengths := []int{1, 15, 16, 31, 32, 255, 256, 65534, 65535, 65536, 65537, 70000}
	if thorough {
		lengths = append(lengths, 14, 17, 30, 33, 254, 257, 65520, 65521, 65522, 65523, 65524, 65525, 65526, 65527, 65528, 65529, 65530, 65531, 65532, 65533, 65538, 65539, 65540, 65541, 65542, 65543, 65544, 131071, 131072)
	}
	mkval := func(prefix, suffix string, total int) string { // prefix + a... + suffix of exactly `total` bytes
		n := total - len(prefix) - len(suffix)
		if n < 0 {
			return (prefix + suffix)[:total]
		}
		return prefix + strings.Repeat("a", n) + suffix
	}
	plainCfg := mk(config{schema: []string{"f1", "f2", "f3"}, env: []string{"f2"}, rewrite: map[string][]chainItem{}})
	for _, L := range lengths {
		run(plainCfg, []string{"k", mkval("", "", L), mkval("|", "|", L)}, false, t0)
	}
	for _, cn := range chainNames {
		in := mk(config{schema: []string{"f1", "f2", "f3"}, env: []string{"f2"}, rewrite: map[string][]chainItem{"f3": chains[cn]}})
		for _, L := range lengths {
			for _, pre := range []string{"|", "\\n|", "\\n\\t\\\\|", "\\x|"} {
				for _, suf := range []string{"|", "|\\n", "|\\", "|\\\\\\n"} {
					for _, f1 := range []string{"", "k", "klass"} {
						if !thorough && (L < 255 && (pre != "|" || suf != "|")) {
							continue
						}
						// raw length L, and raw length chosen so that the REWRITTEN length is about L
						run(in, []string{f1, "e", mkval(pre, suf, L)}, false, t0)
						grow := 0
						if f1 != "" && strings.HasPrefix(cn, "in") {
							grow = len("f1=") + len(f1) + 1
						}
						if L-grow+3 > len(pre)+len(suf) {
							run(in, []string{f1, "e", mkval(pre, suf, L-grow+3)}, false, t0)
							run(in, []string{f1, "e", mkval(pre, suf, L-grow)}, true, t0)
						}
					}
				}
			}
		}
	}
	// F4: the escape grammar: every string up to length 4 (thorough 7) over {a \ n t x 2-byte-rune}, flagged or not
	syms := []string{"a", "\\", "n", "t", "x", "\xc3\xa9"}
	maxL := 4
	if thorough {
		maxL = 7
	}
	un := mk(config{schema: []string{"f1", "f2", "f3"}, env: []string{"f2"}, rewrite: map[string][]chainItem{"f3": chains["unescape"]}})
	iu := mk(config{schema: []string{"f1", "f2", "f3"}, env: []string{"f2"}, rewrite: map[string][]chainItem{"f3": chains["in+un"]}})
	var rec func(prefix string, n int)
	rec = func(prefix string, n int) {
		if prefix != "" {
			run(un, []string{"k", "", prefix}, false, t0)
			run(iu, []string{"k", "", prefix}, false, t0)
			run(iu, []string{"k", "", prefix}, true, t0)
		}
		if n == 0 {
			return
		}
		for _, s := range syms {
			rec(prefix+s, n-1)
		}
	}
	rec("", maxL)
	// F4b: a backslash before every byte value (arbitrary bytes: only b f n r t and the backslash itself are escapable; a
	// backslash before anything else - in particular before a UTF-8 lead byte - stays as it is), at the start, in the middle
	// and as the last two bytes of the value
	for x := 0; x < 256; x++ {
		bx := string([]byte{byte(x)})
		for _, v := range []string{"\\" + bx, "a\\" + bx + "z", "\\" + bx + "\x82\xac tail", "\\\\\\" + bx} {
			run(un, []string{"k", "", v}, false, t0)
			run(iu, []string{"k", "", v}, false, t0)
		}
	}
	// F5: timestamps
	for _, sec := range []int64{0, 1, 1<<31 - 1, 1 << 31, 1<<32 - 1} {
		for _, ns := range []int64{0, 1, 999999999} {
			run(plainCfg, []string{"a", "b", "c"}, false, time.Unix(sec, ns))
		}
	}
	o.Close()
	return 0
}
