// Package frl drives the real TCP line listener over real TCP connections with scripted segmentation and pauses and
// records what its receiver sink sees (Accept / Flush / Close) for FramingListenerTrace.tla
package frl

import (
	"bufio"
	"encoding/json"
	"flag"
	"fmt"
	"net"
	"os"
	"sync"
	"time"

	"github.com/relex/gotils/channels"
	"github.com/relex/gotils/logger"
	"github.com/relex/slog-agent/base"
	"github.com/relex/slog-agent/defs"
	"github.com/relex/slog-agent/input/tcplistener"

	"verifharness/vtrace"
)

// Seg is one client write followed by a pause
type Seg struct {
	Data    string `json:"data"`
	PauseMs int    `json:"pauseMs"`
}

// Script is one connection
type Script struct {
	ID   string `json:"id"`
	Segs []Seg  `json:"segs"`
}

const intervalMs = 25

func test(line []byte) bool { return len(line) > 0 && line[0] == 'h' }

type receiver struct {
	tr   *vtrace.Tracer
	done chan struct{}
}
type sink struct{ r *receiver }

func (r *receiver) NewSink(string, base.ClientNumber) base.MessageReceiverSink { return &sink{r} }
func (s *sink) Accept(m []byte)                                                 { s.r.tr.Emit("Accept", "rec", ints(m)) }
func (s *sink) Flush()                                                          { s.r.tr.Emit("Flush") }
func (s *sink) Close()                                                          { s.r.tr.Emit("Close"); close(s.r.done) }

func ints(b []byte) []int {
	r := make([]int, len(b))
	for i, c := range b {
		r[i] = int(c)
	}
	return r
}

// Main is the entry point of `vh frl`
func Main(args []string) int {
	fs := flag.NewFlagSet("frl", flag.ExitOnError)
	scriptsPath := fs.String("scripts", "", "ndjson scripts")
	outPath := fs.String("out", "", "ndjson trace")
	_ = fs.Parse(args)
	logger.SetLogLevel(logger.FatalLevel)
	defs.InputFlushInterval = intervalMs * time.Millisecond
	f, err := os.Open(*scriptsPath)
	if err != nil {
		fmt.Fprintln(os.Stderr, err)
		return 2
	}
	defer f.Close()
	_ = os.Remove(*outPath)
	scan := bufio.NewScanner(f)
	scan.Buffer(make([]byte, 1<<20), 1<<24)
	var mu sync.Mutex
	n := 0
	for scan.Scan() {
		var sc Script
		if json.Unmarshal(scan.Bytes(), &sc) != nil {
			continue
		}
		mu.Lock()
		tr := vtrace.New(1, false)
		rcv := &receiver{tr: tr, done: make(chan struct{})}
		stop := channels.NewSignalAwaitable()
		lsn, addr, lerr := tcplistener.NewTCPLineListener(logger.Root(), "127.0.0.1:0", test, rcv, stop)
		if lerr != nil {
			fmt.Fprintln(os.Stderr, lerr)
			return 2
		}
		lsn.Start()
		conn, derr := net.Dial("tcp", addr)
		if derr != nil {
			fmt.Fprintln(os.Stderr, derr)
			return 2
		}
		_ = conn.(*net.TCPConn).SetNoDelay(true)
		all := ""
		for _, s := range sc.Segs {
			all += s.Data
		}
		tr.Emit("Stream", "bytes", ints([]byte(all)), "intervalUs", intervalMs*1000)
		for _, s := range sc.Segs {
			_, _ = conn.Write([]byte(s.Data))
			tr.Emit("Seg", "n", len(s.Data))
			if s.PauseMs > 0 {
				time.Sleep(time.Duration(s.PauseMs) * time.Millisecond)
			} else {
				time.Sleep(300 * time.Microsecond)
			}
		}
		_ = conn.Close()
		select {
		case <-rcv.done:
		case <-time.After(3 * time.Second):
			tr.Emit("HUNG")
		}
		stop.Signal()
		lsn.Stopped().Wait(2 * time.Second)
		_ = tr.AppendTo(*outPath, vtrace.Event{"ev": "RESET", "script": sc.ID})
		mu.Unlock()
		n++
	}
	fmt.Printf("{\"scripts\":%d}\n", n)
	return 0
}
