// Package rt runs the real byKeySet orchestrator with a recording pipeline starter and real queue directories over all
// pairs of key tuples of a bounded space, with a restart on the same queue root, and logs one event per scenario for
// RoutingTrace.tla
package rt

import (
	"flag"
	"fmt"
	"os"
	"path/filepath"
	"runtime"
	"sort"
	"strconv"
	"strings"
	"sync"
	"time"

	"github.com/c2h5oh/datasize"
	"github.com/relex/gotils/logger"
	"github.com/relex/gotils/promexporter/promreg"
	"github.com/relex/slog-agent/base"
	"github.com/relex/slog-agent/buffer/hybridbuffer"
	"github.com/relex/slog-agent/defs"
	"github.com/relex/slog-agent/orchestrate/obykeyset"

	"verifharness/fnutil"
)

// alloc is the real record allocator: with pooled scenarios records alias pooled input buffers, as in the agent
var alloc *base.LogAllocator

type life struct {
	mu        sync.Mutex
	pipelines [][2]string // id, tag
	routed    map[int]int // stamp -> pipeline index
	wg        sync.WaitGroup
	cfg       hybridbuffer.Config
	mf        *promreg.MetricFactory
}

func match(name string) bool { return name == "001" }

func (l *life) start(parentLogger logger.Logger, metricCreator promreg.MetricCreator, input <-chan []*base.LogRecord, bufferID string,
	outputTag string, onStopped func(),
) {
	l.mu.Lock()
	idx := len(l.pipelines)
	l.pipelines = append(l.pipelines, [2]string{bufferID, outputTag})
	l.mu.Unlock()
	// the pipeline's queue directory, with one chunk left in it
	buf := l.cfg.NewBufferer(parentLogger, bufferID, match, metricCreator, false)
	buf.Start()
	buf.Accept(base.LogChunk{ID: "001", Data: []byte("x")})
	go func() {
		for recs := range input {
			l.mu.Lock()
			for _, r := range recs {
				st, _ := strconv.Atoi(strings.TrimSpace(r.Fields[len(r.Fields)-1]))
				l.routed[st] = idx
				if alloc != nil {
					alloc.Release(r) // as the pipeline worker does after processing
				}
			}
			l.mu.Unlock()
		}
		buf.Destroy()
		onStopped()
	}()
}

type tuple []string

func bl(ss []string) [][]int {
	r := [][]int{}
	for _, s := range ss {
		r = append(r, fnutil.Bytes(s))
	}
	return r
}

var runNo int
var sharedAlloc *base.LogAllocator

func scenario(o *fnutil.Out, work string, nkeys int, tplText string, tplParts []any, arrivals1, arrivals2 []tuple, pooled bool) {
	runNo++
	root := filepath.Join(work, fmt.Sprintf("r%d", runNo))
	_ = os.MkdirAll(root, 0o755)
	defer os.RemoveAll(root)
	names := make([]string, nkeys+1)
	keyFields := make([]string, nkeys)
	for i := 0; i < nkeys; i++ {
		names[i] = fmt.Sprintf("k%d", i+1)
		keyFields[i] = names[i]
	}
	names[nkeys] = "msg"
	schema := base.MustNewLogSchema(names)
	ev := map[string]any{"ev": "RT", "res": "ok", "template": tplParts}
	a1, a2 := [][][]int{}, [][][]int{}
	for _, t := range arrivals1 {
		a1 = append(a1, bl(t))
	}
	for _, t := range arrivals2 {
		a2 = append(a2, bl(t))
	}
	ev["arrivals1"], ev["arrivals2"] = a1, a2
	pairs := func(ps [][2]string) [][][]int {
		r := [][][]int{}
		for _, p := range ps {
			r = append(r, [][]int{fnutil.Bytes(p[0]), fnutil.Bytes(p[1])})
		}
		return r
	}
	func() {
		defer func() {
			if r := recover(); r != nil {
				ev["res"] = "panic"
				ev["panic"] = fmt.Sprint(r)
			}
		}()
		runLife := func(n int, initial []string, arrivals []tuple, stamp0 int) (*life, int) {
			l := &life{routed: map[int]int{}, cfg: hybridbuffer.Config{RootPath: root, MaxBufSize: datasize.ByteSize(1 << 20)},
				mf: promreg.NewMetricFactory(fmt.Sprintf("rt%d_%d_", runNo, n), nil, nil)}
			orc := obykeyset.NewOrchestrator(logger.Root(), schema, keyFields, tplText, l.mf, l.start, initial)
			l.mu.Lock()
			nInitial := len(l.pipelines)
			l.mu.Unlock()
			sink := orc.NewSink("client", 1)
			for i, t := range arrivals {
				if pooled {
					// a record of pooled size whose fields are substrings of the pooled copy of the input
					alloc = base.NewLogAllocator(schema, 1)
					if sharedAlloc != nil {
						alloc = sharedAlloc
					} else {
						sharedAlloc = alloc
					}
					input := ""
					offs := make([][2]int, nkeys+1)
					for j := 0; j <= nkeys; j++ {
						v := fmt.Sprintf("%-8d", stamp0+i)
						if j < nkeys {
							v = t[j]
						}
						offs[j] = [2]int{len(input), len(input) + len(v)}
						input += v + "|"
					}
					input += strings.Repeat(string(rune('p'+i)), 1500-len(input))
					rec, str := alloc.NewRecord([]byte(input))
					for j := 0; j <= nkeys; j++ {
						rec.Fields[j] = str[offs[j][0]:offs[j][1]]
					}
					sink.Accept([]*base.LogRecord{rec})
					sink.Tick()
					sink.Close() // flush now so that the worker releases the record before the next one is allocated
					time.Sleep(2 * time.Millisecond)
					continue
				}
				f := make(base.LogFields, nkeys+1)
				copy(f, t)
				f[nkeys] = strconv.Itoa(stamp0 + i)
				sink.Accept([]*base.LogRecord{schema.NewTestRecord1(f)})
			}
			sink.Close()
			orc.Shutdown()
			return l, nInitial
		}
		l1, _ := runLife(1, nil, arrivals1, 1)
		routed := make([]int, len(arrivals1))
		for i := range arrivals1 {
			routed[i] = l1.routed[1+i] + 1
		}
		ev["p1"] = map[string]any{"pipelines": pairs(l1.pipelines), "routed": routed}
		ents, _ := os.ReadDir(root)
		dirs := [][]int{}
		ndirs := 0
		var dn []string
		for _, e := range ents {
			if e.IsDir() {
				dn = append(dn, e.Name())
			}
		}
		sort.Strings(dn)
		for _, d := range dn {
			ndirs++
			id, _ := os.ReadFile(filepath.Join(root, d, ".id"))
			dirs = append(dirs, fnutil.Bytes(string(id)))
		}
		ev["dirs"], ev["ndirs"] = dirs, ndirs
		// second life on the same queue root
		mf := promreg.NewMetricFactory(fmt.Sprintf("rt%d_l_", runNo), nil, nil)
		cfg := hybridbuffer.Config{RootPath: root, MaxBufSize: datasize.ByteSize(1 << 20)}
		ids := cfg.ListBufferIDs(logger.Root(), match, mf)
		l2, nInitial := runLife(2, ids, arrivals2, 100)
		routedTo := [][][]int{}
		for i := range arrivals2 {
			p := l2.pipelines[l2.routed[100+i]]
			routedTo = append(routedTo, [][]int{fnutil.Bytes(p[0]), fnutil.Bytes(p[1])})
		}
		ev["p2"] = map[string]any{"recovered": pairs(l2.pipelines[:nInitial]), "pipelines": pairs(l2.pipelines), "routedTo": routedTo}
	}()
	if ev["res"] == "panic" {
		empty := map[string]any{"pipelines": [][]int{}, "routed": []int{}, "recovered": [][]int{}, "routedTo": [][]int{}}
		for _, k := range []string{"p1", "p2"} {
			if _, ok := ev[k]; !ok {
				ev[k] = empty
			}
		}
		if _, ok := ev["dirs"]; !ok {
			ev["dirs"], ev["ndirs"] = [][]int{}, 0
		}
	}
	o.Emit(ev)
}

// concurrent runs several connections (one goroutine and one sink each) through one real orchestrator at the same time, on
// several processors; every connection sends batches of records of its own tuples, rounds times. The recording pipelines
// note which tuples they received and how many records.
func concurrent(o *fnutil.Out, nkeys int, tplText string, tplParts []any, conns [][]tuple, rounds int) {
	runNo++
	old := runtime.GOMAXPROCS(4)
	defer runtime.GOMAXPROCS(old)
	names := make([]string, nkeys+1)
	keyFields := make([]string, nkeys)
	for i := 0; i < nkeys; i++ {
		names[i] = fmt.Sprintf("k%d", i+1)
		keyFields[i] = names[i]
	}
	names[nkeys] = "msg"
	schema := base.MustNewLogSchema(names)
	type pipe struct {
		id, tag string
		got     map[string]tuple
		n       int
	}
	var mu sync.Mutex
	var pipes []*pipe
	var wg sync.WaitGroup
	start := func(_ logger.Logger, _ promreg.MetricCreator, input <-chan []*base.LogRecord, bufferID string, outputTag string, onStopped func()) {
		p := &pipe{id: bufferID, tag: outputTag, got: map[string]tuple{}}
		mu.Lock()
		pipes = append(pipes, p)
		mu.Unlock()
		wg.Add(1)
		go func() {
			defer wg.Done()
			for recs := range input {
				for _, r := range recs {
					k := strings.Join(r.Fields[:nkeys], "\x01")
					if _, ok := p.got[k]; !ok {
						p.got[k] = append(tuple(nil), r.Fields[:nkeys]...)
					}
					p.n++
				}
			}
			onStopped()
		}()
	}
	ev := map[string]any{"ev": "RTC", "res": "ok", "template": tplParts, "rounds": rounds}
	cs := [][][][]int{}
	for _, c := range conns {
		a := [][][]int{}
		for _, t := range c {
			a = append(a, bl(t))
		}
		cs = append(cs, a)
	}
	ev["conns"] = cs
	var pmu sync.Mutex
	func() {
		orc := obykeyset.NewOrchestrator(logger.Root(), schema, keyFields, tplText, promreg.NewMetricFactory(fmt.Sprintf("rtc%d_", runNo), nil, nil), start, nil)
		barrier := make(chan struct{})
		var cw sync.WaitGroup
		for ci, c := range conns {
			cw.Add(1)
			go func(ci int, c []tuple) {
				defer cw.Done()
				defer func() {
					if r := recover(); r != nil {
						pmu.Lock()
						ev["res"], ev["panic"] = "panic", fmt.Sprint(r)
						pmu.Unlock()
					}
				}()
				sink := orc.NewSink(fmt.Sprintf("conn%d", ci), base.ClientNumber(10+ci))
				batch := []*base.LogRecord{}
				for _, t := range c {
					f := make(base.LogFields, nkeys+1)
					copy(f, t)
					f[nkeys] = "m"
					batch = append(batch, schema.NewTestRecord1(f))
				}
				<-barrier
				for r := 0; r < rounds; r++ {
					sink.Accept(batch)
					if r%64 == 63 {
						sink.Tick()
					}
				}
				sink.Close()
			}(ci, c)
		}
		close(barrier)
		cw.Wait()
		orc.Shutdown()
		wg.Wait()
	}()
	ps := []any{}
	mu.Lock()
	for _, p := range pipes {
		keys := []string{}
		for k := range p.got {
			keys = append(keys, k)
		}
		sort.Strings(keys)
		got := [][][]int{}
		for _, k := range keys {
			got = append(got, bl(p.got[k]))
		}
		ps = append(ps, []any{fnutil.Bytes(p.id), fnutil.Bytes(p.tag), got, p.n})
	}
	mu.Unlock()
	ev["pipelines"] = ps
	o.Emit(ev)
}

// Main is the entry point of `vh rt`
func Main(args []string) int {
	var only *string
	o := fnutil.Open("rt", args, func(fs *flag.FlagSet) { only = fs.String("only", "", "conc: the concurrent scenarios only") })
	logger.SetLogLevel(logger.FatalLevel)
	defs.IntermediateChannelTimeout = 2e9
	work, _ := os.MkdirTemp("/var/tmp", "verif-rt-")
	defer os.RemoveAll(work)
	values := []string{"", "a", "b", "ab", ",", "/", "a,b", "a/b", "\x00"}
	if o.Tier == "thorough" {
		values = append(values, "\\", "\\,", "1", ":", "1:a")
	}
	type tpl struct {
		text  string
		parts func(n int) []any
	}
	lit := func(s string) []any { return []any{0, fnutil.Bytes(s)} }
	key := func(i int) []any { return []any{1, i} }
	// several connections route at the same time (each shard runs a few rounds: the windows are narrow)
	rounds := 3000
	if o.Tier == "thorough" {
		rounds = 40000
	}
	for rep := 0; rep < 3; rep++ {
		concurrent(o, 1, "x-$k1", []any{lit("x-"), key(1)}, [][]tuple{{{"alpha"}}, {{"bravo"}}, {{"charlie"}, {"alpha"}}, {{"delta"}}}, rounds)
		concurrent(o, 2, "t.$k1.$k2", []any{lit("t."), key(1), lit("."), key(2)}, [][]tuple{{{"a", "b"}}, {{"b", "a"}}, {{"a", "a"}, {"b", "b"}}, {{"a,b", ""}}}, rounds)
	}
	if *only == "conc" {
		o.Close()
		return 0
	}
	// nkeys = 2: all pairs of tuples, three tag templates
	tpls2 := []struct {
		text  string
		parts []any
	}{
		{"t.$k1.$k2", []any{lit("t."), key(1), lit("."), key(2)}},
		{"${k1}${k2}", []any{key(1), key(2)}},
		{"$k2-x", []any{key(2), lit("-x")}},
	}
	var tuples2 []tuple
	for _, a := range values {
		for _, b := range values {
			tuples2 = append(tuples2, tuple{a, b})
		}
	}
	k := 0
	for _, t1 := range tuples2 {
		for _, t2 := range tuples2 {
			tp := tpls2[k%len(tpls2)]
			k++
			if o.Mine() {
				scenario(o, work, 2, tp.text, tp.parts, []tuple{t1, t2, t1}, []tuple{t2, t1}, false)
			}
		}
	}
	// nkeys = 1 and nkeys = 3 (reduced alphabet)
	for _, a := range values {
		for _, b := range values {
			if o.Mine() {
				scenario(o, work, 1, "x-$k1", []any{lit("x-"), key(1)}, []tuple{{a}, {b}, {a}}, []tuple{{b}, {a}}, false)
			}
		}
	}
	// records of pooled size: key values alias a pooled input buffer that is recycled between records
	for _, a := range []string{"alpha", "ab", "x/y"} {
		for _, b := range []string{"bravo", "ba", "x_y"} {
			if o.Mine() {
				alloc, sharedAlloc = nil, nil
				scenario(o, work, 1, "$k1", []any{key(1)}, []tuple{{a}, {b}, {a}, {b}}, []tuple{{b}, {a}}, true)
				alloc, sharedAlloc = nil, nil
				scenario(o, work, 2, "t.$k1.$k2", []any{lit("t."), key(1), lit("."), key(2)}, []tuple{{a, b}, {b, a}, {a, b}}, []tuple{{b, a}}, true)
				alloc, sharedAlloc = nil, nil
			}
		}
	}
	// values that differ only in bytes a directory name or an id file might normalise: separators, NUL, blanks at the edges
	family := []string{"a/b", "a_b", "a\x00b", "a b", "a", "a ", " a", "a\n", "\ta", " ", "_", "a\\b", "A", "a.", "a\r",
		// bytes that are not valid UTF-8 (field values are arbitrary bytes; a value cut by a length limit ends inside a
		// sequence): a clean-up for names, tags or labels must not merge them
		"\xff", "\xfe", "a\xc3", "a\xc2", "a\xef\xbf\xbd", "a\xe2\x82"}
	for _, a := range family {
		for _, b := range family {
			if o.Mine() {
				scenario(o, work, 1, "x-$k1", []any{lit("x-"), key(1)}, []tuple{{a}, {b}, {a}}, []tuple{{b}, {a}}, false)
			}
			if o.Mine() {
				scenario(o, work, 2, "t.$k1.$k2", []any{lit("t."), key(1), lit("."), key(2)}, []tuple{{a, "k"}, {b, "k"}, {"k", a}}, []tuple{{b, "k"}, {a, "k"}, {"k", a}}, false)
			}
		}
	}
	small := []string{"", "a", ",", "a,"}
	var tuples3 []tuple
	for _, a := range small {
		for _, b := range small {
			for _, c := range small {
				tuples3 = append(tuples3, tuple{a, b, c})
			}
		}
	}
	for _, t1 := range tuples3 {
		for _, t2 := range tuples3 {
			if o.Mine() {
				scenario(o, work, 3, "$k1/$k2/$k3", []any{key(1), lit("/"), key(2), lit("/"), key(3)}, []tuple{t1, t2, t1}, []tuple{t2, t1}, false)
			}
		}
	}
	o.Close()
	return 0
}
