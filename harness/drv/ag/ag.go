// Package ag runs the real agent in-process (run.Loader / run.Reloader, real TCP listener, real pipelines, real hybrid
// buffers on a scratch queue root, real Fluentd Forward client) against a scripted fake Forward server, over several
// generations of graceful stop + start on the same queue directories, and records what the outside world saw for
// AgentTrace.tla: records sent, chunks received / acknowledged upstream, the queue directories after every stop, the
// metric registry, stop durations.
package ag

import (
	"bufio"
	"bytes"
	"compress/gzip"
	"encoding/json"
	"flag"
	"fmt"
	"io"
	"net"
	"net/http"
	"os"
	"os/exec"
	"path/filepath"
	"sort"
	"strconv"
	"strings"
	"sync"
	"syscall"
	"time"

	"github.com/relex/fluentlib/protocol/forwardprotocol"
	"github.com/relex/gotils/logger"
	"github.com/relex/slog-agent/base"
	"github.com/relex/slog-agent/defs"
	"github.com/relex/slog-agent/output/fluentdforward"
	"github.com/relex/slog-agent/run"
	"github.com/vmihailenco/msgpack/v4"

	"verifharness/vmetrics"
	"verifharness/vtrace"
)

// Client is one client TCP connection of a generation
type Client struct {
	N          int  `json:"n"`          // records to send
	PauseEvery int  `json:"pauseEvery"` // pause after every so many records (0 = never)
	PauseMs    int  `json:"pauseMs"`
	DelayMs    int  `json:"delayMs"`  // delay before connecting
	KeepOpen   bool `json:"keepOpen"` // the client leaves its connection open: the agent's stop has to close it
	Pad        int  `json:"pad"`      // so many filler bytes after the stamp in every record (large chunks)
}

// Gen is one life of the agent
type Gen struct {
	Upstream2  []string `json:"upstream2"` // the same for the second output's upstream (Script.TwoOutputs)
	Upstream   []string `json:"upstream"`  // behaviour per accepted upstream connection: healthy | closeNow | noAck | resetAfter1 | resetAfter2 | lateAck | refuse
	Clients    []Client `json:"clients"`
	StopAfter  int      `json:"stopAfterMs"` // pause between the last client closing and the stop request
	Reload     string   `json:"reload"`      // "" | same | transform | invalid | incompatible | keysdrop
	ReloadAtMs int      `json:"reloadAtMs"`  // when, after the clients started
	Drain      bool     `json:"drain"`       // wait until the upstream has acknowledged everything before stopping
	TwoKeys    bool     `json:"twoKeys"`     // orchestration keys [app, source] instead of [app]
	// with clients that keep their connection open: the input's periodic flush is made slow (InputFlushMs) and the stop
	// comes a fixed time after the last write (records read and parsed, not yet handed on), instead of waiting for the counters
	InputFlushMs int `json:"inputFlushMs"`
}

// Script is a whole history
type Script struct {
	ID         string `json:"id"`
	ViaRun     bool   `json:"viaRun"`     // every generation is a child process running run.Run (the agent's main path): SIGTERM stops it, SIGHUP reloads it
	TwoOutputs bool   `json:"twoOutputs"` // a second Fluentd output with its own upstream (Gen.Upstream2) and queue root
	// the output is the Datadog client and the upstream an HTTP intake; Gen.Upstream is then the outcome per request:
	// healthy (200) | lateAck (200 after 120 ms) | noAck (never answers) | closeNow (connection reset) | resetAfter1 (500) | resetAfter2 (300)
	Datadog bool `json:"datadog"`
	// defs.ForwarderMaxPendingChunksForAck (0 = 3): with a large window a sender facing a peer that does not read keeps
	// writing until the socket buffers are full and blocks in the middle of a write (in-process runs only)
	AckWindow int `json:"ackWindow"`
	// with ViaRun: the stop request is SIGINT instead of SIGTERM
	StopWithInt bool `json:"stopWithInt"`
	// the Fluentd output logs in with a shared key; the upstream behaviour "badKey" is a server holding another key
	Secret bool `json:"secret"`
	// the singleton orchestrator (one pipeline, fixed tag dev.app1) instead of byKeySet: records of several apps share the
	// pipeline and the observer sees one stream per connection (key 1 for every record)
	Singleton bool `json:"singleton"`
	// upstream.maxDuration of the Fluentd output in ms (0 = 300): the scheduled reconnect
	MaxDurationMs int `json:"maxDurationMs"`
	// httpTimeout of the Datadog output in ms (0 = 400)
	DDTimeoutMs int `json:"ddTimeoutMs"`
	// record limit per chunk of the Fluentd output (0 = the shipped limits): chunks roll over by count, not only by the flush tick
	ChunkRecords int   `json:"chunkRecords"`
	Keys         int   `json:"keys"`      // number of key sets (apps)
	MemWindow    int   `json:"memWindow"` // defs.BufferMaxNumChunksInMemory
	Gens         []Gen `json:"gens"`
}

const confTemplate = `
anchors: []
schema:
  fields: [facility, level, time, host, app, pid, source, extradata, log]
  maxFields: 12
inputs:
  - type: syslog
    address: localhost:0
    levelMapping: [off, fatal, crit, error, warn, notice, info, debug]
    extractions:
      - type: delFields
        keys: [facility, pid]
orchestration:
  type: byKeySet
  keys: [%s]
  tag: dev.$app
metricKeys: [host]
transformations:
  - type: parseTime
    key: time
    errorLabel: timeError
%s
outputBufferPairs:
  - name: out1
    buffer:
        type: hybridBuffer
        rootPath: %s
        maxBufSize: 1GB
    output:
        type: fluentdForward
        serialization:
            environmentFields: [host]
            hiddenFields: []
            rewriteFields: {}
        messageMode: PackedForward
        upstream:
            address: %s
            tls: false
            secret: ""
            maxDuration: 300ms
`

var ddHTTPTimeout = "400ms"
var ffMaxDuration = "300ms"
var singleton = false
var sharedKey = ""

func confText(kind, queueRoot, upAddr string, twoKeys bool) string {
	keys, extra := "app", ""
	if twoKeys {
		keys = "app, source"
	}
	switch kind {
	case "keysdrop":
		keys = "app"
	case "transform":
		extra = "  - type: addFields\n    fields:\n      source: reloaded\n"
	case "invalid":
		extra = "  - type: noSuchTransform\n"
	case "incompatible":
		keys = "app, source"
	}
	text := fmt.Sprintf(confTemplate, keys, extra, queueRoot, upAddr)
	text = strings.Replace(text, "maxDuration: 300ms", "maxDuration: "+ffMaxDuration, 1)
	text = strings.Replace(text, `secret: ""`, `secret: "`+sharedKey+`"`, 1)
	if singleton {
		text = strings.Replace(text, "  type: byKeySet\n  keys: ["+keys+"]\n  tag: dev.$app\n", "  type: singleton\n  tag: dev.app1\n", 1)
	}
	if strings.HasPrefix(upAddr, "http://") {
		i := strings.Index(text, "    output:\n")
		text = text[:i] + "    output:\n        type: datadog\n        serialization:\n            hiddenFields: []\n        upstream:\n            address: " + upAddr + "\n            httpTimeout: " + ddHTTPTimeout + "\n"
	}
	if kind == "addoutput" {
		i := strings.Index(text, "  - name: out1")
		second := strings.Replace(strings.Replace(text[i:], "name: out1", "name: out2", 1), "rootPath: "+queueRoot, "rootPath: "+queueRoot+"2", 1)
		text += second
	}
	return text
}

type stamp struct{ g, c, i int }

type upstream struct {
	pre    string // "Up" for the first output's upstream, "Up2" for the second's
	tr     *vtrace.Tracer
	addr   string
	ln     net.Listener
	mu     sync.Mutex
	script []string
	nconn  int
	gen    int
	closed bool
	// what the upstream holds
	ackedStamps map[stamp]bool
}

func parseStamp(s string) (stamp, bool) {
	var st stamp
	if n, _ := fmt.Sscanf(s, "g%d-c%d-s%d", &st.g, &st.c, &st.i); n != 3 {
		return st, false
	}
	return st, true
}

func stampsOf(msg *forwardprotocol.Message) ([][]int, bool) {
	out := [][]int{}
	ok := true
	for _, e := range msg.Entries {
		st, good := parseStamp(fmt.Sprint(e.Record["log"]))
		app := fmt.Sprint(e.Record["app"])
		env, _ := e.Record["environment"].(map[string]interface{})
		if !good || env == nil || fmt.Sprint(env["host"]) != fmt.Sprintf("host%d", st.c) || !strings.HasPrefix(app, "app") {
			ok = false
		}
		k, _ := strconv.Atoi(strings.TrimPrefix(app, "app"))
		if singleton {
			k = 1
		}
		out = append(out, []int{st.g, st.c, st.i, k})
	}
	return out, ok
}

func (u *upstream) listen() error {
	ln, err := net.Listen("tcp", u.addr)
	if err != nil {
		return err
	}
	u.ln = ln
	u.addr = ln.Addr().String()
	go u.run(ln)
	return nil
}

func (u *upstream) run(ln net.Listener) {
	for {
		c, err := ln.Accept()
		if err != nil {
			return
		}
		u.mu.Lock()
		beh := "healthy"
		if u.nconn < len(u.script) {
			beh = u.script[u.nconn]
		}
		u.nconn++
		k := u.nconn
		u.mu.Unlock()
		u.tr.Emit(u.pre+"Accept", "k", k, "beh", beh)
		go u.serve(c, k, beh)
	}
}

func (u *upstream) serve(c net.Conn, k int, beh string) {
	defer c.Close()
	if beh == "noRead" { // keeps the connection and never reads: the sender blocks in the middle of a write once the buffers are full
		if tc, ok := c.(*net.TCPConn); ok {
			_ = tc.SetReadBuffer(4096)
		}
		u.mu.Lock()
		myGen := u.gen
		u.mu.Unlock()
		for t0 := time.Now(); time.Since(t0) < 30*time.Second; time.Sleep(20 * time.Millisecond) {
			u.mu.Lock()
			over := u.gen != myGen
			u.mu.Unlock()
			if over {
				return
			}
		}
		return
	}
	if beh == "closeNow" || beh == "refuse" {
		_ = c.(*net.TCPConn).SetLinger(0)
		return
	}
	if sharedKey != "" {
		key := sharedKey
		if beh == "badKey" {
			key = "another-key"
		}
		if ok, err := forwardprotocol.DoServerHandshake(c, key, time.Second, func(_, _, _ string) (bool, string) { return true, "" }); err != nil || !ok {
			return
		}
		_ = c.SetDeadline(time.Time{})
	} else if beh == "badKey" {
		return
	}
	dec := msgpack.NewDecoder(c)
	n := 0
	for {
		var msg forwardprotocol.Message
		if err := dec.Decode(&msg); err != nil {
			return
		}
		if msg.Option.Chunk == "" {
			continue // ping
		}
		n++
		st, ok := stampsOf(&msg)
		u.tr.Emit(u.pre+"Chunk", "k", k, "id", msg.Option.Chunk, "tag", msg.Tag, "stamps", st, "size", msg.Option.Size, "intact", ok)
		switch beh {
		case "noAck":
			continue
		case "resetAfter1", "resetAfter2":
			if n >= int(beh[len(beh)-1]-'0') {
				_ = c.(*net.TCPConn).SetLinger(0)
				return
			}
		case "lateAck":
			time.Sleep(120 * time.Millisecond)
		}
		var buf bytes.Buffer
		_ = msgpack.NewEncoder(&buf).Encode(forwardprotocol.Ack{Ack: msg.Option.Chunk})
		u.mu.Lock()
		for _, s := range st {
			u.ackedStamps[stamp{s[0], s[1], s[2]}] = true
		}
		u.mu.Unlock()
		u.tr.Emit(u.pre+"Ack", "k", k, "id", msg.Option.Chunk)
		if _, err := c.Write(buf.Bytes()); err != nil {
			return
		}
	}
}

// ddStamps decodes a Datadog request body or chunk file (gzip, JSON array of flat string maps)
func ddStamps(data []byte) (st [][]int, tag string, ok bool) {
	st = [][]int{}
	zr, err := gzip.NewReader(bytes.NewReader(data))
	if err != nil {
		return st, "", false
	}
	body, err := io.ReadAll(zr)
	if err != nil {
		return st, "", false
	}
	var arr []map[string]string
	if json.Unmarshal(body, &arr) != nil {
		return st, "", false
	}
	ok = true
	for _, r := range arr {
		s, good := parseStamp(r["log"])
		app := r["app"]
		wantTag := "dev." + app
		if singleton {
			wantTag = "dev.app1"
		}
		if !good || r["host"] != fmt.Sprintf("host%d", s.c) || !strings.HasPrefix(app, "app") || r["ddtags"] != wantTag || (tag != "" && tag != r["ddtags"]) {
			ok = false
		}
		tag = r["ddtags"]
		k, _ := strconv.Atoi(strings.TrimPrefix(app, "app"))
		if singleton {
			k = 1
		}
		st = append(st, []int{s.g, s.c, s.i, k})
	}
	return st, tag, ok
}

// ServeHTTP is the Datadog intake: one scripted outcome per request
func (u *upstream) ServeHTTP(w http.ResponseWriter, r *http.Request) {
	data, rerr := io.ReadAll(r.Body)
	u.mu.Lock()
	beh := "healthy"
	if u.nconn < len(u.script) {
		beh = u.script[u.nconn]
	}
	u.nconn++
	u.mu.Unlock()
	st, tag, ok := ddStamps(data)
	if rerr != nil || len(st) == 0 {
		ok = false
	}
	// a Datadog request carries no chunk id: the first record and the record count name the chunk (a resend is the same bytes)
	id := "none"
	if len(st) > 0 {
		id = fmt.Sprintf("dd-%02d-%02d-%06d-%04d", st[0][0], st[0][1], st[0][2], len(st))
	}
	u.tr.Emit(u.pre+"Chunk", "k", 1, "id", id, "tag", tag, "stamps", st, "size", len(st), "intact", ok && r.Header.Get("Content-Encoding") == "gzip")
	abort := func() {
		if hj, can := w.(http.Hijacker); can {
			if c, _, err := hj.Hijack(); err == nil {
				if tc, isTCP := c.(*net.TCPConn); isTCP {
					_ = tc.SetLinger(0)
				}
				c.Close()
			}
		}
	}
	switch beh {
	case "noAck":
		select {
		case <-r.Context().Done():
		case <-time.After(10 * time.Second):
		}
		abort()
		return
	case "closeNow", "refuse":
		abort()
		return
	case "resetAfter1":
		w.WriteHeader(500)
		return
	case "resetAfter2":
		w.WriteHeader(300)
		return
	case "lateAck":
		time.Sleep(120 * time.Millisecond)
	}
	u.mu.Lock()
	for _, s := range st {
		u.ackedStamps[stamp{s[0], s[1], s[2]}] = true
	}
	u.mu.Unlock()
	u.tr.Emit(u.pre+"Ack", "k", 1, "id", id)
	w.WriteHeader(202)
}

func diskStamps(root string) ([][]int, bool) {
	res := [][]int{}
	ok := true
	_ = filepath.Walk(root, func(p string, info os.FileInfo, err error) error {
		if err != nil || info.IsDir() || !(strings.HasSuffix(p, ".ff") || strings.HasSuffix(p, ".dd")) {
			return nil
		}
		data, _ := os.ReadFile(p)
		if strings.HasSuffix(p, ".dd") {
			st, _, good := ddStamps(data)
			if !good {
				ok = false
			}
			res = append(res, st...)
			return nil
		}
		var msg forwardprotocol.Message
		if derr := msgpack.NewDecoder(bytes.NewReader(data)).Decode(&msg); derr != nil {
			ok = false
			return nil
		}
		st, good := stampsOf(&msg)
		if !good {
			ok = false
		}
		res = append(res, st...)
		return nil
	})
	return res, ok
}

func sumMetric(m map[string]float64, contains ...string) int {
	total := 0.0
	for k, v := range m {
		all := true
		for _, c := range contains {
			if !strings.Contains(k, c) {
				all = false
			}
		}
		if all {
			total += v
		}
	}
	return int(total)
}

var runNo int

// RunScript executes one history
func RunScript(sc Script, work string) *vtrace.Tracer {
	runNo++
	tr := vtrace.New(1, false)
	root := filepath.Join(work, fmt.Sprintf("ag-%d", runNo))
	_ = os.RemoveAll(root)
	_ = os.MkdirAll(root, 0o755)
	defer os.RemoveAll(root)
	if sc.MemWindow > 0 {
		defs.BufferMaxNumChunksInMemory = sc.MemWindow
	} else {
		defs.BufferMaxNumChunksInMemory = 500
	}
	defs.ForwarderMaxPendingChunksForAck = 3
	if sc.AckWindow > 0 {
		defs.ForwarderMaxPendingChunksForAck = sc.AckWindow
	}
	if sc.ChunkRecords > 0 {
		oldRecs, oldBytes := fluentdforward.SetChunkLimitsForVerif(sc.ChunkRecords, 0)
		defer fluentdforward.SetChunkLimitsForVerif(oldRecs, oldBytes)
	}
	up := &upstream{pre: "Up", tr: tr, addr: "127.0.0.1:0", ackedStamps: map[stamp]bool{}}
	singleton = sc.Singleton
	sharedKey = ""
	if sc.Secret {
		sharedKey = "verif-shared-key"
	}
	ffMaxDuration = "300ms"
	if sc.MaxDurationMs > 0 {
		ffMaxDuration = fmt.Sprintf("%dms", sc.MaxDurationMs)
	}
	ddHTTPTimeout = "400ms"
	if sc.DDTimeoutMs > 0 {
		ddHTTPTimeout = fmt.Sprintf("%dms", sc.DDTimeoutMs)
	}
	if sc.Datadog {
		ln, err := net.Listen("tcp", "127.0.0.1:0")
		if err != nil {
			tr.Emit("HarnessError", "what", err.Error())
			return tr
		}
		up.ln, up.addr = ln, "http://"+ln.Addr().String()+"/api/v2/logs"
		srv := &http.Server{Handler: up}
		go func() { _ = srv.Serve(ln) }()
		defer srv.Close()
	} else if err := up.listen(); err != nil {
		tr.Emit("HarnessError", "what", err.Error())
		return tr
	}
	defer func() { up.ln.Close() }()
	var up2 *upstream
	queue := filepath.Join(root, "queue")
	queue2 := filepath.Join(root, "queue2")
	if sc.TwoOutputs {
		up2 = &upstream{pre: "Up2", tr: tr, addr: "127.0.0.1:0", ackedStamps: map[stamp]bool{}}
		if err := up2.listen(); err != nil {
			tr.Emit("HarnessError", "what", err.Error())
			return tr
		}
		defer func() { up2.ln.Close() }()
	}
	conf := func(kind string, twoKeys bool) string {
		text := confText(kind, queue, up.addr, twoKeys)
		if up2 != nil {
			i := strings.Index(text, "  - name: out1")
			second := strings.Replace(strings.Replace(strings.Replace(text[i:], "name: out1", "name: out2", 1), "rootPath: "+queue, "rootPath: "+queue2, 1), "address: "+up.addr, "address: "+up2.addr, 1)
			text += second
		}
		return text
	}
	cf := filepath.Join(root, "conf.yml")
	keys := sc.Keys
	if keys < 1 {
		keys = 1
	}
	if sc.Singleton {
		tr.Emit("History", "keys", 1, "script", sc.ID) // one stream per connection, whatever the apps
	} else {
		tr.Emit("History", "keys", keys, "script", sc.ID)
	}
	for gi, g := range sc.Gens {
		genNo := gi + 1
		up.mu.Lock()
		up.script, up.nconn, up.gen = g.Upstream, 0, genNo
		up.mu.Unlock()
		if up2 != nil {
			up2.mu.Lock()
			up2.script, up2.nconn, up2.gen = g.Upstream2, 0, genNo
			up2.mu.Unlock()
		}
		tr.Emit("Start", "gen", genNo)
		filesBefore := 0
		_ = filepath.Walk(queue, func(p string, info os.FileInfo, err error) error {
			if err == nil && !info.IsDir() && (strings.HasSuffix(p, ".ff") || strings.HasSuffix(p, ".dd")) {
				filesBefore++
			}
			return nil
		})
		_ = os.WriteFile(cf, []byte(conf("same", g.TwoKeys)), 0o644)
		prefix := fmt.Sprintf("ag%d_g%d_", runNo, genNo)
		var viaRunConf func(kind string) string
		var orc base.Orchestrator
		var launch func(base.Orchestrator) ([]string, func())
		var gather func() map[string]float64
		var reloadable *run.ReloadableOrchestrator
		var addrs []string
		var shutdownInputs func()
		var child *exec.Cmd
		var childErr *safeBuf
		if sc.ViaRun {
			// the agent's own main path in a child process; ports are chosen here because run.Run does not report them
			prefix = "slogagent_"
			var inPort, mPort int
			confNow := func(kind string) string {
				return strings.Replace(conf(kind, g.TwoKeys), "address: localhost:0", fmt.Sprintf("address: 127.0.0.1:%d", inPort), 1)
			}
			up := false
			for attempt := 0; attempt < 4 && !up; attempt++ { // (a port picked here may be taken by another process before the child binds it)
				inPort, mPort = freePort(), freePort()
				_ = os.WriteFile(cf, []byte(confNow("same")), 0o644)
				cargs := []string{"ag-runmain", "-conf", cf, "-metrics", fmt.Sprintf("127.0.0.1:%d", mPort), "-memwindow", fmt.Sprint(defs.BufferMaxNumChunksInMemory)}
				if g.Reload != "" {
					cargs = append(cargs, "-reload")
				}
				if sc.ChunkRecords > 0 {
					cargs = append(cargs, "-chunkrecords", fmt.Sprint(sc.ChunkRecords))
				}
				if g.InputFlushMs > 0 {
					cargs = append(cargs, "-inputflush", fmt.Sprint(g.InputFlushMs))
				}
				child = exec.Command(os.Args[0], cargs...)
				childErr = &safeBuf{}
				child.Stderr = childErr
				if err := child.Start(); err != nil {
					tr.Emit("HarnessError", "what", err.Error())
					return tr
				}
				addrs = []string{fmt.Sprintf("127.0.0.1:%d", inPort)}
				for t0 := time.Now(); time.Since(t0) < 5*time.Second && !strings.Contains(childErr.String(), "address already in use"); time.Sleep(5 * time.Millisecond) {
					// both listeners are up (the metric listener is the last thing run.Run starts)
					if c, err := net.DialTimeout("tcp", fmt.Sprintf("127.0.0.1:%d", mPort), 200*time.Millisecond); err == nil {
						c.Close()
						if c2, err2 := net.DialTimeout("tcp", addrs[0], 200*time.Millisecond); err2 == nil {
							c2.Close() // (an empty connection: the agent sees it come and go)
							up = true
							break
						}
					}
				}
				if !up {
					_ = child.Process.Kill()
					_ = child.Wait()
					if strings.Contains(childErr.String(), "address already in use") {
						continue
					}
					tr.Emit("HarnessError", "what", "the agent process did not start listening: "+childErr.String())
					return tr
				}
			}
			if !up {
				tr.Emit("HarnessError", "what", "the agent process did not start listening (ports taken four times): "+childErr.String())
				return tr
			}
			gather = func() map[string]float64 { return scrape(fmt.Sprintf("http://127.0.0.1:%d/metrics", mPort)) }
			viaRunConf = confNow
		} else if g.Reload != "" {
			rl, err := run.NewReloaderFromConfigFile(cf, prefix)
			if err != nil {
				tr.Emit("HarnessError", "what", err.Error())
				return tr
			}
			orc = rl.StartOrchestrator(logger.Root())
			reloadable, _ = orc.(*run.ReloadableOrchestrator)
			launch = rl.LaunchInputs
			gather = func() map[string]float64 { return vmetrics.Gather(rl.GetMetricGatherer()) }
		} else {
			ld, err := run.NewLoaderFromConfigFile(cf, prefix)
			if err != nil {
				tr.Emit("HarnessError", "what", err.Error())
				return tr
			}
			orc = ld.StartOrchestrator(logger.Root())
			launch = ld.LaunchInputs
			gather = func() map[string]float64 { return vmetrics.Gather(ld.GetMetricGatherer()) }
		}
		defs.InputFlushInterval = 30 * time.Millisecond
		if g.InputFlushMs > 0 {
			defs.InputFlushInterval = time.Duration(g.InputFlushMs) * time.Millisecond
		}
		if !sc.ViaRun {
			addrs, shutdownInputs = launch(orc)
		}
		var wg sync.WaitGroup
		var openMu sync.Mutex
		var openConns []net.Conn
		lines := 0
		for ci, cl := range g.Clients {
			lines += cl.N
			wg.Add(1)
			go func(c int, cl Client) {
				defer wg.Done()
				if cl.DelayMs > 0 {
					time.Sleep(time.Duration(cl.DelayMs) * time.Millisecond)
				}
				conn, err := net.Dial("tcp", addrs[0])
				if err != nil {
					tr.Emit("HarnessError", "what", err.Error())
					return
				}
				w := bufio.NewWriter(conn)
				for i := 1; i <= cl.N; i++ {
					k := (c+i)%keys + 1
					if cl.Pad > 0 {
						fmt.Fprintf(w, "<13>1 2020-07-20T03:48:20.154Z host%d app%d 1 src - g%d-c%d-s%d %s\n", c, k, genNo, c, i, strings.Repeat("p", cl.Pad))
					} else {
						fmt.Fprintf(w, "<13>1 2020-07-20T03:48:20.154Z host%d app%d 1 src - g%d-c%d-s%d\n", c, k, genNo, c, i)
					}
					if cl.PauseEvery > 0 && i%cl.PauseEvery == 0 {
						w.Flush()
						time.Sleep(time.Duration(cl.PauseMs) * time.Millisecond)
					}
				}
				w.Flush()
				if cl.KeepOpen {
					// 80 ms on the loopback: the agent has read and parsed what was written (reproduction decides otherwise)
					time.Sleep(80 * time.Millisecond)
					tr.Emit("Sent", "gen", genNo, "c", c, "n", cl.N)
					openMu.Lock()
					openConns = append(openConns, conn)
					openMu.Unlock()
					return
				}
				tr.Emit("Sent", "gen", genNo, "c", c, "n", cl.N)
				conn.Close()
			}(ci+1, cl)
		}
		if g.Reload != "" && child != nil {
			wg.Add(1)
			go func() {
				defer wg.Done()
				time.Sleep(time.Duration(g.ReloadAtMs) * time.Millisecond)
				_ = os.WriteFile(cf, []byte(viaRunConf(g.Reload)), 0o644)
				m0 := gather()
				before := sumMetric(m0, "slogagent_reloads_total")
				tr.Emit("ReloadBegin", "kind", g.Reload)
				_ = child.Process.Signal(syscall.SIGHUP)
				m := m0
				for t0 := time.Now(); time.Since(t0) < 5*time.Second; time.Sleep(5 * time.Millisecond) {
					m = gather()
					if sumMetric(m, "slogagent_reloads_total") > before {
						break
					}
				}
				tr.Emit("ReloadEnd", "kind", g.Reload, "success", sumMetric(m, "slogagent_reloads_total", "success"), "failure", sumMetric(m, "slogagent_reloads_total", "failure"), "before", before)
			}()
		}
		if g.Reload != "" && reloadable != nil {
			wg.Add(1)
			go func() {
				defer wg.Done()
				time.Sleep(time.Duration(g.ReloadAtMs) * time.Millisecond)
				_ = os.WriteFile(cf, []byte(conf(g.Reload, g.TwoKeys)), 0o644)
				before := sumMetric(gather(), "slogagent_reloads_total")
				tr.Emit("ReloadBegin", "kind", g.Reload)
				reloadable.ReloadForVerif()
				m := gather()
				tr.Emit("ReloadEnd", "kind", g.Reload, "success", sumMetric(m, "slogagent_reloads_total", "success"), "failure", sumMetric(m, "slogagent_reloads_total", "failure"), "before", before)
			}()
		}
		wg.Wait()
		// everything the clients wrote must have been read before the stop ("read" is what the property speaks about)
		deadline := time.Now().Add(3 * time.Second)
		if g.InputFlushMs > 0 {
			deadline = time.Now() // open connections, slow flush: the stop comes while records are parsed but not handed on
		}
		for time.Now().Before(deadline) {
			m := gather()
			if sumMetric(m, "input_passed_records_total")+sumMetric(m, "input_dropped_records_total") >= lines {
				break
			}
			time.Sleep(5 * time.Millisecond)
		}
		if g.Drain {
			// the upstreams are healthy from here on: every record of every generation has to be acknowledged, by each output
			for ui, u := range []*upstream{up, up2} {
				if u == nil {
					continue
				}
				deadline := time.Now().Add(6 * time.Second)
				missing := -1
				for time.Now().Before(deadline) {
					u.mu.Lock()
					missing = 0
					for gg := 1; gg <= genNo; gg++ {
						for ci, cl := range sc.Gens[gg-1].Clients {
							for i := 1; i <= cl.N; i++ {
								if !u.ackedStamps[stamp{gg, ci + 1, i}] {
									missing++
								}
							}
						}
					}
					u.mu.Unlock()
					if missing == 0 {
						break
					}
					time.Sleep(10 * time.Millisecond)
				}
				name := []string{"Drained", "Drained2"}[ui]
				// a history that changes the orchestration keys between generations is outside the claim: queue
				// directories are named by the key values, and the documentation says such a change breaks the recovery
				sameKeys := true
				for _, og := range sc.Gens {
					if og.TwoKeys != sc.Gens[0].TwoKeys || og.Reload == "keysdrop" {
						sameKeys = false
					}
				}
				if missing == 0 {
					tr.Emit(name, "gen", genNo)
				} else if sameKeys {
					tr.Emit("Not"+name, "gen", genNo, "missing", missing) // no action of the observer explains it
				}
			}
			time.Sleep(30 * time.Millisecond)
		}
		time.Sleep(time.Duration(g.StopAfter) * time.Millisecond)
		t0 := time.Now()
		tr.Emit("Stop", "gen", genNo)
		done := make(chan struct{})
		exitOK := true
		go func() {
			if child != nil {
				if sc.StopWithInt {
					_ = child.Process.Signal(syscall.SIGINT)
				} else {
					_ = child.Process.Signal(syscall.SIGTERM)
				}
				exitOK = child.Wait() == nil
			} else {
				shutdownInputs()
				orc.Shutdown()
			}
			close(done)
		}()
		select {
		case <-done:
			if !exitOK {
				d := childErr.String()
				if i := strings.Index(d, "panic:"); i >= 0 {
					d = d[i:]
				}
				if len(d) > 1500 {
					d = d[:1500]
				}
				tr.Emit("Crashed", "gen", genNo, "detail", d) // the agent process did not end with a clean exit
				return tr
			}
			tr.Emit("Stopped", "gen", genNo, "ms", time.Since(t0).Milliseconds())
			for _, c := range openConns {
				c.Close()
			}
		case <-time.After(20 * time.Second):
			if child != nil {
				_ = child.Process.Kill()
			}
			tr.Emit("HUNG", "gen", genNo)
			return tr
		}
		ds, dok := diskStamps(queue)
		tr.Emit("Disk", "gen", genNo, "stamps", ds, "intact", dok)
		if up2 != nil {
			ds2, dok2 := diskStamps(queue2)
			tr.Emit("Disk2", "gen", genNo, "stamps", ds2, "intact", dok2)
		}
		if child != nil {
			continue // the process is gone and its registry with it: the counters of this path are checked by the in-process runs
		}
		m := gather()
		nfiles := 0
		_ = filepath.Walk(queue, func(p string, info os.FileInfo, err error) error {
			if err == nil && !info.IsDir() && (strings.HasSuffix(p, ".ff") || strings.HasSuffix(p, ".dd")) {
				nfiles++
			}
			return nil
		})
		byHost := [][]int{}
		for ci := range g.Clients {
			byHost = append(byHost, []int{ci + 1, sumMetric(m, prefix+"process_passed_records_total", fmt.Sprintf("key_host=host%d,", ci+1))})
		}
		recovered := filesBefore
		if os.Getenv("VERIF_DUMP_METRICS") != "" {
			ks := []string{}
			for k, v := range m {
				if strings.HasPrefix(k, prefix) {
					ks = append(ks, fmt.Sprintf("%s = %v", k, v))
				}
			}
			sort.Strings(ks)
			fmt.Fprintln(os.Stderr, strings.Join(ks, "\n"))
		}
		tr.Emit("Metrics", "gen", genNo, "lines", lines,
			"inputPassed", sumMetric(m, prefix+"input_passed_records_total"), "inputDropped", sumMetric(m, prefix+"input_dropped_records_total"),
			"procPassed", sumMetric(m, prefix+"process_passed_records_total"), "procDropped", sumMetric(m, prefix+"process_dropped_records_total"),
			"chunksMade", sumMetric(m, prefix+"process_chunks_total"),
			"bufIn", sumMetric(m, prefix+"process_buffer_input_chunks_total"), "bufRecovered", recovered,
			"bufConsumed", sumMetric(m, prefix+"process_buffer_consumed_chunks_total"),
			"bufLeftover", sumMetric(m, prefix+"process_buffer_leftover_chunks_total"), "bufDropped", sumMetric(m, prefix+"process_buffer_dropped_chunks_total"),
			"bufPending", sumMetric(m, prefix+"process_buffer_pending_chunks"),
			"forwarded", sumMetric(m, prefix+"process_output_forwarded_chunks_total"), "acknowledged", sumMetric(m, prefix+"process_output_acknowledged_chunks_total"),
			"persistentChunks", sumMetric(m, prefix+"process_buffer_persistent_chunks{"), "filesOnDisk", nfiles,
			"passedByHost", byHost, "reloaded", g.Reload != "")
	}
	return tr
}

// safeBuf collects the child's stderr; it is read while the child still writes
type safeBuf struct {
	mu sync.Mutex
	b  strings.Builder
}

func (s *safeBuf) Write(p []byte) (int, error) {
	s.mu.Lock()
	defer s.mu.Unlock()
	return s.b.Write(p)
}

func (s *safeBuf) String() string {
	s.mu.Lock()
	defer s.mu.Unlock()
	return s.b.String()
}

// freePort asks the kernel for a free TCP port
func freePort() int {
	ln, err := net.Listen("tcp", "127.0.0.1:0")
	if err != nil {
		return 0
	}
	defer ln.Close()
	return ln.Addr().(*net.TCPAddr).Port
}

// scrape reads the Prometheus text exposition of the agent process into name{labels} -> value
func scrape(url string) map[string]float64 {
	out := map[string]float64{}
	cl := http.Client{Timeout: time.Second}
	resp, err := cl.Get(url)
	if err != nil {
		return out
	}
	defer resp.Body.Close()
	sc := bufio.NewScanner(resp.Body)
	sc.Buffer(make([]byte, 1<<20), 1<<24)
	for sc.Scan() {
		line := sc.Text()
		if line == "" || line[0] == '#' {
			continue
		}
		i := strings.LastIndexByte(line, ' ')
		if i < 0 {
			continue
		}
		v, perr := strconv.ParseFloat(line[i+1:], 64)
		if perr != nil {
			continue
		}
		out[strings.ReplaceAll(line[:i], "\"", "")] = v
	}
	return out
}

// RunMain is the child process of Script.ViaRun: the agent's own main function with the timeouts scaled as in Main
func RunMain(args []string) int {
	fs := flag.NewFlagSet("ag-runmain", flag.ExitOnError)
	conf := fs.String("conf", "", "configuration file")
	metrics := fs.String("metrics", "127.0.0.1:0", "metric listener address")
	reload := fs.Bool("reload", false, "allow reloads by SIGHUP")
	memWindow := fs.Int("memwindow", 500, "defs.BufferMaxNumChunksInMemory")
	inputFlush := fs.Int("inputflush", 30, "defs.InputFlushInterval in ms")
	chunkRecords := fs.Int("chunkrecords", 0, "record limit per Fluentd chunk")
	_ = fs.Parse(args)
	logger.SetLogLevel(logger.FatalLevel)
	scaleDefs()
	if *chunkRecords > 0 {
		fluentdforward.SetChunkLimitsForVerif(*chunkRecords, 0)
	}
	defs.BufferMaxNumChunksInMemory = *memWindow
	defs.InputFlushInterval = time.Duration(*inputFlush) * time.Millisecond
	run.Run(*conf, *metrics, *reload)
	return 0
}

func scaleDefs() {
	defs.EnableTestMode()
	defs.ForwarderRetryInterval = 20 * time.Millisecond
	defs.ForwarderBatchAckTimeout = 250 * time.Millisecond
	defs.ForwarderBatchSendTimeoutBase = 250 * time.Millisecond
	defs.ForwarderPingInterval = 100 * time.Millisecond
	defs.ForwarderAckerStopTimeout = 400 * time.Millisecond
	defs.ForwarderConnectionTimeout = 300 * time.Millisecond
	defs.IntermediateFlushInterval = 30 * time.Millisecond
	defs.InputFlushInterval = 30 * time.Millisecond
	defs.IntermediateChannelTimeout = 2 * time.Second
	defs.BufferShutDownTimeout = 3 * time.Second
	defs.ForwarderMaxPendingChunksForAck = 3 // a small ACK window, so that a silent upstream soon blocks the sender on it
}

// rankIDs replaces chunk id strings by their rank in the sorted order of all ids of the trace (ids sort by creation)
func rankIDs(evs []vtrace.Event) {
	set := map[string]bool{}
	for _, e := range evs {
		if id, ok := e["id"].(string); ok {
			set[id] = true
		}
	}
	ids := make([]string, 0, len(set))
	for id := range set {
		ids = append(ids, id)
	}
	sort.Strings(ids)
	rank := map[string]int{}
	for i, id := range ids {
		rank[id] = i + 1
	}
	for _, e := range evs {
		if id, ok := e["id"].(string); ok {
			e["id"] = rank[id]
		}
	}
}

// Main is the entry point of `vh ag`
func Main(args []string) int {
	fs := flag.NewFlagSet("ag", flag.ExitOnError)
	scriptsPath := fs.String("scripts", "", "ndjson scripts")
	outPath := fs.String("out", "", "ndjson trace")
	work := fs.String("work", "", "scratch directory")
	dumpMetrics := fs.Bool("dumpmetrics", false, "print metric names once")
	_ = fs.Parse(args)
	logger.SetLogLevel(logger.FatalLevel)
	scaleDefs()
	f, err := os.Open(*scriptsPath)
	if err != nil {
		fmt.Fprintln(os.Stderr, err)
		return 2
	}
	defer f.Close()
	_ = os.Remove(*outPath)
	scan := bufio.NewScanner(f)
	scan.Buffer(make([]byte, 1<<20), 1<<24)
	n := 0
	for scan.Scan() {
		var sc Script
		if json.Unmarshal(scan.Bytes(), &sc) != nil {
			continue
		}
		tr := RunScript(sc, *work)
		evs := tr.Events()
		rankIDs(evs)
		fo, _ := os.OpenFile(*outPath, os.O_CREATE|os.O_WRONLY|os.O_APPEND, 0o644)
		enc := json.NewEncoder(fo)
		// with two outputs the history is validated once per output: the first view has the first upstream and queue (and
		// no metrics: the counters are sums over both outputs), the second view the second upstream and queue
		second := []vtrace.Event{}
		for _, e := range evs {
			name, _ := e["ev"].(string)
			switch {
			case strings.HasPrefix(name, "Up2") || name == "Disk2" || name == "Drained2" || name == "NotDrained2":
				c := vtrace.Event{}
				for k, v := range e {
					c[k] = v
				}
				c["ev"] = strings.Replace(strings.Replace(name, "Up2", "Up", 1), "2", "", 1)
				second = append(second, c)
				continue
			case sc.TwoOutputs && (name == "Metrics" || name == "MetricsOld"):
				continue
			case sc.TwoOutputs && !(strings.HasPrefix(name, "Up") || name == "Disk" || name == "Drained" || name == "NotDrained"):
				second = append(second, e)
			}
			_ = enc.Encode(e)
		}
		_ = enc.Encode(vtrace.Event{"ev": "RESET", "script": sc.ID})
		if sc.TwoOutputs {
			for _, e := range second {
				_ = enc.Encode(e)
			}
			_ = enc.Encode(vtrace.Event{"ev": "RESET", "script": sc.ID})
		}
		fo.Close()
		n++
		_ = dumpMetrics
	}
	fmt.Printf("{\"scripts\":%d}\n", n)
	return 0
}
