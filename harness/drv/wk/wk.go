// Package wk runs the real bsupport.LogProcessingWorker (select loop, tick flush, stop flush) with two real Fluentd
// Forward chunk makers whose record limit is lowered, the harness being the sender on the input channel and the receiver
// of every chunk (AcceptChunk, decoded to record ids). It records a trace for WorkerTrace.tla.
package wk

import (
	"bufio"
	"encoding/json"
	"flag"
	"fmt"
	"os"
	"strconv"
	"time"

	"github.com/relex/fluentlib/protocol/forwardprotocol"
	"github.com/relex/gotils/logger"
	"github.com/relex/gotils/promexporter/promreg"
	"github.com/relex/slog-agent/base"
	"github.com/relex/slog-agent/base/bsupport"
	"github.com/relex/slog-agent/defs"
	"github.com/relex/slog-agent/output/fluentdforward"

	"verifharness/drv/pk"
	"verifharness/vtrace"
)

// Step is one step of the environment
type Step struct {
	Do    string `json:"do"`    // send | wait | close
	Drops []bool `json:"drops"` // send: one flag per record of the batch (true = the transforms drop it)
	Ms    int    `json:"ms"`    // wait
}

// Script is one scenario
type Script struct {
	ID       string `json:"id"`
	MaxChunk int    `json:"maxChunk"`
	Cap      int    `json:"cap"` // capacity of the input channel
	Steps    []Step `json:"steps"`
}

const outs = 2

var schema = base.MustNewLogSchema([]string{"id", "kind"})

// stampSerializer turns a record into a MessagePack event carrying the record's id
type stampSerializer struct{}

func (stampSerializer) SerializeRecord(record *base.LogRecord) base.LogStream {
	n, _ := strconv.Atoi(record.Fields[0])
	return pk.FFEvent(n, 24)
}

var runNo int

// RunScript executes one scenario
func RunScript(sc Script) *vtrace.Tracer {
	runNo++
	tr := vtrace.New(1, false)
	fluentdforward.SetChunkLimitsForVerif(sc.MaxChunk, 1<<20)
	alloc := base.NewLogAllocator(schema, outs)
	mf := promreg.NewMetricFactory(fmt.Sprintf("wk%d_", runNo), nil, nil)
	names := []string{}
	ois := []bsupport.OutputInterface{}
	for o := 1; o <= outs; o++ {
		o := o
		name := fmt.Sprintf("out%d", o)
		names = append(names, name)
		cfg := &fluentdforward.Config{MessageMode: forwardprotocol.MessageMode("Forward")}
		ois = append(ois, bsupport.OutputInterface{
			LogSerializer: stampSerializer{},
			LogChunkMaker: cfg.NewChunkMaker(logger.Root(), "verif.tag"),
			Name:          name,
			AcceptChunk: func(chunk base.LogChunk) {
				ids, ok := pk.DecodeFFStamps(chunk.Data)
				if ids == nil {
					ids = []int{}
				}
				tr.Emit("Chunk", "o", o, "ids", ids, "decoded", ok, "chunkId", chunk.ID)
			},
		})
	}
	pc := base.NewLogProcessCounter(mf, schema, nil, names)
	input := make(chan []*base.LogRecord, sc.Cap)
	drop := func(record *base.LogRecord) base.FilterResult {
		if record.Fields[1] == "drop" {
			return base.DROP
		}
		return base.PASS
	}
	w := bsupport.NewLogProcessingWorker(logger.Root(), input, alloc, pc, []base.LogTransformFunc{drop}, ois)
	tr.Emit("Age") // see WorkerTrace.tla: the first tick cannot come before the worker is one interval old
	w.Start()
	next := 0
	for _, st := range sc.Steps {
		switch st.Do {
		case "send":
			batch := []*base.LogRecord{}
			ids := []int{}
			for _, d := range st.Drops {
				next++
				rec, _ := alloc.NewRecord([]byte("r"))
				kind := "pass"
				if d {
					kind = "drop"
				}
				rec.Fields[0], rec.Fields[1] = strconv.Itoa(next), kind
				rec.RawLength = 10
				batch = append(batch, rec)
				ids = append(ids, next)
			}
			tr.Emit("Send", "ids", ids, "drops", st.Drops)
			input <- batch
		case "wait":
			time.Sleep(time.Duration(st.Ms) * time.Millisecond)
		}
	}
	tr.Emit("Close")
	close(input)
	if w.Stopped().Wait(5 * time.Second) {
		tr.Emit("Stopped")
	} else {
		tr.Emit("HUNG")
	}
	return tr
}

// Main is the entry point of `vh wk`
func Main(args []string) int {
	fs := flag.NewFlagSet("wk", flag.ExitOnError)
	scriptsPath := fs.String("scripts", "", "ndjson scripts")
	outPath := fs.String("out", "", "ndjson trace")
	_ = fs.Parse(args)
	logger.SetLogLevel(logger.FatalLevel)
	defs.IntermediateFlushInterval = 15 * time.Millisecond
	f, err := os.Open(*scriptsPath)
	if err != nil {
		fmt.Fprintln(os.Stderr, err)
		return 2
	}
	defer f.Close()
	_ = os.Remove(*outPath)
	scan := bufio.NewScanner(f)
	scan.Buffer(make([]byte, 1<<20), 1<<24)
	n := 0
	for scan.Scan() {
		var sc Script
		if json.Unmarshal(scan.Bytes(), &sc) != nil {
			continue
		}
		tr := RunScript(sc)
		_ = tr.AppendTo(*outPath, vtrace.Event{"ev": "RESET", "script": sc.ID})
		n++
	}
	fmt.Printf("{\"scripts\":%d}\n", n)
	return 0
}
