// Package fc exercises the real Forward connection (output/fluentdforward forwardConnection, the
// ClosableClientConnection under the forwarding client) against a scripted TCP peer and records how every operation
// ended - result, elapsed time, what the peer did, when Close was called - for ConnTrace.tla.  The forwarding client's
// specification (Forwarder.tla) takes the connection's contract for granted: an operation ends with the peer's answer,
// at its deadline or when Close is called, whichever comes first; this driver binds that contract to the code.
package fc

import (
	"bufio"
	"bytes"
	"crypto/ecdsa"
	"crypto/elliptic"
	"crypto/rand"
	"crypto/tls"
	"crypto/x509"
	"crypto/x509/pkix"
	"encoding/json"
	"flag"
	"fmt"
	"io"
	"math/big"
	"net"
	"os"
	"time"

	"github.com/relex/fluentlib/protocol/forwardprotocol"
	"github.com/relex/gotils/logger"
	"github.com/relex/slog-agent/base"
	"github.com/relex/slog-agent/defs"
	"github.com/relex/slog-agent/output/baseoutput"
	"github.com/relex/slog-agent/output/fluentdforward"
	"github.com/vmihailenco/msgpack/v4"

	"verifharness/vtrace"
)

// Script is one connection's life
type Script struct {
	ID  string `json:"id"`
	TLS bool   `json:"tls"`
	// what the peer does with the chunk after the K acknowledged ones:
	// acks | silent | noread | closes | resets | garbage | wrong | late
	Peer       string `json:"peer"`
	K          int    `json:"k"`          // chunks sent and acknowledged normally before the operation under test
	Op         string `json:"op"`         // the operation under test: ack (after a small send) | send (SendSize bytes) | ping
	SendSize   int    `json:"sendSize"`   // size of the chunk of the operation under test
	DeadlineMs int    `json:"deadlineMs"` // its deadline
	CloseAtMs  int    `json:"closeAtMs"`  // Close is called from another goroutine so long after the operation began (-1 = never)
	LateMs     int    `json:"lateMs"`     // peer "late": the ACK comes after so long
	// shared-key handshake: "" (none) | right | wrongkey (the peer holds another key) | reject (the peer refuses the login) |
	// mute (the peer accepts the connection and never sends HELO)
	Secret string `json:"secret"`
}

func chunkBytes(id string, size int) []byte {
	var buf bytes.Buffer
	enc := msgpack.NewEncoder(&buf)
	_ = enc.EncodeArrayLen(3)
	_ = enc.EncodeString("verif.tag")
	pad := size - 60
	if pad < 0 {
		pad = 0
	}
	_ = enc.EncodeBytes(bytes.Repeat([]byte{'x'}, pad))
	_ = enc.Encode(forwardprotocol.TransportOption{Size: 1, Chunk: id})
	return buf.Bytes()
}

func selfSigned() tls.Certificate {
	key, _ := ecdsa.GenerateKey(elliptic.P256(), rand.Reader)
	tmpl := &x509.Certificate{SerialNumber: big.NewInt(1), Subject: pkix.Name{CommonName: "verif"}, NotBefore: time.Now().Add(-time.Hour), NotAfter: time.Now().Add(time.Hour),
		IPAddresses: []net.IP{net.ParseIP("127.0.0.1")}}
	der, _ := x509.CreateCertificate(rand.Reader, tmpl, tmpl, &key.PublicKey, key)
	return tls.Certificate{Certificate: [][]byte{der}, PrivateKey: key}
}

var cert = selfSigned()

// peer serves one connection
func peer(c net.Conn, sc Script, tr *vtrace.Tracer, done chan struct{}) {
	defer c.Close()
	dec := msgpack.NewDecoder(c)
	n := 0
	for {
		if sc.Peer == "noread" && n >= sc.K {
			<-done // holds the socket open without reading
			return
		}
		// [tag, entries (array or packed binary), option]
		if l, err := dec.DecodeArrayLen(); err != nil || l != 3 {
			return
		}
		if _, err := dec.DecodeString(); err != nil {
			return
		}
		if err := dec.Skip(); err != nil {
			return
		}
		optAny, err := dec.DecodeMap()
		if err != nil {
			return
		}
		opt, _ := optAny.(map[string]interface{})
		chunkID, _ := opt["chunk"].(string)
		if chunkID == "" {
			tr.Emit("PeerGotPing")
			continue
		}
		n++
		tr.Emit("PeerGot", "id", chunkID)
		beh := "acks"
		if n > sc.K {
			beh = sc.Peer
		}
		reply := chunkID
		switch beh {
		case "silent":
			continue
		case "closes":
			return
		case "resets":
			if tc, ok := c.(*net.TCPConn); ok {
				_ = tc.SetLinger(0)
			}
			return
		case "garbage":
			_, _ = c.Write([]byte{0xc1, 0xc1, 0xc1, 0xc1})
			continue
		case "wrong":
			reply = "not-" + chunkID
		case "late":
			select {
			case <-time.After(time.Duration(sc.LateMs) * time.Millisecond):
			case <-done:
				return
			}
		}
		var buf bytes.Buffer
		_ = msgpack.NewEncoder(&buf).Encode(forwardprotocol.Ack{Ack: reply})
		tr.Emit("PeerAcks", "id", reply)
		if _, err := c.Write(buf.Bytes()); err != nil {
			return
		}
	}
}

type result struct {
	ok  bool
	id  string
	err string
}

// timed runs one operation; an operation that has not ended 2 s after its deadline is reported as hung (and the
// connection is closed to release the goroutine)
func timed(tr *vtrace.Tracer, conn baseoutput.ClosableClientConnection, phase, op string, deadlineMs, closeAtMs int, f func(time.Time) result) {
	t0 := time.Now()
	ch := make(chan result, 1)
	go func() { ch <- f(t0.Add(time.Duration(deadlineMs) * time.Millisecond)) }()
	var closeCh <-chan time.Time
	if closeAtMs >= 0 {
		closeCh = time.After(time.Duration(closeAtMs) * time.Millisecond)
	}
	closedAt := int64(-1)
	hang := time.After(time.Duration(deadlineMs)*time.Millisecond + 2*time.Second)
	for {
		select {
		case r := <-ch:
			tr.Emit("Ret", "phase", phase, "op", op, "ok", r.ok, "ms", time.Since(t0).Milliseconds(), "id", r.id, "deadlineMs", deadlineMs, "closedAtMs", closedAt, "hung", false, "err", r.err)
			return
		case <-closeCh:
			closedAt = time.Since(t0).Milliseconds()
			conn.Close()
			closeCh = nil
		case <-hang:
			tr.Emit("Ret", "phase", phase, "op", op, "ok", false, "ms", time.Since(t0).Milliseconds(), "id", "", "deadlineMs", deadlineMs, "closedAtMs", closedAt, "hung", true, "err", "")
			conn.Close()
			<-ch
			return
		}
	}
}

func errText(err error) string {
	if err == nil {
		return ""
	}
	s := err.Error()
	if len(s) > 120 {
		s = s[:120]
	}
	return s
}

func runScript(sc Script) *vtrace.Tracer {
	tr := vtrace.New(1, false)
	tr.Emit("Case", "script", sc.ID, "peer", sc.Peer, "k", sc.K, "op", sc.Op, "sendSize", sc.SendSize, "deadlineMs", sc.DeadlineMs, "closeAtMs", sc.CloseAtMs, "lateMs", sc.LateMs, "tls", sc.TLS)
	var ln net.Listener
	var err error
	if sc.TLS && sc.Secret != "tlsmute" {
		ln, err = tls.Listen("tcp", "127.0.0.1:0", &tls.Config{Certificates: []tls.Certificate{cert}})
	} else {
		ln, err = net.Listen("tcp", "127.0.0.1:0")
	}
	if err != nil {
		tr.Emit("HarnessError", "what", err.Error())
		return tr
	}
	defer ln.Close()
	done := make(chan struct{})
	defer close(done)
	go func() {
		c, aerr := ln.Accept()
		if aerr != nil {
			return
		}
		if tc, ok := c.(*net.TCPConn); ok && sc.Peer == "noread" {
			_ = tc.SetReadBuffer(4096) // a peer that does not read fills up soon
		}
		if tc, ok := c.(*tls.Conn); ok {
			if tc.Handshake() != nil { // (a peer that does not read still completes the handshake)
				c.Close()
				return
			}
		}
		switch sc.Secret {
		case "":
		case "mute", "tlsmute": // (tlsmute: a plain TCP peer that never speaks, under a client that expects TLS)
			<-done
			c.Close()
			return
		default:
			key := "the-key"
			if sc.Secret == "wrongkey" {
				key = "another-key"
			}
			okHs, herr := forwardprotocol.DoServerHandshake(c, key, 2*time.Second, func(_, _, _ string) (bool, string) {
				return sc.Secret != "reject", "scripted"
			})
			if herr != nil || !okHs {
				time.Sleep(20 * time.Millisecond)
				c.Close()
				return
			}
			_ = c.SetDeadline(time.Time{})
		}
		peer(c, sc, tr, done)
	}()
	secret := ""
	if sc.Secret != "" && sc.Secret != "tlsmute" {
		secret = "the-key"
	}
	tOpen := time.Now()
	conn, err := fluentdforward.OpenConnectionForVerif(logger.Root(), fluentdforward.UpstreamConfig{Address: ln.Addr().String(), TLS: sc.TLS, Secret: secret})
	tr.Emit("OpenRet", "ok", err == nil, "ms", time.Since(tOpen).Milliseconds(), "secret", sc.Secret, "hsTimeoutMs", defs.ForwarderHandshakeTimeout.Milliseconds(), "connTimeoutMs", defs.ForwarderConnectionTimeout.Milliseconds(), "err", errText(err))
	if err != nil {
		tr.Emit("End")
		return tr
	}
	send := func(id string, size int) func(time.Time) result {
		data := chunkBytes(id, size)
		return func(d time.Time) result {
			e := conn.SendChunk(base.LogChunk{ID: id, Data: data}, d)
			return result{e == nil, id, errText(e)}
		}
	}
	ack := func(d time.Time) result {
		id, e := conn.ReadChunkAck(d)
		return result{e == nil, id, errText(e)}
	}
	ping := func(d time.Time) result {
		e := conn.SendPing(d)
		return result{e == nil, "", errText(e)}
	}
	// K ordinary rounds
	for i := 1; i <= sc.K; i++ {
		timed(tr, conn, "prelude", "send", 1000, -1, send(fmt.Sprintf("c%d", i), 200))
		timed(tr, conn, "prelude", "ack", 1000, -1, ack)
	}
	// the operation under test
	id := fmt.Sprintf("c%d", sc.K+1)
	switch sc.Op {
	case "ack":
		timed(tr, conn, "prelude", "send", 1000, -1, send(id, 200))
		timed(tr, conn, "final", "ack", sc.DeadlineMs, sc.CloseAtMs, ack)
	case "send":
		timed(tr, conn, "final", "send", sc.DeadlineMs, sc.CloseAtMs, send(id, sc.SendSize))
	case "ping":
		timed(tr, conn, "final", "ping", sc.DeadlineMs, sc.CloseAtMs, ping)
	}
	// after Close nothing works any more, and nothing blocks
	conn.Close()
	tr.Emit("Closed")
	timed(tr, conn, "afterClose", "send", 300, -1, send("late", 200))
	timed(tr, conn, "afterClose", "ping", 300, -1, ping)
	timed(tr, conn, "afterClose", "ack", 300, -1, ack)
	tr.Emit("End")
	return tr
}

// Main is the entry point of `vh fc`
func Main(args []string) int {
	fs := flag.NewFlagSet("fc", flag.ExitOnError)
	scripts := fs.String("scripts", "", "ndjson scripts")
	out := fs.String("out", "", "ndjson trace")
	_ = fs.Parse(args)
	logger.SetLogLevel(logger.FatalLevel)
	defs.ForwarderConnectionTimeout = 400 * time.Millisecond
	defs.ForwarderHandshakeTimeout = 300 * time.Millisecond
	f, err := os.Open(*scripts)
	if err != nil {
		fmt.Fprintln(os.Stderr, err)
		return 2
	}
	defer f.Close()
	_ = os.Remove(*out)
	sc := bufio.NewScanner(f)
	sc.Buffer(make([]byte, 1<<20), 1<<24)
	n := 0
	for sc.Scan() {
		var s Script
		if json.Unmarshal(sc.Bytes(), &s) != nil {
			continue
		}
		tr := runScript(s)
		_ = tr.AppendTo(*out, vtrace.Event{"ev": "RESET", "script": s.ID})
		n++
	}
	fmt.Printf("{\"scripts\":%d}\n", n)
	_ = io.Discard
	return 0
}
