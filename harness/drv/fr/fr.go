// Package fr runs the real multiLineReader over every (stream, fragmentation, flush placement) of a bounded space and
// logs every step for FramingTrace.tla
package fr

import (
	"flag"
	"io"

	"github.com/relex/slog-agent/input/tcplistener"

	"verifharness/fnutil"
)

func test(line []byte) bool { return len(line) > 0 && line[0] == 'h' }

func ints(b []byte) []int {
	r := make([]int, len(b))
	for i, c := range b {
		r[i] = int(c)
	}
	return r
}

// Main is the entry point of `vh fr`
func Main(args []string) int {
	var minBuf, soft, maxLen *int
	var noEnd *bool
	o := fnutil.Open("fr", args, func(fs *flag.FlagSet) {
		minBuf = fs.Int("minbuf", 48, "minBufferSize")
		soft = fs.Int("soft", 16, "softRecordLimit")
		maxLen = fs.Int("maxlen", 5, "maximal stream length")
		noEnd = fs.Bool("noend", false, "do not emit end events (overflow configuration)")
	})
	syms := []byte{'h', 'x', '\n'}

	schedNo := 0
	runSchedule := func(stream []byte, labels []int) {
		// every other schedule: the source hands the last bytes over together with io.EOF (an io.Reader may return n > 0 and
		// an error from the same call); the bytes count all the same
		schedNo++
		lastWithEOF := schedNo%2 == 0
		lastFrag := false // labels[i] for the boundary after byte i+1: 0 none, 1 cut, 2 cut+flush
		var frags [][]byte
		var flushAfter []bool
		start := 0
		for i, lb := range labels {
			if lb > 0 {
				frags = append(frags, stream[start:i+1])
				flushAfter = append(flushAfter, lb == 2)
				start = i + 1
			}
		}
		frags = append(frags, stream[start:])
		flushAfter = append(flushAfter, false)
		var out [][]int
		var pending []byte
		read := func(p []byte) (int, error) {
			if len(pending) == 0 {
				return 0, io.EOF
			}
			n := copy(p, pending)
			pending = pending[n:]
			if lastWithEOF && lastFrag && len(pending) == 0 {
				return n, io.EOF
			}
			return n, nil
		}
		mlr := tcplistener.NewMultiLineReaderForVerif(read, test, *minBuf, *soft, func(s []byte) { out = append(out, ints(s)) })
		emit := func(op string, data []byte) {
			s, a, _ := mlr.State()
			ev := map[string]any{"ev": "FR", "op": op, "out": out, "search": s, "append": a}
			if out == nil {
				ev["out"] = [][]int{}
			}
			if data != nil {
				ev["data"] = ints(data)
			}
			o.Emit(ev)
			out = nil
		}
		o.Emit(map[string]any{"ev": "FR", "op": "new"})
		for i, f := range frags {
			pending = f
			lastFrag = i == len(frags)-1
			for len(pending) > 0 { // the reader takes at most what its buffer allows
				before := len(pending)
				_ = mlr.Read()
				emit("read", f[len(f)-before:len(f)-len(pending)])
			}
			if flushAfter[i] {
				mlr.Flush()
				emit("flush", nil)
			}
		}
		mlr.FlushAll()
		emit("flushall", nil)
		if !*noEnd {
			o.Emit(map[string]any{"ev": "FR", "op": "end", "stream": ints(stream)})
		}
	}

	var streams [][]byte
	var gen func(prefix []byte, n int)
	gen = func(prefix []byte, n int) {
		if len(prefix) > 0 && prefix[len(prefix)-1] == '\n' {
			streams = append(streams, append([]byte{}, prefix...))
		}
		if n == 0 {
			return
		}
		for _, s := range syms {
			gen(append(prefix, s), n-1)
		}
	}
	gen(nil, *maxLen)
	for _, st := range streams {
		nb := len(st) - 1
		labels := make([]int, nb)
		for {
			if o.Mine() {
				runSchedule(st, labels)
			}
			i := 0
			for i < nb {
				labels[i]++
				if labels[i] < 3 {
					break
				}
				labels[i] = 0
				i++
			}
			if i == nb {
				break
			}
		}
	}
	o.Close()
	return 0
}
