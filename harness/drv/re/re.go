// Package re runs the real redactEmail transform over a bounded space of texts and records (input, output) events
// for RedactTrace.tla
package re

import (
	"fmt"
	"math/rand"
	"strings"

	"github.com/relex/gotils/logger"
	"github.com/relex/slog-agent/base"
	"github.com/relex/slog-agent/transform/tredactemail"

	"verifharness/fnutil"
)

// Main is the entry point of `vh re`
func Main(args []string) int {
	o := fnutil.Open("re", args, nil)
	logger.SetLogLevel(logger.FatalLevel)
	schema := base.MustNewLogSchema([]string{"msg"})
	cnt := fnutil.NewCounter()
	cfg := &tredactemail.Config{Key: "msg", MetricLabel: "redacted"}
	tf := cfg.NewTransform(schema, logger.Root(), cnt)

	run := func(in string) {
		if !o.Mine() {
			return
		}
		ev := map[string]any{"ev": "RE", "in": fnutil.Bytes(in), "res": "ok"}
		before := cnt.Count["redacted"]
		rec := schema.NewTestRecord1(base.LogFields{strings.Clone(in)})
		rec.RawLength = 50
		func() {
			defer func() {
				if r := recover(); r != nil {
					ev["res"] = "panic"
					ev["panic"] = fmt.Sprint(r)
				}
			}()
			tf.Transform(rec)
		}()
		ev["out"] = fnutil.Bytes(rec.Fields[0])
		ev["counted"] = cnt.Count["redacted"] != before
		o.Emit(ev)
	}

	// all texts up to length L over the symbol alphabet (the 2-byte rune counts as one symbol)
	syms := []string{"a", "1", ".", "-", "_", "@", "/", " ", "\xc3\xa9"}
	maxLen := 5
	if o.Tier == "thorough" {
		maxLen = 7
	}
	var rec func(prefix string, n int)
	rec = func(prefix string, n int) {
		run(prefix)
		if n == 0 {
			return
		}
		for _, s := range syms {
			rec(prefix+s, n-1)
		}
	}
	rec("", maxLen)

	// generated texts with 0..4 addresses at all adjacencies
	rnd := rand.New(rand.NewSource(o.Seed))
	locals := []string{"joe", "li.wei", "x_y", "a-b", "ops1", "j", "first.last", "9lives", "a..b", ".dot", "u_"}
	domains := []string{"example.org", "163.com", "3com.net", "1und1.de", "mail.co.uk", "host", "7-elev", "a.b", "1a.1", "1x.y2", "123.456", "11.0.6",
		"x-y.z", "a-.b", "a_b.c", "sub.dom.example", "b.", "b..c", "g9.h"}
	fillers := []string{"", " ", "  ", "x", ":", "/", "//", " at ", "@", " @ ", "a@", "@b", "\xc3\xa9", "\xe2\x80\x9c", "\\n", "\\t", ",", ";", "=", "<", ">", "(", ")",
		"mailto:", "http://h/", "n\xc2\xba", "5\xe2\x82\xaa", "Trx@123456./", "git@4.7.1 "}
	n := 3000
	if o.Tier == "thorough" {
		n = 150000
	}
	for k := 0; k < n; k++ {
		var sb strings.Builder
		sb.WriteString(fillers[rnd.Intn(len(fillers))])
		for a := rnd.Intn(5); a > 0; a-- {
			sb.WriteString(locals[rnd.Intn(len(locals))] + "@" + domains[rnd.Intn(len(domains))])
			if rnd.Intn(3) > 0 {
				sb.WriteString(fillers[rnd.Intn(len(fillers))])
			}
		}
		if rnd.Intn(4) == 0 {
			sb.WriteString(fillers[rnd.Intn(len(fillers))])
		}
		t := sb.String()
		if len(t) > 64 {
			t = t[:64]
		}
		run(t)
	}
	o.Close()
	return 0
}
