// Package rp decides C12 on the real agent: a long stream of records of every shape (all sequences of shapes up to a
// bound, over two interleaved connections, with record and buffer pooling really in effect) is processed by one
// long-lived agent, and every record is also processed alone on a fresh parser / transform / serializer set. The trace
// carries the allocator events of the real LogAllocator (hooks alloc.new / alloc.release / alloc.recycle) and, per record
// and output, both decoded outputs and the provenance tokens found in the long-run output.
package rp

import (
	"bufio"
	"bytes"
	"encoding/json"
	"flag"
	"fmt"
	"math/rand"
	"net"
	"os"
	"path/filepath"
	"regexp"
	"runtime"
	"runtime/debug"
	"sort"
	"strconv"
	"strings"
	"sync"
	"sync/atomic"
	"time"

	"github.com/relex/gotils/channels"
	"github.com/relex/gotils/logger"
	"github.com/relex/gotils/promexporter/promreg"
	"github.com/relex/slog-agent/base"
	"github.com/relex/slog-agent/base/bsupport"
	"github.com/relex/slog-agent/defs"
	"github.com/relex/slog-agent/run"
	"github.com/relex/slog-agent/util/vhook"

	"verifharness/fnutil"
	"verifharness/vmetrics"
)

const confHead = `schema:
  fields: [facility, level, time, host, app, pid, source, extradata, log, class, task, vhost, pnum, note, upper]
  maxFields: 20
inputs:
  - type: syslog
    address: localhost:0
    levelMapping: [off, fatal, crit, error, warn, notice, info, debug]
    extractions:
      - type: extractHead
        key: log
        pattern: '\[*\] - '
        maxLen: 100
        destKey: class
      - type: extractTail
        key: source
        pattern: ':[0-9a-f-]'
        maxLen: 41
        destKey: task
      - type: extractTail
        key: app
        pattern: '/*'
        maxLen: 100
        destKey: vhost
      - type: truncate
        key: source
        maxLen: 13
        suffix: '~'
      - type: addFields
        fields:
          pnum: '${task[-1:]}'
      - type: if
        match:
          class: !!str-any
          task: !!str-any
        then:
          - type: addFields
            fields:
              task: '$task:$class'
orchestration:
  type: byKeySet
  keys: [app]
  tag: dev.$app
metricKeys: [host, vhost]
transformations:
  - type: switch
    cases:
      - match:
          app: appServ
        then:
          - type: drop
            match:
              source: auth.log
            percentage: 100
            metricLabel: app-auth
          - type: if
            match:
              log: !!glob 'P[OU][ST]** params=**'
            then:
              - type: truncate
                key: log
                maxLen: 60
                suffix: ' ... (cut)'
          - type: redactEmail
            key: log
            metricLabel: redacted
      - match:
          app: other
        then:
          - type: addFields
            fields:
              note: 'n=$pnum ${log[0:14]}'
          - type: unescape
            key: log
          - type: mapValue
            key: level
            mapping:
              info: INFO
            default: OTHER
  - type: block
    steps:
      - type: parseTime
        key: time
        errorLabel: timeError
      - type: delFields
        keys: [time]
  - type: addFields
    fields:
      upper: $host
outputBufferPairs:
  - name: fluentd
    buffer:
      type: hybridBuffer
      rootPath: ROOT/q1
      maxBufSize: 1GB
    output:
      type: fluentdForward
      serialization:
        environmentFields: [host, vhost]
        hiddenFields: [pnum]
        rewriteFields:
          log:
            - type: inline
              field: class
            - type: unescape
      messageMode: CompressedPackedForward
      upstream:
        address: 127.0.0.1:9
        tls: false
        secret: ''
        maxDuration: 30m
`

const confSecond = `  - name: datadogAPI
    buffer:
      type: hybridBuffer
      rootPath: ROOT/q2
      maxBufSize: 1GB
    output:
      type: datadog
      serialization:
        hiddenFields: [pnum]
      upstream:
        address: http://127.0.0.1:9/api/v2/logs
        httpTimeout: 30s
`

var runNo int

var shapes = []string{"short", "longfull", "longbare", "escaped", "escapedlong", "multiline", "malformed", "dropped", "badtime", "email"}

var baseTime = time.Date(2020, 7, 20, 3, 0, 0, 0, time.UTC)

func token(n int) string { return fmt.Sprintf("Q%06dQ", n) }

// buildRecord returns the bytes of record n of the given shape (one record, possibly several physical lines)
func buildRecord(shape string, n int) string {
	tok := token(n)
	ts := baseTime.Add(time.Duration(n) * time.Second).Format("2006-01-02T15:04:05.000Z")
	pad := strings.Repeat("p", 1100)
	d := n % 10
	switch shape {
	case "short":
		return fmt.Sprintf("<134>1 %s h%s other 1 s%s - m%s", ts, tok, tok, tok)
	case "longfull":
		return fmt.Sprintf("<134>1 %s h%s appServ/v%s.example.com 1 task%s.log:123e4567-e89b-12d3-a456-42661417400%d - [Cls%s ] - POST /x params=%s %s", ts, tok, tok, tok, d, tok, tok, pad)
	case "longbare":
		return fmt.Sprintf("<131>1 %s h%s third 1 bare%s - bare %s %s", ts, tok, tok, tok, pad)
	case "escaped":
		return fmt.Sprintf("<134>1 %s h%s other 1 s%s - esc%s\\nline2\\tend", ts, tok, tok, tok)
	case "escapedlong":
		return fmt.Sprintf("<134>1 %s h%s other/w%s 1 s%s - [Esc%s ] - esc%s\\nline2\\tend %s", ts, tok, tok, tok, tok, tok, pad)
	case "multiline":
		return fmt.Sprintf("<134>1 %s h%s other 1 s%s - multi%s\\nkept\n second line %s\n\tthird", ts, tok, tok, tok, tok)
	case "malformed":
		return fmt.Sprintf("<134>1 %s onlythree%s-and-long-enough-to-pass-the-minimum", ts, tok)
	case "dropped":
		return fmt.Sprintf("<134>1 %s h%s appServ 1 auth.log - dropped %s", ts, tok, tok)
	case "badtime":
		return fmt.Sprintf("<134>1 not-a-time-%s h%s third 1 s%s - badtime %s", tok, tok, tok, tok)
	case "email":
		return fmt.Sprintf("<134>1 %s h%s appServ 1 main%s.log - contact bob%s@example.com now %s", ts, tok, tok, tok, pad)
	}
	panic(shape)
}

var tokRe = regexp.MustCompile(`Q(\d{6})Q`)
var padRe = regexp.MustCompile(`p{20,}`)

// outRec is one decoded output record in canonical form
type outRec struct {
	Tag  string
	JSON string // canonical JSON of the record (fallback timestamps normalised)
	IDs  []int  // provenance tokens found anywhere in the record
	TS   string
}

// canon normalises one decoded JSON record
func canon(tag string, raw map[string]any, started time.Time) outRec {
	// the fallback timestamp of records whose time cannot be parsed is the time of reception
	for _, k := range []string{"time", "timestamp", "@timestamp", "@eventtime"} {
		if v, ok := raw[k]; ok {
			s := fmt.Sprint(v)
			if t, err := time.Parse(time.RFC3339Nano, s); err == nil && t.After(started.Add(-time.Hour)) {
				raw[k] = "FALLBACK"
			} else if f, ok := v.(float64); ok && f > float64(started.Add(-time.Hour).Unix()) {
				raw[k] = "FALLBACK"
			} else if ms, perr := strconv.ParseInt(s, 10, 64); perr == nil && ms > started.Add(-time.Hour).UnixMilli() {
				raw[k] = "FALLBACK" // datadog: milliseconds as text
			}
		}
	}
	b, _ := json.Marshal(raw)
	b = padRe.ReplaceAllFunc(b, func(m []byte) []byte { return []byte(fmt.Sprintf("p*%d", len(m))) })
	ids := map[int]bool{}
	for _, m := range tokRe.FindAllStringSubmatch(string(b)+" "+tag, -1) {
		var n int
		fmt.Sscanf(m[1], "%d", &n)
		ids[n] = true
	}
	var l []int
	for n := range ids {
		l = append(l, n)
	}
	sort.Ints(l)
	return outRec{Tag: tag, JSON: string(b), IDs: l}
}

func decodeChunk(dec base.ChunkDecoder, chunk base.LogChunk, started time.Time) ([]outRec, error) {
	var buf bytes.Buffer
	buf.WriteByte('[')
	info, err := dec.DecodeChunkToJSON(chunk, []byte(","), false, &buf)
	if err != nil {
		return nil, err
	}
	buf.WriteByte(']')
	var recs []any
	if err := json.Unmarshal(buf.Bytes(), &recs); err != nil {
		return nil, fmt.Errorf("%w: %s", err, buf.String()[:200])
	}
	var res []outRec
	for _, r := range recs {
		switch x := r.(type) {
		case map[string]any: // datadog: the record
			res = append(res, canon(info.Tag, x, started))
		case []any: // fluentd: [tag, time, record]
			if len(x) != 3 {
				return nil, fmt.Errorf("unexpected event %v", x)
			}
			m, ok := x[2].(map[string]any)
			if !ok {
				return nil, fmt.Errorf("unexpected event %v", x)
			}
			m["@eventtag"], m["@eventtime"] = x[0], x[1]
			res = append(res, canon(info.Tag, m, started))
		default:
			return nil, fmt.Errorf("unexpected event %v", r)
		}
	}
	return res, nil
}

// collector is the consumer override that decodes what the pipelines produce
type collector struct {
	mu      sync.Mutex
	out     map[string][]outRec // output name -> records
	errs    []string
	started time.Time
}

type collectWorker struct {
	c       *collector
	name    string
	dec     base.ChunkDecoder
	args    base.ChunkConsumerArgs
	stopped *channels.SignalAwaitable
}

func (w *collectWorker) Start()                      { go w.run() }
func (w *collectWorker) Stopped() channels.Awaitable { return w.stopped }
func (w *collectWorker) run() {
	defer w.args.OnFinished()
	defer w.stopped.Signal()
	for {
		select {
		case chunk, ok := <-w.args.InputChannel:
			if !ok {
				return
			}
			recs, err := decodeChunk(w.dec, chunk, w.c.started)
			w.c.mu.Lock()
			if err != nil {
				w.c.errs = append(w.c.errs, err.Error())
			}
			w.c.out[w.name] = append(w.c.out[w.name], recs...)
			w.c.mu.Unlock()
			w.args.OnChunkConsumed(chunk)
		case <-w.args.InputClosed.Channel():
			// drain what is left
			for {
				select {
				case chunk, ok := <-w.args.InputChannel:
					if !ok {
						return
					}
					recs, _ := decodeChunk(w.dec, chunk, w.c.started)
					w.c.mu.Lock()
					w.c.out[w.name] = append(w.c.out[w.name], recs...)
					w.c.mu.Unlock()
					w.args.OnChunkConsumed(chunk)
				default:
					return
				}
			}
		}
	}
}

func (c *collector) override(parentLogger logger.Logger, name string, dec base.ChunkDecoder, args base.ChunkConsumerArgs) base.ChunkConsumer {
	return &collectWorker{c: c, name: name, dec: dec, args: args, stopped: channels.NewSignalAwaitable()}
}

// alone processes one record on a fresh allocator, parser, transform list, serializers and chunk makers
func alone(conf run.Config, schema base.LogSchema, rec string, started time.Time) (map[string][]outRec, error) {
	mf := promreg.NewMetricFactory("alone_", nil, nil)
	allocator := base.NewLogAllocator(schema, len(conf.OutputBuffersPairs))
	inputCounter := base.NewLogInputCounter(mf.AddOrGetPrefix("input_", nil, nil))
	parser, perr := conf.Inputs[0].Value.NewParser(logger.Root(), allocator, schema, inputCounter)
	if perr != nil {
		return nil, perr
	}
	cnt := fnutil.NewCounter()
	transforms := bsupport.NewTransformsFromConfig(conf.Transformations, schema, logger.Root(), cnt)
	res := map[string][]outRec{}
	record := parser.Parse([]byte(rec), time.Now())
	if record == nil {
		return res, nil
	}
	if bsupport.RunTransforms(record, transforms) == base.DROP {
		return res, nil
	}
	app := schema.MustCreateFieldLocator("app").Get(record.Fields)
	tag := "dev." + app
	for _, pair := range conf.OutputBuffersPairs {
		ser := pair.OutputConfig.Value.NewSerializer(logger.Root(), schema, tag)
		mk := pair.OutputConfig.Value.NewChunkMaker(logger.Root(), tag)
		stream := ser.SerializeRecord(record)
		chunk := mk.WriteStream(stream)
		if chunk == nil {
			chunk = mk.FlushBuffer()
		}
		if chunk == nil {
			return nil, fmt.Errorf("no chunk from fresh chunk maker")
		}
		recs, derr := decodeChunk(pair.OutputConfig.Value, *chunk, started)
		if derr != nil {
			return nil, derr
		}
		res[pair.Name] = recs
	}
	return res, nil
}

type sent struct {
	n     int
	shape string
	conn  int
}

// Main runs the long-lived agents and writes the trace
func Main(args []string) int {
	var work *string
	o := fnutil.Open("rp", args, func(fs *flag.FlagSet) { work = fs.String("work", "", "scratch dir") })
	logger.SetLogLevel(logger.FatalLevel)
	runtime.GOMAXPROCS(1)
	debug.SetGCPercent(-1) // sync.Pool is emptied by the collector; without it the pools really hand objects back
	defs.EnableTestMode()
	defs.IntermediateFlushInterval = 20 * time.Millisecond
	defs.InputFlushInterval = 20 * time.Millisecond
	defs.BufferMaxNumChunksInQueue = 1000
	defs.BufferShutDownTimeout = 2 * time.Second
	thorough := o.Tier == "thorough"
	maxLen := 3
	if thorough {
		maxLen = 4
	}
	// the histories: every sequence of shapes of length maxLen (each contains all shorter ones as prefixes/infixes),
	// dealt to the shards; plus seeded longer random ones
	var hists [][]string
	var rec func(prefix []string)
	rec = func(prefix []string) {
		if len(prefix) == maxLen {
			hists = append(hists, append([]string(nil), prefix...))
			return
		}
		for _, s := range shapes {
			rec(append(prefix, s))
		}
	}
	rec(nil)
	rnd := rand.New(rand.NewSource(o.Seed + int64(o.Shard)*7919))
	var mine [][]string
	for _, h := range hists {
		if o.Mine() {
			mine = append(mine, h)
		}
	}
	nlong := 20
	if thorough {
		nlong = 300
	}
	for i := 0; i < nlong; i++ {
		h := []string{}
		for k := 0; k < 12; k++ {
			h = append(h, shapes[rnd.Intn(len(shapes))])
		}
		mine = append(mine, h)
	}
	rnd.Shuffle(len(mine), func(i, j int) { mine[i], mine[j] = mine[j], mine[i] })

	// one long-lived agent per batch of histories (the collector is off while an agent runs; memory is returned between)
	const batch = 150
	for b := 0; b*batch < len(mine); b++ {
		end := (b + 1) * batch
		if end > len(mine) {
			end = len(mine)
		}
		for _, nOut := range []int{1, 2} {
			root := filepath.Join(*work, fmt.Sprintf("rp-%d-%d", o.Shard, nOut))
			_ = os.RemoveAll(root)
			_ = os.MkdirAll(root, 0o755)
			text := confHead
			if nOut == 2 {
				text += confSecond
			}
			cf := filepath.Join(root, "conf.yml")
			_ = os.WriteFile(cf, []byte(strings.ReplaceAll(text, "ROOT", root)), 0o644)
			runNo++
			runAgent(o, cf, root, nOut, mine[b*batch:end], rnd, false)
			os.RemoveAll(root)
			debug.SetGCPercent(100)
			runtime.GC()
			debug.FreeOSMemory()
			debug.SetGCPercent(-1)
		}
	}
	// one more agent per shard with four connections written in parallel on four processors: short records of three
	// key sets in long alternating runs, so that records of different keys are routed at the same moment
	{
		var par [][]string
		kinds := []string{"short", "dropped", "badtime", "escaped", "malformed"}
		nh := 60
		if thorough {
			nh = 250 // at most 2500 record objects per agent: RecordPoolTrace.cfg has room for 3000 (MaxObj)
		}
		for i := 0; i < nh; i++ {
			h := []string{}
			for k := 0; k < 10; k++ {
				h = append(h, kinds[rnd.Intn(len(kinds))])
			}
			par = append(par, h)
		}
		root := filepath.Join(*work, fmt.Sprintf("rp-%d-par", o.Shard))
		_ = os.RemoveAll(root)
		_ = os.MkdirAll(root, 0o755)
		cf := filepath.Join(root, "conf.yml")
		_ = os.WriteFile(cf, []byte(strings.ReplaceAll(confHead, "ROOT", root)), 0o644)
		runNo++
		runAgent(o, cf, root, 1, par, rnd, true)
		os.RemoveAll(root)
	}
	o.Close()
	return 0
}

func gatherErrText(before int) string {
	if vmetrics.Errors == before {
		return ""
	}
	t := vmetrics.LastError
	if len(t) > 400 {
		t = t[:400]
	}
	return t
}

func runAgent(o *fnutil.Out, cf, root string, nOut int, hists [][]string, rnd *rand.Rand, parallel bool) {
	// parallel: four connections written by four goroutines on four processors at once (routing, key extraction and the
	// per-connection state of the orchestrator sinks run truly in parallel); otherwise one writer, one processor
	nConns := 2
	if parallel {
		nConns = 4
		runtime.GOMAXPROCS(4)
		defer runtime.GOMAXPROCS(1)
	}
	started := time.Now()
	gatherErrors0 := vmetrics.Errors
	col := &collector{out: map[string][]outRec{}, started: started}
	// allocator events
	var amu sync.Mutex
	objID := map[*base.LogRecord]int{}
	var aevs []map[string]any
	var newCount atomic.Int64
	intrude := make(chan struct{})
	var gates, gateHits atomic.Int64
	vhook.Emit = func(ev string, kv ...any) {
		if !strings.HasPrefix(ev, "alloc.") {
			return
		}
		if ev == "alloc.new" {
			newCount.Add(1)
		}
		// the window between the outputs of one record (pipeline worker, after the release of the first output's
		// reference): hold the worker here until the input side has parsed another pooled-size record
		isIntruder := func(rec *base.LogRecord) bool { // its own records do not open windows (their pipeline is the one held)
			for _, f := range rec.Fields {
				if strings.Contains(string(f), "Q90") {
					return true
				}
			}
			return false
		}
		if ev == "alloc.release" && nOut == 2 && !isIntruder(kv[1].(*base.LogRecord)) {
			defer func() {
				before := newCount.Load()
				select {
				case intrude <- struct{}{}:
					gates.Add(1)
					deadline := time.Now().Add(40 * time.Millisecond)
					for time.Now().Before(deadline) && newCount.Load() == before {
						time.Sleep(200 * time.Microsecond)
					}
					if os.Getenv("VERIF_RP_DEBUG") != "" && newCount.Load() == before {
						buf := make([]byte, 3000)
						fmt.Fprintf(os.Stderr, "gate timeout in:\n%s\n", buf[:runtime.Stack(buf, false)])
					}
					if newCount.Load() != before {
						gateHits.Add(1)
						time.Sleep(500 * time.Microsecond) // the parser copies the input and runs the extractions
					}
				default: // the intruder is busy or gone
				}
			}()
		}
		amu.Lock()
		defer amu.Unlock()
		rec := kv[1].(*base.LogRecord)
		id, seen := objID[rec]
		if !seen {
			id = len(objID) + 1
			objID[rec] = id
		}
		m := map[string]any{"ev": ev, "obj": id, "outputs": nOut}
		switch ev {
		case "alloc.new":
			stale := 0
			for _, f := range rec.Fields {
				if len(f) > 0 {
					stale++
				}
			}
			if !rec.Timestamp.IsZero() {
				stale++
			}
			if rec.RawLength != 0 {
				stale++
			}
			m["stale"], m["refs"], m["fresh"] = stale, kv[3], !seen
		case "alloc.release":
			m["refs"] = kv[3]
		}
		aevs = append(aevs, m)
	}
	defer func() { vhook.Emit = nil }()

	prefix := fmt.Sprintf("rp%d_%d_%d_", o.Shard, nOut, runNo)
	ld, err := run.NewLoaderFromConfigFile(cf, prefix)
	if err != nil {
		o.Emit(map[string]any{"ev": "HarnessError", "what": err.Error()})
		return
	}
	ld.PipelineArgs.NewConsumerOverride = col.override
	orc := ld.StartOrchestrator(logger.Root())
	addrs, shutdownInputs := ld.LaunchInputs(orc)
	gather := func() map[string]float64 { return vmetrics.Gather(ld.GetMetricGatherer()) }
	conns := make([]*bufio.Writer, nConns)
	raw := make([]net.Conn, nConns)
	for i := range conns {
		c, derr := net.Dial("tcp", addrs[0])
		if derr != nil {
			o.Emit(map[string]any{"ev": "HarnessError", "what": derr.Error()})
			return
		}
		raw[i] = c
		conns[i] = bufio.NewWriter(c)
	}
	n := 0
	var all []sent
	var allMu sync.Mutex
	intruderN := 900000
	stopIntruder := make(chan struct{})
	intruderDone := make(chan struct{})
	go func() {
		defer close(intruderDone)
		c, derr := net.Dial("tcp", addrs[0])
		if derr != nil {
			return
		}
		defer c.Close()
		for {
			select {
			case <-intrude:
				allMu.Lock()
				intruderN++
				k := intruderN
				all = append(all, sent{k, "longbare", 2})
				allMu.Unlock()
				// the listener completes a record when the next one starts: a second, short one follows at once
				allMu.Lock()
				intruderN++
				k2 := intruderN
				all = append(all, sent{k2, "short", 2})
				allMu.Unlock()
				_, _ = c.Write([]byte(buildRecord("longbare", k) + "\n" + buildRecord("short", k2) + "\n"))
			case <-stopIntruder:
				return
			}
		}
	}()
	accounted := func() int {
		m := gather()
		t := 0.0
		for k, v := range m {
			if strings.HasPrefix(k, prefix) && (strings.Contains(k, "input_passed_records_total") || strings.Contains(k, "input_dropped_records_total")) {
				t += v
			}
		}
		return int(t)
	}
	waitFor := func(want int) bool {
		deadline := time.Now().Add(40 * time.Second) // the windows hold pipeline workers for up to 40 ms each
		for time.Now().Before(deadline) {
			if accounted() >= want {
				return true
			}
			time.Sleep(2 * time.Millisecond)
		}
		return false
	}
	if parallel {
		var wg sync.WaitGroup
		for c := 0; c < nConns; c++ {
			wg.Add(1)
			go func(c int) {
				defer wg.Done()
				for hi := c; hi < len(hists); hi += nConns {
					for _, shape := range hists[hi] {
						allMu.Lock()
						n++
						k := n
						all = append(all, sent{k, shape, c})
						allMu.Unlock()
						conns[c].WriteString(buildRecord(shape, k))
						conns[c].WriteByte('\n')
					}
					conns[c].Flush()
				}
			}(c)
		}
		wg.Wait()
		hists = nil
	}
	for hi, h := range hists {
		// a history is written record by record over the two connections; every third history in lock step (each
		// record is processed and released before the next one is parsed), the others as one burst
		lockstep := hi%3 == 0
		for _, shape := range h {
			n++
			c := rnd.Intn(2)
			allMu.Lock()
			all = append(all, sent{n, shape, c})
			allMu.Unlock()
			conns[c].WriteString(buildRecord(shape, n))
			conns[c].WriteByte('\n')
			if lockstep {
				conns[c].Flush()
				// a multi-line record is complete only when the next record starts; do not wait for those
				if shape != "multiline" {
					time.Sleep(time.Millisecond)
				}
			}
		}
		conns[0].Flush()
		conns[1].Flush()
		if hi%8 == 7 {
			time.Sleep(25 * time.Millisecond) // let the flush interval pass: chunks are cut, buffers recycled
		}
	}
	for i := range conns {
		conns[i].Flush()
		raw[i].Close()
	}
	okAll := waitFor(n)
	// the intruder's records trigger windows themselves; stop it once the stream is done and count what it sent
	time.Sleep(30 * time.Millisecond)
	close(stopIntruder)
	<-intruderDone
	allMu.Lock()
	n += intruderN - 900000
	allMu.Unlock()
	for last, stable := int64(-1), 0; stable < 5; { // every record the intruder wrote has been parsed
		time.Sleep(10 * time.Millisecond)
		if t := newCount.Load(); t == last {
			stable++
		} else {
			last, stable = t, 0
		}
	}
	// let the pipelines cut their last chunks and the collectors take them (what is still queued at the stop is saved
	// to the queue directory, and read from there below)
	total := func() int {
		col.mu.Lock()
		defer col.mu.Unlock()
		t := 0
		for _, l := range col.out {
			t += len(l)
		}
		return t
	}
	for last, stable := -1, 0; stable < 8; {
		time.Sleep(15 * time.Millisecond)
		if t := total(); t == last {
			stable++
		} else {
			last, stable = t, 0
		}
	}
	shutdownInputs()
	orc.Shutdown()
	for _, pair := range ld.Config.OutputBuffersPairs {
		sub := map[string]string{"fluentd": "q1", "datadogAPI": "q2"}[pair.Name]
		_ = filepath.Walk(filepath.Join(root, sub), func(p string, info os.FileInfo, werr error) error {
			if werr != nil || info.IsDir() || !pair.OutputConfig.Value.MatchChunkID(filepath.Base(p)) {
				return nil
			}
			data, _ := os.ReadFile(p)
			recs, derr := decodeChunk(pair.OutputConfig.Value, base.LogChunk{ID: filepath.Base(p), Data: data}, started)
			if derr != nil {
				col.errs = append(col.errs, derr.Error())
			}
			col.out[pair.Name] = append(col.out[pair.Name], recs...)
			return nil
		})
	}
	m := gather()
	// metric label values must be values of records (deep-copied, not views into recycled buffers)
	badLabels := []string{}
	labelRe := regexp.MustCompile(`key_(host|vhost|app)=([^,}]*)`)
	okLabel := regexp.MustCompile(`^(|hQ\d{6}Q|vQ\d{6}Q\.example\.com|wQ\d{6}Q|other|third|appServ)$`)
	for k := range m {
		if !strings.HasPrefix(k, prefix) {
			continue
		}
		for _, lm := range labelRe.FindAllStringSubmatch(k, -1) {
			if !okLabel.MatchString(lm[2]) {
				badLabels = append(badLabels, lm[0])
			}
		}
	}
	sort.Strings(badLabels)
	if len(badLabels) > 5 {
		badLabels = badLabels[:5]
	}
	o.Emit(map[string]any{"ev": "Run", "outputs": nOut, "records": n, "allAccounted": okAll, "decodeErrors": len(col.errs), "badLabels": badLabels, "gatherErrors": vmetrics.Errors - gatherErrors0, "gatherError": gatherErrText(gatherErrors0), "windows": gates.Load(), "windowsHit": gateHits.Load()})
	amu.Lock()
	reused := 0
	for _, e := range aevs {
		if e["ev"] == "alloc.new" && e["fresh"] == false {
			reused++
		}
		o.Emit(e)
	}
	amu.Unlock()
	// the fresh components of the "alone" runs are garbage at once (2 MiB serialization buffers each): collector on again
	debug.SetGCPercent(50)
	defer debug.SetGCPercent(-1)
	// index the long-run output by own token: the token of the host field identifies the record
	names := []string{"fluentd"}
	if nOut == 2 {
		names = append(names, "datadogAPI")
	}
	hostRe := regexp.MustCompile(`"host(?:name)?":"hQ(\d{6})Q"`)
	for oi, name := range names {
		byID := map[int][]outRec{}
		unowned := 0
		for _, r := range col.out[name] {
			mm := hostRe.FindStringSubmatch(r.JSON)
			if mm == nil {
				unowned++
				continue
			}
			var id int
			fmt.Sscanf(mm[1], "%d", &id)
			byID[id] = append(byID[id], r)
		}
		conf, schema, _, cerr := run.ParseConfigFile(cf)
		if cerr != nil {
			o.Emit(map[string]any{"ev": "HarnessError", "what": cerr.Error()})
			return
		}
		for _, s := range all {
			exp, aerr := alone(conf, schema, buildRecord(s.shape, s.n), started)
			if aerr != nil {
				o.Emit(map[string]any{"ev": "HarnessError", "what": aerr.Error()})
				return
			}
			ev := map[string]any{"ev": "Out", "n": s.n, "shape": s.shape, "conn": s.conn, "output": oi + 1, "outputs": nOut}
			ea := exp[name]
			el := byID[s.n]
			ev["aloneCount"], ev["longCount"] = len(ea), len(el)
			ev["alone"], ev["long"], ev["prov"], ev["aloneTag"], ev["longTag"] = "", "", []int{}, "", ""
			if len(ea) > 0 {
				ev["alone"], ev["aloneTag"] = ea[0].JSON, ea[0].Tag
			}
			if len(el) > 0 {
				ev["long"], ev["longTag"], ev["prov"] = el[0].JSON, el[0].Tag, el[0].IDs
			}
			o.Emit(ev)
		}
		o.Emit(map[string]any{"ev": "OutputDone", "output": oi + 1, "unowned": unowned, "total": len(col.out[name]), "reused": reused})
	}
}
