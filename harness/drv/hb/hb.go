// Package hb drives the real hybridbuffer bufferer with a scripted acceptor and a scripted consumer, over several
// generations on one queue directory, and records a trace for HybridBufferTrace.tla.
package hb

import (
	"bufio"
	"bytes"
	"encoding/json"
	"flag"
	"fmt"
	"math/rand"
	"os"
	"os/signal"
	"path/filepath"
	"sort"
	"strconv"
	"sync"
	"syscall"
	"time"

	"github.com/c2h5oh/datasize"
	"github.com/relex/gotils/logger"
	"github.com/relex/gotils/promexporter/promreg"
	"github.com/relex/slog-agent/base"
	"github.com/relex/slog-agent/buffer/hybridbuffer"
	"github.com/relex/slog-agent/defs"
	"github.com/relex/slog-agent/util/vhook"

	"verifharness/vmetrics"
	"verifharness/vtrace"
)

// Op is one scripted operation, performed when the trace has reached `At` events (or nothing happens any more)
type Op struct {
	At   int64  `json:"at"`
	Do   string `json:"do"`   // acceptor: accept ; consumer: take | confirm | confirmNew | handback | stall | finish
	Size int    `json:"size"` // accept: chunk size in bytes
	// accept: every file write of the process fails while this Accept runs (file-size limit 0: write(2) gives EFBIG), so a
	// spill of this chunk - or a save by another goroutine at that moment - meets a write error
	WFault bool `json:"wfault"`
}

// GenScript is one generation: a bufferer is created on the directory, used, and destroyed
type GenScript struct {
	A         []Op   `json:"a"`
	C         []Op   `json:"c"`
	DestroyAt int64  `json:"destroyAt"`
	Policy    string `json:"policy"` // what the consumer does with chunks after its scripted ops: confirm | handback | hold
}

// Script is the environment's half of a behaviour
type Script struct {
	ID       string      `json:"id"`
	Seed     int64       `json:"seed"`
	Jitter   bool        `json:"jitter"`
	Q        int         `json:"q"`
	M        int         `json:"m"`
	MaxBytes int         `json:"maxBytes"`
	NoDir    bool        `json:"nodir"`
	Early    bool        `json:"early"` // consumer may hand back before the output channel is closed
	Gens     []GenScript `json:"gens"`
}

func chunkData(id int, size int) []byte {
	b := make([]byte, size)
	for i := range b {
		b[i] = byte('a' + (id*7+i*3)%26)
	}
	return b
}

func matchChunkID(name string) bool {
	if len(name) != 3 {
		return false
	}
	_, err := strconv.Atoi(name)
	return err == nil
}

var runCounter int

// RunScript executes a script against the real bufferer
func RunScript(sc Script, workRoot string) (*vtrace.Tracer, bool) {
	runCounter++
	tr := vtrace.New(sc.Seed, false, "id")
	jrnd := rand.New(rand.NewSource(sc.Seed + 99))
	var jmu sync.Mutex
	vhook.Emit = tr.Emit
	if sc.Jitter {
		vhook.Gate = func(string) {
			jmu.Lock()
			n := jrnd.Intn(6)
			d := 30 + jrnd.Intn(500)
			jmu.Unlock()
			if n == 0 {
				time.Sleep(time.Duration(d) * time.Microsecond)
			} else if n == 1 {
				time.Sleep(time.Microsecond)
			}
		}
	}
	defer func() { vhook.Emit = nil; vhook.Gate = nil }()
	defs.BufferMaxNumChunksInQueue = sc.Q
	defs.BufferMaxNumChunksInMemory = sc.M

	root := filepath.Join(workRoot, fmt.Sprintf("q%d", runCounter))
	if sc.NoDir {
		_ = os.WriteFile(root, []byte("not a directory"), 0o644)
		root = filepath.Join(root, "sub")
	} else {
		_ = os.MkdirAll(root, 0o755)
	}
	defer os.RemoveAll(filepath.Join(workRoot, fmt.Sprintf("q%d", runCounter)))
	cfg := hybridbuffer.Config{RootPath: root, MaxBufSize: datasize.ByteSize(sc.MaxBytes)}

	nextID := 0
	hung := false
	idle := 6 * time.Millisecond
	waitFor := func(at int64) {
		deadline := time.Now().Add(time.Second)
		for tr.Seq() < at && tr.IdleFor() < idle && time.Now().Before(deadline) {
			time.Sleep(100 * time.Microsecond)
		}
	}
	for g, gs := range sc.Gens {
		if g > 0 {
			tr.Emit("Generation", "gen", g+1)
		}
		prefix := fmt.Sprintf("hb%d_%d_", runCounter, g)
		mf := promreg.NewMetricFactory(prefix, nil, nil)
		buf := cfg.NewBufferer(logger.WithField("script", sc.ID), "", matchChunkID, mf, false)
		buf.Start()
		tr.Emit("StartEnd")
		args := buf.RegisterNewConsumer()

		consDone := make(chan struct{})
		go func() { // the consumer
			defer close(consDone)
			var held []base.LogChunk
			closed, finished := false, false
			take := func(timeout time.Duration) {
				tr.EmitQuiet("TakeBegin")
				tm := time.NewTimer(timeout)
				defer tm.Stop()
				select {
				case c, ok := <-args.InputChannel:
					if !ok {
						closed = true
						tr.Emit("TakeEnd", "res", "closed")
						return
					}
					idn, _ := strconv.Atoi(c.ID)
					tr.Emit("TakeEnd", "res", "chunk", "id", c.ID, "saved", c.Saved, "len", len(c.Data),
						"intact", bytes.Equal(c.Data, chunkData(idn, len(c.Data))))
					held = append(held, c)
				case <-tm.C:
					tr.EmitQuiet("TakeEnd", "res", "none")
				}
			}
			confirm := func(i int) {
				c := held[i]
				held = append(held[:i:i], held[i+1:]...)
				tr.Emit("ConfirmBegin", "id", c.ID)
				args.OnChunkConsumed(c)
				tr.Emit("ConfirmEnd", "id", c.ID)
			}
			handback := func(i int) {
				c := held[i]
				held = append(held[:i:i], held[i+1:]...)
				tr.Emit("HandBackBegin", "id", c.ID)
				args.OnChunkLeftover(c)
				tr.Emit("HandBackEnd", "id", c.ID)
			}
			finish := func() {
				for len(held) > 0 { // a consumer resolves everything it holds before it finishes
					if closed || sc.Early {
						handback(0)
					} else {
						confirm(0)
					}
				}
				finished = true
				tr.Emit("ConsFinish")
				args.OnFinished()
			}
			for _, op := range gs.C {
				if finished {
					return
				}
				waitFor(op.At)
				switch op.Do {
				case "take":
					if !closed {
						take(2 * time.Millisecond)
					}
				case "confirm":
					if len(held) > 0 {
						confirm(0)
					}
				case "confirmNew":
					if len(held) > 0 {
						confirm(len(held) - 1)
					}
				case "handback":
					if len(held) > 0 && (closed || sc.Early) {
						handback(0)
					}
				case "stall":
					time.Sleep(3 * time.Millisecond)
				case "finish":
					finish()
					return
				}
			}
			// a consumer that is not reading its input at the stop (a forwarder waiting to re-dial a refusing upstream): it takes
			// nothing more, learns of the stop from the InputClosed signal only, hands back what it holds and finishes
			if gs.Policy == "stalled" {
				if !args.InputClosed.Wait(5 * time.Second) {
					tr.Emit("HUNG", "what", "no InputClosed signal")
					return
				}
				tr.Emit("ConsSawClosed")
				closed = true
				finish()
				return
			}
			// after the scripted part: keep consuming by policy until the channel is closed, then resolve and finish
			for !closed {
				take(4 * time.Millisecond)
				if closed {
					break
				}
				switch gs.Policy {
				case "confirm":
					for len(held) > 0 {
						confirm(0)
					}
				case "handback":
					for len(held) > 0 && sc.Early {
						handback(0)
					}
				}
				if len(held) > 3 {
					confirm(0)
				}
			}
			finish()
		}()

		for _, op := range gs.A {
			waitFor(op.At)
			if op.Do == "accept" {
				nextID++
				id := fmt.Sprintf("%03d", nextID)
				t0 := time.Now()
				tr.Emit("AcceptBegin", "id", id, "size", op.Size)
				var old syscall.Rlimit
				if op.WFault {
					_ = syscall.Getrlimit(syscall.RLIMIT_FSIZE, &old)
					_ = syscall.Setrlimit(syscall.RLIMIT_FSIZE, &syscall.Rlimit{Cur: 0, Max: old.Max})
				}
				buf.Accept(base.LogChunk{ID: id, Data: chunkData(nextID, op.Size)})
				if op.WFault {
					_ = syscall.Setrlimit(syscall.RLIMIT_FSIZE, &old)
				}
				tr.Emit("AcceptEnd", "id", id, "ms", time.Since(t0).Milliseconds())
			}
		}
		waitFor(gs.DestroyAt)
		t0 := time.Now()
		tr.Emit("DestroyBegin")
		buf.Destroy()
		stopped := buf.Stopped().Wait(3 * time.Second)
		select {
		case <-consDone:
		case <-time.After(3 * time.Second):
			stopped = false
		}
		if !stopped {
			hung = true
			tr.Emit("HUNG")
			break
		}
		tr.Emit("DestroyEnd", "ms", time.Since(t0).Milliseconds())

		// projection at quiescence: the directory and the metric registry
		files := [][]int{}
		intact := true
		if !sc.NoDir {
			ents, _ := os.ReadDir(root)
			names := []string{}
			for _, e := range ents {
				if e.Name() != ".id" {
					names = append(names, e.Name())
				}
			}
			sort.Strings(names)
			for _, n := range names {
				data, _ := os.ReadFile(filepath.Join(root, n))
				idn, err := strconv.Atoi(n)
				if err != nil {
					idn = -1
				}
				files = append(files, []int{idn, len(data)})
				if !bytes.Equal(data, chunkData(idn, len(data))) {
					intact = false
				}
			}
		}
		tr.Emit("Disk", "files", files, "intact", intact)
		m := vmetrics.Gather(mf)
		k := func(name, lbl string) int {
			if lbl != "" {
				return int(m[prefix+name+"{"+lbl+",storage=hybridBuffer}"])
			}
			return int(m[prefix+name+"{storage=hybridBuffer}"])
		}
		tr.Emit("Metrics", "pending", k("pending_chunks", ""), "persistentChunks", k("persistent_chunks", ""),
			"persistentBytes", k("persistent_chunk_bytes", ""), "inTransient", k("input_chunks_total", "state=transient"),
			"inPersistent", k("input_chunks_total", "state=persistent"), "consumed", k("consumed_chunks_total", ""),
			"leftover", k("leftover_chunks_total", ""), "dropped", k("dropped_chunks_total", ""),
			"ioErrors", k("io_errors_total", ""), "queuedTransient", k("queued_chunks", "state=transient"),
			"queuedPersistent", k("queued_chunks", "state=persistent"), "script", sc.ID)
	}
	vhook.Emit = nil
	vhook.Gate = nil
	return tr, hung
}

// Main is the entry point of `vh hb`
func Main(args []string) int {
	fs := flag.NewFlagSet("hb", flag.ExitOnError)
	scriptsPath := fs.String("scripts", "", "ndjson file of scripts")
	outPath := fs.String("out", "", "ndjson trace file to write (all scripts, separated by RESET events)")
	work := fs.String("work", "", "scratch directory for queue directories")
	_ = fs.Parse(args)

	logger.SetLogLevel(logger.FatalLevel)
	signal.Ignore(syscall.SIGXFSZ) // a write beyond the file-size limit returns EFBIG instead of killing the process
	defs.IntermediateChannelTimeout = 2 * time.Second
	defs.BufferShutDownTimeout = 40 * time.Millisecond

	f, err := os.Open(*scriptsPath)
	if err != nil {
		fmt.Fprintln(os.Stderr, err)
		return 2
	}
	defer f.Close()
	_ = os.Remove(*outPath)
	scan := bufio.NewScanner(f)
	scan.Buffer(make([]byte, 1<<20), 1<<24)
	n, hungN := 0, 0
	for scan.Scan() {
		if len(scan.Bytes()) == 0 {
			continue
		}
		var sc Script
		if err := json.Unmarshal(scan.Bytes(), &sc); err != nil {
			fmt.Fprintln(os.Stderr, "bad script:", err)
			return 2
		}
		tr, hung := RunScript(sc, *work)
		if hung {
			hungN++
		}
		if err := tr.AppendTo(*outPath, vtrace.Event{"ev": "RESET", "script": sc.ID}); err != nil {
			fmt.Fprintln(os.Stderr, err)
			return 2
		}
		n++
	}
	fmt.Printf("{\"scripts\":%d,\"hung\":%d}\n", n, hungN)
	return 0
}
