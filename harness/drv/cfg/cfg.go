// Package cfg decides C16 on the real loader: configuration files are derived from a valid base file by one substitution
// per reference site x kind of wrong value (the catalogue of specs/Config.tla), and each is loaded, instantiated, fed with
// records that reach every branch, shut down, and used as the target of a reload - all in a child process so that a
// panic in any goroutine or a fatal exit is an observable outcome instead of the end of the driver.
package cfg

import (
	"bufio"
	"encoding/json"
	"flag"
	"fmt"
	"math/rand"
	"net"
	"os"
	"os/exec"
	"path/filepath"
	"regexp"
	"runtime/pprof"
	"strings"
	"time"

	"github.com/relex/gotils/logger"
	"github.com/relex/slog-agent/defs"
	"github.com/relex/slog-agent/run"

	"verifharness/drv/tf"
	"verifharness/fnutil"
	"verifharness/vmetrics"
)

// the base file: every transform type nested in if/switch/block, both output types, rewriters; sites are written as
// «CLASS|name|default»; ROOT is replaced by the per-configuration work directory
const baseText = `schema:
  fields: [facility, level, time, host, app, pid, source, «SF|schema.extradata|extradata», log, class, task, vhost, pnum, cap1, tmp, f1, f2, f3, f4, f5, ddsource, ddtags, hostname, service]
  maxFields: «NM|schema.maxFields|30»
#<inputs>
inputs:
  - type: «TY|input.type|syslog»
    address: «AD|input.address|localhost:0»
    levelMapping: «LM|input.levelMapping|[off, fatal, crit, error, warn, notice, info, debug]»
    extractions:
      - type: «TY|ext.extractHead.type|extractHead»
        key: «FR|ext.extractHead.key|log»
        pattern: «PH|ext.extractHead.pattern|'\[*\] - '»
        maxLen: «NL|ext.extractHead.maxLen|100»
        destKey: «FR|ext.extractHead.destKey|class»
      - type: extractTail
        key: «FR|ext.extractTail.key|source»
        pattern: «PT|ext.extractTail.pattern|':[0-9a-f-]'»
        maxLen: «NL|ext.extractTail.maxLen|41»
        destKey: «FR|ext.extractTail.destKey|task»
      - type: extractTail
        key: app
        pattern: «PT|ext.extractTail2.pattern|'/*'»
        maxLen: 100
        destKey: vhost
      - type: addFields
        fields:
          «FR|ext.addFields.key|pnum»: «TP|ext.addFields.value|'${task[-1:]}'»
          f1: $log
          f2: $source
          f3: $app
      - type: if
        match:
          «FR|ext.if.matchkey|class»: «MV|ext.if.matchvalue|!!str-any»
          task: !!str-any
        then: «LS|ext.if.then|[{type: addFields, fields: {task: '$task:$class'}}]»
      - type: delFields
        keys: «LS|ext.delFields.keys|[facility, pid]»
#</inputs>
#<orchestration>
orchestration:
  type: «TY|orch.type|byKeySet»
  keys: [«FR|orch.key|app», level]
  tag: «TT|orch.tag|dev.$app»
#</orchestration>
metricKeys: [«FR|metricKey|host», vhost]
#<transformations>
transformations:
  - type: «TY|switch.type|switch»
    cases:
      - match:
          «FR|switch.matchkey|app»: appServ
        then:
          - type: drop
            match:
              «FR|drop.matchkey|source»: auth.log
              level: «MV|drop.matchvalue|!!str-not fatal»
            percentage: «NP|drop.percentage|100»
            metricLabel: «RT|drop.metricLabel|app-auth»
          - type: if
            match:
              log: «MV|if.glob|!!glob 'P[OU][ST]** params=**'»
            then:
              - type: «TY|truncate.type|truncate»
                key: «FR|truncate.key|log»
                maxLen: «NL|truncate.maxLen|40»
                suffix: «RT|truncate.suffix|' ... (cut)'»
          - type: redactEmail
            key: «FR|redact.key|log»
            metricLabel: «RT|redact.metricLabel|redacted»
      - match:
          app: «MV|switch.case2.value|other»
        then:
          - type: addFields
            fields:
              «FR|addFields.key|log»: «TP|addFields.value|'task=$task ${log[2:-1]}'»
          - type: unescape
            key: «FR|unescape.key|log»
          - type: replace
            key: «FR|replace.key|log»
            pattern: «RX|replace.pattern|'^(ta(s|x)k=).{3,}$'»
            replacement: «RR|replace.replacement|'$1 ...'»
          - type: extract
            key: «FR|extract.key|f1»
            pattern: «RC|extract.pattern|'^(?P<cap1>\w+) (?P<tmp>\w+)'»
          - type: mapValue
            key: «FR|mapValue.key|level»
            mapping: «LS|mapValue.mapping|{info: INFO}»
            default: «TX|mapValue.default|OTHER»
  - type: block
    steps:
      - type: «TY|block.step.type|parseTime»
        key: «FR|parseTime.key|time»
        errorLabel: «RT|parseTime.errorLabel|timeError»
      - type: delFields
        keys: [«FR|delFields.key|time»]
  - type: addFields
    fields:
      «FR|addFields2.constkey|ddsource»: csharp
      «FR|addFields2.emptykey|ddtags»: ''
      hostname: «TP|addFields2.value|$host»
@RANDOM@#</transformations>
#<outputs>
outputBufferPairs:
  - name: «ON|out1.name|fluentd»
    buffer:
      type: «TY|buf.type|hybridBuffer»
      rootPath: «RP|buf.rootPath|ROOT/q1»
      maxBufSize: «SZ|buf.maxBufSize|1GB»
    output:
      type: «TY|out.type|fluentdForward»
      serialization:
        environmentFields: [«FR|env.field|host», vhost]
        hiddenFields: [«FR|hidden.field|task», class, f1, f2, f3, f4, f5]
        rewriteFields:
          «FR|rewrite.key|log»:
            - type: «TY|rewrite.first.type|inline»
              field: «FR|inline.field|class»
            - type: «TY|rewrite.last.type|unescape»
      messageMode: «MM|out.messageMode|CompressedPackedForward»
      upstream:
        address: «AD|up.address|127.0.0.1:9»
        tls: false
        secret: ''
        maxDuration: «DU|up.maxDuration|30m»
  - name: datadogAPI
    buffer:
      type: hybridBuffer
      rootPath: ROOT/q2
      maxBufSize: 1GB
    output:
      type: datadog
      serialization:
        hiddenFields: [«FR|dd.hidden.field|host», f1, f2, f3, f4, f5]
      upstream:
        address: «UR|dd.address|http://127.0.0.1:9/api/v2/logs»
        httpTimeout: «DU|dd.httpTimeout|30s»
#</outputs>
`

// kinds of wrong value per site class: name, YAML text, verdict ("reject": the loader must not accept; "free": either, but never a crash)
type kind struct{ name, text, must string }

var kindsOf = map[string][]kind{
	"FR": {{"unknownField", "nosuchfield", "reject"}, {"unknownNumeric", "12345", "reject"}, {"empty", "''", "free"}, {"otherValid", "level", "free"}, {"null", "~", "free"}, {"dollar", "'$app'", "reject"}},
	"SF": {{"renamed", "nosuchfield", "free"}, {"duplicate", "level", "free"}, {"empty", "''", "free"}},
	"TY": {{"unknownType", "noSuchType", "reject"}, {"empty", "''", "free"}, {"otherValid", "delFields", "free"}, {"null", "~", "free"}},
	"TP": {{"unknownVar", "'a $nosuchvar b'", "reject"}, {"unknownBraced", "'${nosuchvar}'", "reject"}, {"unknownSliced", "'${nosuchvar[1:2]}'", "reject"}, {"doubleDollar", "'$$'", "free"}, {"loneDollar", "'cost $'", "free"},
		{"unclosed", "'${task'", "free"}, {"garbageSlice", "'${task[x:y]}'", "free"}, {"noColon", "'${task[1]}'", "free"}, {"negBoth", "'${task[-5:-7]}'", "free"}, {"reversed", "'${task[3:1]}'", "free"},
		{"open", "'${task[:]}'", "free"}, {"int32", "'${task[2147483648:]}'", "free"}, {"int64", "'${task[0:9223372036854775807]}'", "free"}, {"overflow", "'${task[0:99999999999999999999]}'", "free"},
		{"negOverflow", "'${task[-99999999999999999999:]}'", "free"}, {"empty", "''", "free"}, {"null", "~", "free"}, {"emptyBraces", "'${}'", "free"}, {"nested", "'${task[${log}:]}'", "free"}},
	"TT": {{"unknownVar", "'dev.$nosuchvar'", "reject"}, {"unknownBraced", "'dev.${nosuchvar}'", "reject"}, {"nonKeyVar", "'dev.$host'", "free"}, {"doubleDollar", "'$$'", "free"}, {"unclosed", "'${app'", "free"},
		{"garbageSlice", "'${app[x:y]}'", "free"}, {"sliced", "'dev.${app[0:3]}'", "free"}, {"overflow", "'${app[0:99999999999999999999]}'", "free"}, {"empty", "''", "free"}, {"null", "~", "free"}, {"static", "'dev.fixed'", "free"}, {"special", "\"a b/c\\n\"", "free"}},
	"PH": {{"noWildcard", "'abc'", "free"}, {"unclosed", "'<[abc'", "free"}, {"emptyBracket", "'<[]>'", "free"}, {"badRange", "'<[a--z]>'", "free"}, {"onlyNegation", "'<[^]>'", "free"}, {"escapedOnly", "'\\*\\['", "free"},
		{"starNoFar", "'foo*'", "free"}, {"onlyStar", "'*'", "free"}, {"twoWild", "'*[a]*'", "free"}, {"empty", "''", "free"}, {"null", "~", "free"}, {"trailingBackslash", "'<*>\\'", "free"}, {"reverseRange", "'<[z-a]>'", "free"}, {"bracketStar", "'<[*]>'", "free"}},
	"PT": {{"noWildcard", "'abc'", "free"}, {"unclosed", "'[abc>'", "free"}, {"emptyBracket", "'<[]>'", "free"}, {"badRange", "'<[a--z]>'", "free"}, {"onlyNegation", "'<[^]>'", "free"},
		{"starNoFar", "'*foo'", "free"}, {"onlyStar", "'*'", "free"}, {"empty", "''", "free"}, {"null", "~", "free"}, {"trailingBackslash", "'<*>\\'", "free"}},
	"RX": {{"invalid", "'(('", "free"}, {"empty", "''", "free"}, {"null", "~", "free"}, {"noGroup", "'task'", "free"}, {"badRepeat", "'a{99999}'", "free"}},
	"RR": {{"unknownGroup", "'$9'", "free"}, {"unknownNamed", "'${nosuch}'", "free"}, {"empty", "''", "free"}, {"loneDollar", "'$'", "free"}},
	"RC": {{"unknownCapture", "'^(?P<nosuchfield>\\w+)'", "reject"}, {"unknownSecond", "'^(?P<cap1>\\w+) (?P<nosuchfield>\\w+)'", "reject"}, {"invalid", "'(?P<cap1'", "free"}, {"noCapture", "'^\\w+'", "free"}, {"dupCapture", "'(?P<cap1>a)(?P<cap1>b)'", "free"}, {"empty", "''", "free"}, {"optionalCapture", "'^(?P<cap1>zzz)?(?P<tmp>\\w+)'", "free"}},
	"MV": {{"badRegex", "!!regex '(('", "free"}, {"badGlob", "!!glob '[a'", "free"}, {"anyWithValue", "!!str-any x", "free"}, {"strEmpty", "!!str ''", "free"}, {"lenText", "!!len-gt x", "free"}, {"lenNegative", "!!len-gt -1", "free"},
		{"lenHuge", "!!len-lt 99999999999999999999", "free"}, {"unknownTag", "!!nosuchtag v", "free"}, {"null", "~", "free"}, {"list", "[a, b]", "free"}, {"map", "{a: b}", "free"}, {"regexOk", "!!regex '^a'", "free"}, {"number", "12", "free"}},
	"NP": {{"zero", "0", "free"}, {"negative", "-1", "free"}, {"over", "101", "free"}, {"text", "abc", "free"}, {"half", "50", "free"}, {"fraction", "1.5", "free"}, {"one", "1", "free"}, {"null", "~", "free"}},
	"NL": {{"zero", "0", "free"}, {"negative", "-1", "free"}, {"one", "1", "free"}, {"text", "abc", "free"}, {"overflow", "99999999999999999999", "free"}, {"int32", "2147483648", "free"}, {"null", "~", "free"}, {"two", "2", "free"}},
	"NM": {{"zero", "0", "free"}, {"negative", "-1", "free"}, {"belowCount", "5", "free"}, {"exactCount", "24", "free"}, {"text", "abc", "free"}, {"huge", "100000", "free"}},
	"SZ": {{"zero", "0", "free"}, {"negative", "-1GB", "free"}, {"text", "abc", "free"}, {"badUnit", "1XB", "free"}, {"tiny", "1B", "free"}, {"null", "~", "free"}},
	"DU": {{"zero", "0", "free"}, {"negative", "-1s", "free"}, {"text", "abc", "free"}, {"noUnit", "1", "free"}, {"tiny", "1ns", "free"}, {"null", "~", "free"}},
	"RT": {{"empty", "''", "free"}, {"null", "~", "free"}, {"special", "\"a\\\"b\\nc=\\u00e9{}\"", "free"}, {"long", "'" + strings.Repeat("x", 5000) + "'", "free"}, {"bang", "'!x'", "free"}},
	"TX": {{"empty", "''", "free"}, {"null", "~", "free"}, {"template", "'$nosuchvar'", "free"}},
	"AD": {{"empty", "''", "free"}, {"noPort", "nohostport", "free"}, {"badPort", "localhost:99999", "free"}, {"onlyColon", "':0'", "free"}, {"null", "~", "free"}, {"garbage", "'::::'", "free"}},
	"UR": {{"empty", "''", "free"}, {"notURL", "'not a url'", "free"}, {"otherScheme", "ftp://127.0.0.1:9/x", "free"}, {"null", "~", "free"}, {"control", "\"http://127.0.0.1:9/\\x7f\"", "free"}},
	"ON": {{"empty", "''", "free"}, {"duplicate", "datadogAPI", "free"}, {"slash", "'a/b'", "free"}, {"null", "~", "free"}, {"dots", "'..'", "free"}},
	"MM": {{"unknown", "NoSuchMode", "free"}, {"empty", "''", "free"}, {"forward", "Forward", "free"}, {"packed", "PackedForward", "free"}, {"null", "~", "free"}, {"number", "7", "free"}},
	"LM": {{"seven", "[off, fatal, crit, error, warn, notice, info]", "free"}, {"nine", "[off, fatal, crit, error, warn, notice, info, debug, trace]", "free"}, {"emptyList", "[]", "free"}, {"null", "~", "free"}, {"emptyName", "[off, '', crit, error, warn, notice, info, debug]", "free"}, {"scalar", "info", "free"}},
	"RP": {{"empty", "''", "free"}, {"relative", "rel/q", "free"}, {"unwritable", "/proc/nonexistent/q", "free"}, {"null", "~", "free"}, {"isFile", "ROOT/afile", "free"}},
	"LS": {{"emptyList", "[]", "free"}, {"emptyMap", "{}", "free"}, {"null", "~", "free"}, {"scalar", "x", "free"}, {"listOfNull", "[~]", "free"}, {"unknownStep", "[{type: noSuchType}]", "free"}, {"untyped", "[{key: log}]", "free"}},
}

// structural edits on whole sections (class ED): all "free"
type edit struct {
	name string
	fn   func(s string) string
}

func section(s, name, repl string) string {
	a := strings.Index(s, "#<"+name+">")
	b := strings.Index(s, "#</"+name+">")
	if a < 0 || b < 0 {
		panic("no section " + name)
	}
	return s[:a] + repl + "\n" + s[b:]
}

func mustReplace(s, old, new string) string {
	if !strings.Contains(s, old) {
		panic("edit target not found: " + old)
	}
	return strings.Replace(s, old, new, 1)
}

var edits = []edit{
	{"inputs.null", func(s string) string { return section(s, "inputs", "inputs: ~") }},
	{"inputs.empty", func(s string) string { return section(s, "inputs", "inputs: []") }},
	{"inputs.missing", func(s string) string { return section(s, "inputs", "") }},
	{"inputs.listOfNull", func(s string) string { return section(s, "inputs", "inputs: [~]") }},
	{"orchestration.null", func(s string) string { return section(s, "orchestration", "orchestration: ~") }},
	{"orchestration.missing", func(s string) string { return section(s, "orchestration", "") }},
	{"orchestration.emptyMap", func(s string) string { return section(s, "orchestration", "orchestration: {}") }},
	{"orchestration.singleton", func(s string) string {
		return section(s, "orchestration", "orchestration:\n  type: singleton\n  tag: dev.fixed")
	}},
	{"orchestration.singletonTemplate", func(s string) string {
		return section(s, "orchestration", "orchestration:\n  type: singleton\n  tag: dev.$app")
	}},
	{"orchestration.noKeys", func(s string) string { return mustReplace(s, "  keys: [app, level]\n", "  keys: []\n") }},
	{"orchestration.noTag", func(s string) string { return mustReplace(s, "  tag: dev.$app\n", "") }},
	{"orchestration.dupKeys", func(s string) string { return mustReplace(s, "  keys: [app, level]\n", "  keys: [app, app]\n") }},
	{"transformations.null", func(s string) string { return section(s, "transformations", "transformations: ~") }},
	{"transformations.missing", func(s string) string { return section(s, "transformations", "") }},
	{"transformations.listOfNull", func(s string) string { return section(s, "transformations", "transformations: [~]") }},
	{"outputs.null", func(s string) string { return section(s, "outputs", "outputBufferPairs: ~") }},
	{"outputs.empty", func(s string) string { return section(s, "outputs", "outputBufferPairs: []") }},
	{"outputs.missing", func(s string) string { return section(s, "outputs", "") }},
	{"outputs.listOfNull", func(s string) string { return section(s, "outputs", "outputBufferPairs: [~]") }},
	{"outputs.noBuffer", func(s string) string {
		return mustReplace(s, "    buffer:\n      type: hybridBuffer\n      rootPath: ROOT/q2\n      maxBufSize: 1GB\n", "")
	}},
	{"outputs.nullBuffer", func(s string) string {
		return mustReplace(s, "    buffer:\n      type: hybridBuffer\n      rootPath: ROOT/q2\n      maxBufSize: 1GB\n", "    buffer: ~\n")
	}},
	{"outputs.nullOutput", func(s string) string {
		i := strings.Index(s, "    output:\n      type: datadog")
		return s[:i] + "    output: ~\n#</outputs>\n"
	}},
	{"outputs.noSerialization", func(s string) string {
		return mustReplace(s, "      serialization:\n        hiddenFields: [host, f1, f2, f3, f4, f5]\n", "")
	}},
	{"outputs.noUpstream", func(s string) string {
		return mustReplace(s, "      upstream:\n        address: http://127.0.0.1:9/api/v2/logs\n        httpTimeout: 30s\n", "")
	}},
	{"schema.null", func(s string) string { return "schema: ~\n" + s[strings.Index(s, "#<inputs>"):] }},
	{"schema.noFields", func(s string) string {
		return "schema:\n  fields: []\n  maxFields: 30\n" + s[strings.Index(s, "#<inputs>"):]
	}},
	{"schema.missing", func(s string) string { return s[strings.Index(s, "#<inputs>"):] }},
	{"metricKeys.empty", func(s string) string { return mustReplace(s, "metricKeys: [host, vhost]", "metricKeys: []") }},
	{"metricKeys.null", func(s string) string { return mustReplace(s, "metricKeys: [host, vhost]", "metricKeys: ~") }},
	{"metricKeys.alsoOrchKey", func(s string) string { return mustReplace(s, "metricKeys: [host, vhost]", "metricKeys: [host, app]") }},
	{"metricKeys.duplicate", func(s string) string { return mustReplace(s, "metricKeys: [host, vhost]", "metricKeys: [host, host]") }},
	{"unknownProperty.top", func(s string) string { return s + "noSuchSection: 1\n" }},
	{"unknownProperty.transform", func(s string) string {
		return mustReplace(s, "          - type: redactEmail\n", "          - type: redactEmail\n            noSuchProperty: 1\n")
	}},
	{"typeNotFirst", func(s string) string {
		return mustReplace(s, "          - type: unescape\n            key: log\n", "          - key: log\n            type: unescape\n")
	}},
	{"rewrite.inlineLast", func(s string) string {
		return mustReplace(s, "            - type: inline\n              field: class\n            - type: unescape\n", "            - type: unescape\n            - type: inline\n              field: class\n")
	}},
	{"rewrite.copyFirst", func(s string) string {
		return mustReplace(s, "            - type: inline\n              field: class\n            - type: unescape\n", "            - type: copy\n            - type: unescape\n")
	}},
	{"rewrite.onlyInline", func(s string) string {
		return mustReplace(s, "            - type: inline\n              field: class\n            - type: unescape\n", "            - type: inline\n              field: class\n")
	}},
	{"rewrite.emptyList", func(s string) string {
		return mustReplace(s, "          log:\n            - type: inline\n              field: class\n            - type: unescape\n", "          log: []\n")
	}},
	{"rewrite.copyLast", func(s string) string {
		return mustReplace(s, "            - type: unescape\n      messageMode", "            - type: copy\n      messageMode")
	}},
	{"rewrite.inlineSelf", func(s string) string {
		return mustReplace(s, "              field: class\n", "              field: log\n")
	}},
	// rewriters of a field that is masked (hidden or an environment field): whatever the loader decides about the step list,
	// the serializer of the first pipeline must be constructible
	{"rewrite.hidden.inlineLast", func(s string) string {
		return mustReplace(s, "        rewriteFields:\n", "        rewriteFields:\n          task:\n            - type: unescape\n            - type: inline\n              field: class\n")
	}},
	{"rewrite.hidden.unknownInline", func(s string) string {
		return mustReplace(s, "        rewriteFields:\n", "        rewriteFields:\n          task:\n            - type: inline\n              field: nosuchfield\n            - type: unescape\n")
	}},
	{"rewrite.hidden.valid", func(s string) string {
		return mustReplace(s, "        rewriteFields:\n", "        rewriteFields:\n          task:\n            - type: unescape\n")
	}},
	{"rewrite.env.copyFirst", func(s string) string {
		return mustReplace(s, "        rewriteFields:\n", "        rewriteFields:\n          host:\n            - type: copy\n            - type: unescape\n")
	}},
	{"rewrite.env.unescapeFirst", func(s string) string {
		return mustReplace(s, "        rewriteFields:\n", "        rewriteFields:\n          vhost:\n            - type: unescape\n            - type: copy\n")
	}},
	{"rewrite.env.unknownType", func(s string) string {
		return mustReplace(s, "        rewriteFields:\n", "        rewriteFields:\n          host:\n            - type: noSuchType\n")
	}},
	{"env.alsoHidden", func(s string) string {
		return mustReplace(s, "environmentFields: [host, vhost]", "environmentFields: [host, task]")
	}},
	{"env.alsoRewritten", func(s string) string {
		return mustReplace(s, "environmentFields: [host, vhost]", "environmentFields: [host, log]")
	}},
	{"env.empty", func(s string) string {
		return mustReplace(s, "environmentFields: [host, vhost]", "environmentFields: []")
	}},
	{"hidden.all", func(s string) string {
		return mustReplace(s, "hiddenFields: [task, class, f1, f2, f3, f4, f5]", "hiddenFields: [facility, level, time, host, app, pid, source, extradata, log, class, task, vhost, pnum, cap1, tmp, f1, f2, f3, f4, f5, ddsource, ddtags, hostname, service]")
	}},
	{"switch.noCases", func(s string) string {
		i := strings.Index(s, "  - type: switch\n    cases:\n")
		j := strings.Index(s, "  - type: block\n")
		return s[:i] + "  - type: switch\n    cases: []\n" + s[j:]
	}},
	{"switch.caseNoMatch", func(s string) string {
		return mustReplace(s, "      - match:\n          app: other\n        then:\n", "      - then:\n")
	}},
	{"switch.caseEmptyMatch", func(s string) string {
		return mustReplace(s, "      - match:\n          app: other\n        then:\n", "      - match: {}\n        then:\n")
	}},
	{"drop.noMatch", func(s string) string {
		return mustReplace(s, "            match:\n              source: auth.log\n              level: !!str-not fatal\n", "")
	}},
	{"block.noSteps", func(s string) string {
		i := strings.Index(s, "  - type: block\n    steps:\n")
		j := strings.Index(s, "  - type: addFields\n    fields:\n      ddsource")
		return s[:i] + "  - type: block\n" + s[j:]
	}},
	{"anchors.used", func(s string) string {
		return "anchors:\n  - &del\n    type: delFields\n    keys: [pid]\n" + mustReplace(s, "  - type: block\n    steps:\n", "  - type: block\n    steps:\n      - *del\n")
	}},
	{"tls.on", func(s string) string { return mustReplace(s, "        tls: false\n", "        tls: true\n") }},
	{"secret.set", func(s string) string { return mustReplace(s, "        secret: ''\n", "        secret: guess\n") }},
	{"emptyFile", func(s string) string { return "" }},
	{"notYAML", func(s string) string { return "{{{{ not yaml" }},
	{"scalarFile", func(s string) string { return "42\n" }},
	{"listFile", func(s string) string { return "- a\n- b\n" }},
	{"tabs", func(s string) string { return strings.Replace(s, "  fields:", "\tfields:", 1) }},
}

var siteRe = regexp.MustCompile(`«([A-Z]{2})\|([A-Za-z0-9.]+)\|([^»]*)»`)

type site struct{ class, name, dflt string }

func sites() []site {
	var res []site
	for _, m := range siteRe.FindAllStringSubmatch(baseText, -1) {
		res = append(res, site{m[1], m[2], m[3]})
	}
	return res
}

// render substitutes one site (or none if name is "")
func render(name, text string) string {
	return siteRe.ReplaceAllStringFunc(baseText, func(m string) string {
		p := siteRe.FindStringSubmatch(m)
		if p[2] == name {
			return text
		}
		return p[3]
	})
}

// one configuration to try
type variant struct {
	ID    int    `json:"id"`
	Site  string `json:"site"`
	Class string `json:"class"`
	Kind  string `json:"kind"`
	Must  string `json:"must"`
	Text  string `json:"text"`
}

func variants(seed int64, thorough bool) []variant {
	var vs []variant
	add := func(site, class, kind, must, text string) {
		vs = append(vs, variant{ID: len(vs) + 1, Site: site, Class: class, Kind: kind, Must: must, Text: strings.Replace(text, "@RANDOM@", "", 1)})
	}
	add("none", "BASE", "valid", "accept", render("", ""))
	for _, s := range sites() {
		for _, k := range kindsOf[s.class] {
			add(s.name, s.class, k.name, k.must, render(s.name, k.text))
		}
	}
	base := render("", "")
	for _, e := range edits {
		add(e.name, "ED", "edit", "free", e.fn(base))
	}
	// pairs over a reduced kind set: two sites wrong at once (the first kind of each class)
	ss := sites()
	rnd := rand.New(rand.NewSource(seed))
	npairs, nrandom := 40, 60
	if thorough {
		npairs, nrandom = 6000, 6000
	}
	for i := 0; i < npairs; i++ {
		a, b := ss[rnd.Intn(len(ss))], ss[rnd.Intn(len(ss))]
		if a.name == b.name {
			continue
		}
		// kinds that are "free" so that the second site is reached if the first is accepted
		ka, kb := kindsOf[a.class][rnd.Intn(len(kindsOf[a.class]))], kindsOf[b.class][rnd.Intn(len(kindsOf[b.class]))]
		// no "must reject" claim for pairs: one substitution can void the context of the other (a null map key makes the
		// YAML decoder drop the whole entry, with the unknown step type inside it); pairs are held to "never a crash, and
		// what is accepted instantiates and processes records"
		must := "free"
		text := siteRe.ReplaceAllStringFunc(baseText, func(m string) string {
			p := siteRe.FindStringSubmatch(m)
			switch p[2] {
			case a.name:
				return ka.text
			case b.name:
				return kb.text
			}
			return p[3]
		})
		add(a.name+"+"+b.name, "PAIR", ka.name+"+"+kb.name, must, text)
	}
	// random valid transform programs over f1..f5 appended to the transformations
	for i := 0; i < nrandom; i++ {
		prog := tf.RandomProgramYAML(rnd, "  ")
		vs = append(vs, variant{ID: len(vs) + 1, Site: fmt.Sprintf("random%d", i), Class: "RANDOM", Kind: "valid", Must: "accept", Text: strings.Replace(base, "@RANDOM@", prog, 1)})
	}
	return vs
}

// records that reach every branch of the base file (and the random programs through f1..f3)
var lines = []string{
	"<134>1 2020-07-20T03:48:20.154Z web01 appServ 101 auth.log - user logged in",
	"<131>1 2020-07-20T03:48:20.154Z web01 appServ 101 auth.log - fatal? no, error",
	"<134>1 2020-07-20T03:48:21.154+03:00 web01 appServ/api.example.com 101 access.log - POST /v1/items params=aaaaaaaaaaaaaaaaaaaaaaaaaaaaaaaaaaaaaaaaaaaaaaaaaaaaaaaaaaaaaaaaaaaaaaaaaaa",
	"<134>1 2020-07-20T03:48:22.154Z web01 appServ 101 main.log - contact bob.smith@example.com or 12@34.56 now",
	"<134>1 2020-07-20T03:48:23Z web02 other 7 task.log:123e4567-e89b-12d3-a456-426614174000 - [MyClass ] - Initialized\\nsecond\\tpart",
	"<134>1 2020-07-20T03:48:23Z web02 other 7 x.log - hello world this is a longer message",
	"<134>1 not-a-time web02 other 7 x.log - ab",
	"<134>1 - web02 other - - - x and some more text to pass the minimum",
	"<134>1 2020-07-20T03:48:24.000001Z web03 third 1 src [meta a=\"b\"] first line\n second line\n\tthird line\nthis is not syslog at all and continues the record above",
	"<13>1 2020-07-20T03:48:25Z onlythreefields-and-long-enough-to-pass",
	"<13>1 2020-07-20T03:48:25Z h a 1 s - a",
	"<13>1 2020-07-20T03:48:25Z h <a> 1 x=1 - <a> x=1 y",
	"<13>1 2020-07-20T03:48:25Z h ab 1 ab - ab",
	"<13>1 2020-07-20T03:48:25Z h abc 1 a,b -   pad  ",
	"<13>1 2020-07-20T03:48:26Z web01 appServ 101 access.log - PUT / params=\xc3\xa9\xc3\xa9\xc3\xa9\xc3\xa9\xc3\xa9\xc3\xa9\xc3\xa9\xc3\xa9\xc3\xa9\xc3\xa9\xc3\xa9\xc3\xa9\xc3\xa9\xc3\xa9\xc3\xa9\xc3\xa9\xc3\xa9\xc3\xa9\xc3\xa9\xc3\xa9\xc3\xa9\xc3\xa9\xc3\xa9",
}

var out *json.Encoder
var t0 = time.Now()

func emit(kv ...any) {
	m := map[string]any{"t": time.Since(t0).Milliseconds()}
	for i := 0; i+1 < len(kv); i += 2 {
		m[kv[i].(string)] = kv[i+1]
	}
	_ = out.Encode(m)
}

func sumMetric(m map[string]float64, contains ...string) int {
	total := 0.0
	for k, v := range m {
		all := true
		for _, c := range contains {
			if !strings.Contains(k, c) {
				all = false
			}
		}
		if all {
			total += v
		}
	}
	return int(total)
}

// feed sends the record lines over TCP and waits until the input counters account for them
func feed(addr string, gather func() map[string]float64, before int) (sent int, accounted int, err string) {
	conn, derr := net.Dial("tcp", addr)
	if derr != nil {
		return 0, 0, derr.Error()
	}
	w := bufio.NewWriter(conn)
	for _, l := range lines {
		w.WriteString(l)
		w.WriteByte('\n')
	}
	w.Flush()
	conn.Close()
	deadline := time.Now().Add(4 * time.Second)
	for time.Now().Before(deadline) {
		m := gather()
		accounted = sumMetric(m, "input_passed_records_total") + sumMetric(m, "input_dropped_records_total") - before
		if accounted >= len(lines) {
			break
		}
		time.Sleep(3 * time.Millisecond)
	}
	if accounted < len(lines) && os.Getenv("VERIF_CFG_STALLDUMP") != "" {
		f, _ := os.Create(fmt.Sprintf("%s/stall-%d.txt", os.Getenv("VERIF_CFG_STALLDUMP"), os.Getpid()))
		_ = pprof.Lookup("goroutine").WriteTo(f, 2)
		f.Close()
	}
	return len(lines), accounted, ""
}

// ChildMain processes the variants of a list file one after the other, reporting stage events on stdout
func ChildMain(args []string) int {
	fs := flag.NewFlagSet("cfg-child", flag.ExitOnError)
	list := fs.String("list", "", "json file with the variants")
	from := fs.Int("from", 0, "index of the first variant to run")
	work := fs.String("work", "", "work dir")
	reload := fs.Bool("reload", true, "also use each accepted file as the target of a reload")
	_ = fs.Parse(args)
	logger.SetLogLevel(logger.FatalLevel)
	// the timeouts scaled down as in the end-to-end driver (the upstream of every file refuses connections)
	defs.EnableTestMode()
	defs.ForwarderRetryInterval = 20 * time.Millisecond
	defs.ForwarderBatchAckTimeout = 250 * time.Millisecond
	defs.ForwarderBatchSendTimeoutBase = 250 * time.Millisecond
	defs.ForwarderAckerStopTimeout = 400 * time.Millisecond
	defs.ForwarderConnectionTimeout = 300 * time.Millisecond
	defs.IntermediateFlushInterval = 30 * time.Millisecond
	defs.InputFlushInterval = 30 * time.Millisecond
	defs.IntermediateChannelTimeout = 2 * time.Second
	defs.BufferShutDownTimeout = 2 * time.Second
	defs.BufferMaxNumChunksInQueue = 1000 // the default 500000-slot channel per pipeline and output costs 8 MB each
	out = json.NewEncoder(os.Stdout)
	var vs []variant
	data, _ := os.ReadFile(*list)
	if err := json.Unmarshal(data, &vs); err != nil {
		panic(err)
	}
	basePlain := strings.Replace(render("", ""), "@RANDOM@", "", 1)
	for i := *from; i < len(vs); i++ {
		v := vs[i]
		root := filepath.Join(*work, fmt.Sprintf("c%d", v.ID))
		_ = os.RemoveAll(root)
		_ = os.MkdirAll(root, 0o755)
		_ = os.WriteFile(filepath.Join(root, "afile"), []byte("x"), 0o644)
		cf := filepath.Join(root, "conf.yml")
		text := strings.ReplaceAll(v.Text, "ROOT", root)
		_ = os.WriteFile(cf, []byte(text), 0o644)
		emit("ev", "Begin", "idx", i, "id", v.ID, "site", v.Site, "class", v.Class, "kind", v.Kind, "must", v.Must)
		// stage 1: load
		var perr error
		panicked := ""
		func() {
			defer func() {
				if r := recover(); r != nil {
					panicked = fmt.Sprint(r)
				}
			}()
			_, _, _, perr = run.ParseConfigFile(cf)
		}()
		switch {
		case panicked != "":
			emit("ev", "Crashed", "id", v.ID, "stage", "load", "how", "panic", "detail", panicked)
			emit("ev", "End", "id", v.ID)
			os.RemoveAll(root)
			continue
		case perr != nil:
			emit("ev", "Loaded", "id", v.ID, "res", "rejected", "err", perr.Error())
			emit("ev", "End", "id", v.ID)
			os.RemoveAll(root)
			continue
		}
		emit("ev", "Loaded", "id", v.ID, "res", "accepted")
		// stage 2: instantiate everything and process records
		prefix := fmt.Sprintf("c%d_", v.ID)
		ld, err := run.NewLoaderFromConfigFile(cf, prefix)
		if err != nil {
			emit("ev", "Crashed", "id", v.ID, "stage", "instantiate", "how", "error-after-accept", "detail", err.Error())
			emit("ev", "End", "id", v.ID)
			continue
		}
		orc := ld.StartOrchestrator(logger.Root())
		addrs, shutdownInputs := ld.LaunchInputs(orc)
		emit("ev", "Instantiated", "id", v.ID, "inputs", len(addrs))
		gather := func() map[string]float64 { return vmetrics.Gather(ld.GetMetricGatherer()) }
		sent, acc, ferr := 0, 0, ""
		if len(addrs) > 0 {
			sent, acc, ferr = feed(addrs[0], gather, 0)
		}
		shutdownInputs()
		orc.Shutdown()
		m := gather()
		emit("ev", "Processed", "id", v.ID, "sent", sent, "accounted", acc, "feedError", ferr,
			"inPassed", sumMetric(m, prefix, "input_passed_records_total"), "procPassed", sumMetric(m, prefix, "process_passed_records_total"), "procDropped", sumMetric(m, prefix, "process_dropped_records_total"))
		// stage 3: the same file as the target of a reload of an agent that runs the base file
		if *reload {
			_ = os.RemoveAll(filepath.Join(root, "q1"))
			_ = os.RemoveAll(filepath.Join(root, "q2"))
			_ = os.WriteFile(cf, []byte(strings.ReplaceAll(basePlain, "ROOT", root)), 0o644)
			rprefix := fmt.Sprintf("r%d_", v.ID)
			rl, rerr := run.NewReloaderFromConfigFile(cf, rprefix)
			if rerr != nil {
				emit("ev", "HarnessError", "id", v.ID, "what", rerr.Error())
			} else {
				rorc := rl.StartOrchestrator(logger.Root())
				raddrs, rshut := rl.LaunchInputs(rorc)
				rgather := func() map[string]float64 { return vmetrics.Gather(rl.GetMetricGatherer()) }
				_, acc1, _ := feed(raddrs[0], rgather, 0)
				_ = os.WriteFile(cf, []byte(text), 0o644)
				rm0 := rgather()
				ok0, failed0 := sumMetric(rm0, "reloads_total", "success"), sumMetric(rm0, "reloads_total", "failure")
				rorc.(*run.ReloadableOrchestrator).ReloadForVerif()
				rm := rgather()
				ok, failed := sumMetric(rm, "reloads_total", "success")-ok0, sumMetric(rm, "reloads_total", "failure")-failed0
				sent2, acc2, _ := feed(raddrs[0], rgather, acc1)
				rshut()
				rorc.Shutdown()
				emit("ev", "Reloaded", "id", v.ID, "success", ok, "failure", failed, "sent", sent2, "accounted", acc2)
			}
		}
		emit("ev", "End", "id", v.ID)
		os.RemoveAll(root)
	}
	return 0
}

// Main enumerates the variants of this shard and runs them through child processes
func Main(args []string) int {
	var work *string
	var noReload *bool
	var only *string
	o := fnutil.Open("cfg", args, func(fs *flag.FlagSet) {
		work = fs.String("work", "", "scratch dir")
		noReload = fs.Bool("noreload", false, "skip the reload stage")
		only = fs.String("only", "", "comma-separated variant ids to run (all shards' worth)")
	})
	all := variants(o.Seed, o.Tier == "thorough")
	var mine []variant
	for _, v := range all {
		if *only != "" {
			if strings.Contains(","+*only+",", fmt.Sprintf(",%d,", v.ID)) {
				mine = append(mine, v)
			}
			continue
		}
		if o.Mine() {
			mine = append(mine, v)
		}
	}
	wd := filepath.Join(*work, fmt.Sprintf("cfg-%d", o.Shard))
	_ = os.RemoveAll(wd)
	_ = os.MkdirAll(wd, 0o755)
	defer os.RemoveAll(wd)
	listFile := filepath.Join(wd, "list.json")
	data, _ := json.Marshal(mine)
	_ = os.WriteFile(listFile, data, 0o644)
	next := 0
	for next < len(mine) {
		cargs := []string{"cfg-child", "-list", listFile, "-from", fmt.Sprint(next), "-work", wd}
		if *noReload {
			cargs = append(cargs, "-reload=false")
		}
		cmd := exec.Command(os.Args[0], cargs...)
		cmd.Dir = wd // a relative queue path (site class RP, kind "relative") lands in the scratch directory, not where the check was started
		cmd.Env = append(os.Environ(), "DD_API_KEY=x")
		stdout, _ := cmd.StdoutPipe()
		var stderr strings.Builder
		cmd.Stderr = &tailWriter{sb: &stderr}
		if err := cmd.Start(); err != nil {
			o.Emit(map[string]any{"ev": "HarnessError", "what": err.Error()})
			break
		}
		sc := bufio.NewScanner(stdout)
		sc.Buffer(make([]byte, 1<<20), 1<<24)
		cur, stage, ended := -1, "", true
		var curV variant
		for sc.Scan() {
			var ev map[string]any
			if json.Unmarshal(sc.Bytes(), &ev) != nil {
				continue
			}
			switch ev["ev"] {
			case "Begin":
				cur = int(ev["idx"].(float64))
				curV = mine[cur]
				stage, ended = "load", false
				ev["yaml"] = ""
			case "Loaded":
				stage = "instantiate"
			case "Instantiated":
				stage = "process"
			case "Processed":
				stage = "reload"
			case "Reloaded":
				stage = "end"
			case "End":
				ended = true
			}
			delete(ev, "idx")
			o.Emit(ev)
		}
		werr := cmd.Wait()
		if ended && werr == nil {
			break
		}
		if ended { // died between two configurations
			next = cur + 1
			continue
		}
		how := "exit"
		tail := stderr.String()
		switch {
		case strings.Contains(tail, "panic:") || strings.Contains(tail, "fatal error:"):
			how = "panic"
		case strings.Contains(tail, "level=fatal"):
			how = "fatal"
		}
		if len(tail) > 1500 {
			tail = tail[:1500]
		}
		o.Emit(map[string]any{"ev": "Crashed", "id": curV.ID, "stage": stage, "how": how, "detail": tail})
		o.Emit(map[string]any{"ev": "End", "id": curV.ID})
		next = cur + 1
	}
	o.Close()
	return 0
}

// tailWriter keeps the first part of what the child writes to stderr (the panic message comes first)
type tailWriter struct{ sb *strings.Builder }

func (t *tailWriter) Write(p []byte) (int, error) {
	if t.sb.Len() < 8000 {
		t.sb.Write(p)
	}
	return len(p), nil
}

// DumpMain writes the YAML of one variant (for replay and debugging)
func DumpMain(args []string) int {
	fs := flag.NewFlagSet("cfg-dump", flag.ExitOnError)
	id := fs.Int("id", 1, "variant id")
	seed := fs.Int64("seed", 1, "seed")
	tier := fs.String("tier", "quick", "tier")
	_ = fs.Parse(args)
	for _, v := range variants(*seed, *tier == "thorough") {
		if v.ID == *id {
			fmt.Print(v.Text)
			return 0
		}
	}
	return 1
}

// BaseYAML is the valid base file with its queue directories under root
func BaseYAML(root string) string {
	return strings.ReplaceAll(strings.Replace(render("", ""), "@RANDOM@", "", 1), "ROOT", root)
}
