// Package tf builds transform programs from YAML with the real loader code (bsupport.NewTransformsFromConfig), runs
// records through them and logs (program AST, record, result) for TransformsTrace.tla
package tf

import (
	"fmt"
	"math/rand"
	"strings"

	"github.com/relex/gotils/logger"
	"github.com/relex/slog-agent/base"
	"github.com/relex/slog-agent/base/bconfig"
	"github.com/relex/slog-agent/base/bsupport"
	_ "github.com/relex/slog-agent/transform" // registers the transform types
	"github.com/relex/slog-agent/util"

	"verifharness/fnutil"
)

var fieldNames = []string{"f1", "f2", "f3", "f4", "f5"}

// node is one transform of a program
type node struct {
	t        string
	dest     int
	parts    [][]any // addFields template: ["lit", text] | ["var", idx] | ["slice", idx, hasA, a, hasB, b]
	keys     []int
	key      int
	mapping  [][2]string
	dflt     string
	match    []matchItem
	then     []*node
	cases    []caseItem
	rate, id int
	label    string
	left     string
	wild     string // "*" or a bracket expression as written
	right    string
	maxLen   int
	suffix   string
	pat      string // menu id of a regular expression (replace / extract)
}
type matchItem struct {
	idx int
	op  string // eq not start end contain any lengt lenlt
	arg string
	n   int
}
type caseItem struct {
	match []matchItem
	then  []*node
}

// the fixed menu of regular expressions and globs whose meaning Transforms.tla writes out (Go regexp / gobwas glob are not
// re-specified): menu id -> (pattern, replacement)
var replaceMenu = map[string][2]string{
	"runsA": {"a+", "X"},            // every maximal run of 'a' becomes X
	"delB":  {"b", ""},              // every 'b' is deleted
	"rot2":  {"^(..)(.*)$", "$2$1"}, // the first two characters go to the end (no match across a newline)
}
var extractMenu = map[string]string{
	"kv":  "^(?P<f4>[a-c]+)=(?P<f5>[a-c]*)",       // f4 := leading run of a-c before '=', f5 := run of a-c after it (may be empty)
	"opt": "^(?P<f4>[a-c]+)(?:=(?P<f5>[a-c]+))?", // f4 := leading run of a-c; f5 := run after '=' only if that group takes part in the match
	"alt": "^(?:(?P<f4>a+)|(?P<f5>b+))",          // exactly one of the two groups takes part
}
var matchMenu = map[string][2]string{ // op -> (tag, expression)
	"re_allA":   {"!!regex", "^a+$"},
	"re_bdotc":  {"!!regex", "b.c"},
	"gl_astarb": {"!!glob", "a*b"},
	"gl_alt":    {"!!glob", "{ab,c}?"},
}

func fname(i int) string { return fieldNames[i-1] }
func q(s string) string {
	return "\"" + strings.NewReplacer("\\", "\\\\", "\"", "\\\"").Replace(s) + "\""
}

func matchYAML(ms []matchItem, ind string) string {
	var sb strings.Builder
	for _, m := range ms {
		tag := map[string]string{"eq": "!!str-eq", "not": "!!str-not", "start": "!!str-start", "end": "!!str-end", "contain": "!!str-contain", "any": "!!str-any", "lengt": "!!len-gt", "lenlt": "!!len-lt"}[m.op]
		if mm, ok := matchMenu[m.op]; ok {
			fmt.Fprintf(&sb, "%s%s: %s %s\n", ind, fname(m.idx), mm[0], q(mm[1]))
			continue
		}
		switch m.op {
		case "any":
			fmt.Fprintf(&sb, "%s%s: %s \"\"\n", ind, fname(m.idx), tag)
		case "lengt", "lenlt":
			fmt.Fprintf(&sb, "%s%s: %s \"%d\"\n", ind, fname(m.idx), tag, m.n)
		default:
			fmt.Fprintf(&sb, "%s%s: %s %s\n", ind, fname(m.idx), tag, q(m.arg))
		}
	}
	return sb.String()
}

func tplText(parts [][]any) string {
	var sb strings.Builder
	for _, p := range parts {
		switch p[0] {
		case "lit":
			sb.WriteString(p[1].(string))
		case "var":
			fmt.Fprintf(&sb, "${%s}", fname(p[1].(int)))
		case "slice":
			a, b := "", ""
			if p[2].(bool) {
				a = fmt.Sprint(p[3])
			}
			if p[4].(bool) {
				b = fmt.Sprint(p[5])
			}
			fmt.Fprintf(&sb, "${%s[%s:%s]}", fname(p[1].(int)), a, b)
		}
	}
	return sb.String()
}

func (n *node) yaml(ind string) string {
	var sb strings.Builder
	w := func(f string, a ...any) { sb.WriteString(ind + "  " + fmt.Sprintf(f, a...) + "\n") }
	sb.WriteString(ind + "- type: " + n.t + "\n")
	list := func(name string, ts []*node) {
		w("%s:", name)
		for _, c := range ts {
			sb.WriteString(c.yaml(ind + "    "))
		}
	}
	switch n.t {
	case "addFields":
		w("fields:")
		w("  %s: %s", fname(n.dest), q(tplText(n.parts)))
	case "delFields":
		ks := []string{}
		for _, k := range n.keys {
			ks = append(ks, fname(k))
		}
		w("keys: [%s]", strings.Join(ks, ", "))
	case "mapValue":
		w("key: %s", fname(n.key))
		w("mapping:")
		for _, m := range n.mapping {
			w("  %s: %s", q(m[0]), q(m[1]))
		}
		w("default: %s", q(n.dflt))
	case "if":
		w("match:")
		sb.WriteString(matchYAML(n.match, ind+"    "))
		list("then", n.then)
	case "switch":
		w("cases:")
		for _, c := range n.cases {
			sb.WriteString(ind + "    - match:\n")
			sb.WriteString(matchYAML(c.match, ind+"        "))
			sb.WriteString(ind + "      then:\n")
			for _, t := range c.then {
				sb.WriteString(t.yaml(ind + "        "))
			}
		}
	case "block":
		list("steps", n.then)
	case "drop":
		w("match:")
		sb.WriteString(matchYAML(n.match, ind+"    "))
		w("percentage: %d", n.rate)
		w("metricLabel: %s", n.label)
	case "extractHead", "extractTail":
		w("key: %s", fname(n.key))
		w("pattern: %s", q(escPat(n.left)+n.wild+escPat(n.right)))
		w("maxLen: %d", n.maxLen)
		w("destKey: %s", fname(n.dest))
	case "truncate":
		w("key: %s", fname(n.key))
		w("maxLen: %d", n.maxLen)
		w("suffix: %s", q(n.suffix))
	case "unescape":
		w("key: %s", fname(n.key))
	case "replace":
		w("key: %s", fname(n.key))
		w("pattern: %s", q(replaceMenu[n.pat][0]))
		w("replacement: %s", q(replaceMenu[n.pat][1]))
	case "extract":
		w("key: %s", fname(n.key))
		w("pattern: %s", q(extractMenu[n.pat]))
	}
	return sb.String()
}

func escPat(s string) string {
	return strings.NewReplacer("\\", "\\\\", "[", "\\[", "]", "\\]", "*", "\\*").Replace(s)
}

// class returns the spec's representation of a wildcard: [] for '*', [negated, [bytes]] for a bracket expression
func class(wild string) []any {
	if wild == "*" {
		return []any{}
	}
	expr := wild[1 : len(wild)-1]
	neg := false
	if strings.HasPrefix(expr, "^") {
		neg, expr = true, expr[1:]
	}
	set := map[byte]bool{}
	for i := 0; i < len(expr); i++ {
		c := expr[i]
		if c == '-' && i > 0 && i < len(expr)-1 {
			for rc := int(expr[i-1]); rc <= int(expr[i+1]); rc++ {
				set[byte(rc)] = true
			}
			i++
			continue
		}
		set[c] = true
	}
	bs := []int{}
	for c := 0; c < 256; c++ {
		if set[byte(c)] {
			bs = append(bs, c)
		}
	}
	return []any{neg, bs}
}

func matchJSON(ms []matchItem) [][]any {
	r := [][]any{}
	for _, m := range ms {
		switch m.op {
		case "lengt", "lenlt":
			r = append(r, []any{m.idx, m.op, m.n})
		default:
			r = append(r, []any{m.idx, m.op, fnutil.Bytes(m.arg)})
		}
	}
	return r
}

func listJSON(ts []*node, drops *[][]int) []any {
	r := []any{}
	for _, t := range ts {
		r = append(r, t.json(drops))
	}
	return r
}

func (n *node) json(drops *[][]int) map[string]any {
	m := map[string]any{"t": n.t}
	switch n.t {
	case "addFields":
		ps := [][]any{}
		for _, p := range n.parts {
			if p[0] == "lit" {
				ps = append(ps, []any{"lit", fnutil.Bytes(p[1].(string))})
			} else {
				ps = append(ps, p)
			}
		}
		m["dest"], m["parts"] = n.dest, ps
	case "delFields":
		m["keys"] = n.keys
	case "mapValue":
		mp := [][]any{}
		for _, e := range n.mapping {
			mp = append(mp, []any{fnutil.Bytes(e[0]), fnutil.Bytes(e[1])})
		}
		m["key"], m["mapping"], m["default"] = n.key, mp, fnutil.Bytes(n.dflt)
	case "if":
		m["match"], m["then"] = matchJSON(n.match), listJSON(n.then, drops)
	case "switch":
		cs := []any{}
		for _, c := range n.cases {
			cs = append(cs, map[string]any{"match": matchJSON(c.match), "then": listJSON(c.then, drops)})
		}
		m["cases"] = cs
	case "block":
		m["steps"] = listJSON(n.then, drops)
	case "drop":
		*drops = append(*drops, []int{len(*drops) + 1, n.rate})
		n.id = len(*drops)
		m["match"], m["rate"], m["id"] = matchJSON(n.match), n.rate, n.id
	case "extractHead", "extractTail":
		m["key"], m["dest"], m["left"], m["right"], m["cls"], m["maxLen"] = n.key, n.dest, fnutil.Bytes(n.left), fnutil.Bytes(n.right), class(n.wild), n.maxLen
	case "truncate":
		m["key"], m["maxLen"], m["suffix"] = n.key, n.maxLen, fnutil.Bytes(n.suffix)
	case "unescape":
		m["key"] = n.key
	case "replace", "extract":
		m["key"], m["pat"] = n.key, n.pat
	}
	return m
}

type program struct {
	steps []*node
	funcs []base.LogTransformFunc
}

// Main is the entry point of `vh tf`
func Main(args []string) int {
	o := fnutil.Open("tf", args, nil)
	logger.SetLogLevel(logger.FatalLevel)
	thorough := o.Tier == "thorough"
	schema := base.MustNewLogSchema(fieldNames)
	cnt := fnutil.NewCounter()

	expectReject := false // the next programs are invalid and must be refused when the configuration is verified
	// runProgram builds the program with the real loader code and runs the records through it (one shard owns a program)
	runProgram := func(steps []*node, records [][]string, flags []bool) {
		if !o.Mine() {
			return
		}
		var sb strings.Builder
		for _, s := range steps {
			sb.WriteString(s.yaml(""))
		}
		drops := [][]int{}
		ast := listJSON(steps, &drops)
		ev := map[string]any{"ev": "TF", "op": "new", "steps": ast, "drops": drops, "yaml": sb.String(), "expectReject": expectReject}
		var holders []bconfig.LogTransformConfigHolder
		if err := util.UnmarshalYamlString(sb.String(), &holders); err != nil {
			ev["op"], ev["error"] = "loaderror", err.Error()
			o.Emit(ev)
			return
		}
		if err := bsupport.VerifyTransformConfigs(holders, schema, "prog"); err != nil {
			ev["op"], ev["error"] = "rejected", err.Error()
			o.Emit(ev)
			return
		}
		var funcs []base.LogTransformFunc
		func() {
			defer func() {
				if r := recover(); r != nil {
					ev["op"], ev["error"] = "buildpanic", fmt.Sprint(r)
				}
			}()
			funcs = bsupport.NewTransformsFromConfig(holders, schema, logger.Root(), cnt)
		}()
		o.Emit(ev)
		if funcs == nil {
			return
		}
		for i, rec := range records {
			fields := make(base.LogFields, len(fieldNames))
			in := [][]int{}
			for j := range fields {
				v := ""
				if j < len(rec) {
					v = rec[j]
				}
				fields[j] = strings.Clone(v)
				in = append(in, fnutil.Bytes(v))
			}
			r := schema.NewTestRecord1(fields)
			r.RawLength = 10
			r.Unescaped = flags != nil && flags[i%len(flags)]
			e := map[string]any{"ev": "TF", "op": "rec", "fields": in, "unescaped": r.Unescaped, "res": "PASS"}
			func() {
				defer func() {
					if p := recover(); p != nil {
						e["res"], e["panic"] = "panic", fmt.Sprint(p)
					}
				}()
				if bsupport.RunTransforms(r, funcs) == base.DROP {
					e["res"] = "DROP"
				}
			}()
			out := [][]int{}
			for j := range fieldNames {
				out = append(out, fnutil.Bytes(r.Fields[j]))
			}
			e["out"], e["outUnescaped"] = out, r.Unescaped
			o.Emit(e)
		}
	}

	allStrings := func(syms []string, maxLen int) []string {
		res := []string{""}
		level := []string{""}
		for l := 1; l <= maxLen; l++ {
			var next []string
			for _, p := range level {
				for _, s := range syms {
					next = append(next, p+s)
				}
			}
			res = append(res, next...)
			level = next
		}
		return res
	}
	recs1 := func(vals []string) [][]string {
		r := [][]string{}
		for _, v := range vals {
			r = append(r, []string{v, "other", ""})
		}
		return r
	}

	// (i-a) template slices: every pair of bounds x value lengths 0..5
	bounds := []any{nil, -4, -3, -2, -1, 0, 1, 2, 3, 4}
	vals05 := []string{"", "a", "ab", "abc", "abcd", "abcde"}
	for _, a := range bounds {
		for _, b := range bounds {
			p := []any{"slice", 1, a != nil, 0, b != nil, 0}
			if a != nil {
				p[3] = a
			}
			if b != nil {
				p[5] = b
			}
			runProgram([]*node{{t: "addFields", dest: 2, parts: [][]any{{"lit", "<"}, p, {"lit", ">"}}},
				{t: "addFields", dest: 3, parts: [][]any{p}}}, recs1(vals05), nil)
		}
	}
	// (i-b) extractHead / extractTail: boundaries x wildcard x search range x every short text
	tl := 4
	if thorough {
		tl = 5
	}
	texts := allStrings([]string{"a", "x", "<", ">", " "}, tl)
	for _, typ := range []string{"extractHead", "extractTail"} {
		for _, left := range []string{"", "<", "<<"} {
			for _, wild := range []string{"*", "[a-c]", "[^x ]", "[a< ]"} {
				for _, right := range []string{"", ">", "> "} {
					for _, ml := range []int{1, 2, 3, 6} {
						if wild == "*" && ((typ == "extractHead" && right == "") || (typ == "extractTail" && left == "")) {
							continue // needs the far boundary (rejected below, once)
						}
						runProgram([]*node{{t: typ, key: 1, left: left, wild: wild, right: right, maxLen: ml, dest: 3}}, recs1(texts), nil)
					}
				}
			}
		}
	}
	expectReject = true
	runProgram([]*node{{t: "extractHead", key: 1, left: "<", wild: "*", right: "", maxLen: 3, dest: 3}}, recs1([]string{"<abc", "abc"}), nil)
	runProgram([]*node{{t: "extractTail", key: 1, left: "", wild: "*", right: ">", maxLen: 3, dest: 3}}, recs1([]string{"abc>", "abc"}), nil)
	expectReject = false
	// (i-c) truncate: maxLen x values with multi-byte characters at every cut position
	tvals := []string{}
	for _, r := range []string{"\xc3\xa9", "\xe2\x82\xac", "\xf0\x9f\x98\x80", "\xff", "\xc3"} {
		for pos := 0; pos <= 8; pos++ {
			tvals = append(tvals, strings.Repeat("a", pos)+r+strings.Repeat("b", 9-pos), strings.Repeat("a", pos)+r+r+"z")
		}
	}
	tvals = append(tvals, "", "short", "exactly10!", "elevenchars")
	for ml := 1; ml <= 8; ml++ {
		for _, suf := range []string{"~", "..."} {
			runProgram([]*node{{t: "truncate", key: 1, maxLen: ml, suffix: suf}}, recs1(tvals), nil)
		}
	}
	// values owned by the configuration or by another field: truncate must not change what later records see
	runProgram([]*node{{t: "mapValue", key: 1, mapping: [][2]string{{"k", "a-long-mapped-value"}, {"j", "short"}}, dflt: "the-default-value"}, {t: "truncate", key: 1, maxLen: 4, suffix: "~"},
		{t: "addFields", dest: 2, parts: [][]any{{"lit", "literal-template-text"}}}, {t: "truncate", key: 2, maxLen: 3, suffix: "+"}},
		[][]string{{"k"}, {"k"}, {"zz"}, {"zz"}, {"j"}, {"k"}, {""}}, nil)
	runProgram([]*node{{t: "addFields", dest: 2, parts: [][]any{{"var", 1}}}, {t: "truncate", key: 2, maxLen: 2, suffix: "#"}, {t: "addFields", dest: 3, parts: [][]any{{"var", 1}}}},
		[][]string{{"abcdefgh"}, {"ab"}, {"abcdefgh"}}, nil)
	// (i-d) sampled dropping: rate x long matched streams (with unmatched records in between)
	rates := []int{1, 2, 3, 10, 25, 33, 50, 66, 75, 90, 97, 99, 100}
	nrec := 300
	if thorough {
		rates = nil
		for r := 1; r <= 100; r++ {
			rates = append(rates, r)
		}
		nrec = 400
	}
	for _, rate := range rates {
		recs := [][]string{}
		for i := 0; i < nrec; i++ {
			if i%7 == 3 {
				recs = append(recs, []string{"other"})
			} else {
				recs = append(recs, []string{"noise"})
			}
		}
		runProgram([]*node{{t: "drop", match: []matchItem{{idx: 1, op: "eq", arg: "noise"}}, rate: rate, label: "dropped"}}, recs, nil)
	}
	// (i-e) match operators, mapValue, delFields, unescape, if / switch / block
	mvals := []string{"", "a", "ab", "abc", "b", "ba", "xabx", "abab", "ABC"}
	for _, op := range []string{"eq", "not", "start", "end", "contain"} {
		for _, arg := range []string{"a", "ab", "abc", "b"} {
			runProgram([]*node{{t: "if", match: []matchItem{{idx: 1, op: op, arg: arg}}, then: []*node{{t: "addFields", dest: 3, parts: [][]any{{"lit", "hit"}}}}}}, recs1(mvals), nil)
		}
	}
	for n := 0; n <= 4; n++ {
		runProgram([]*node{{t: "if", match: []matchItem{{idx: 1, op: "lengt", n: n}, {idx: 2, op: "any"}}, then: []*node{{t: "delFields", keys: []int{1, 2}}}},
			{t: "if", match: []matchItem{{idx: 1, op: "lenlt", n: n}}, then: []*node{{t: "addFields", dest: 4, parts: [][]any{{"lit", "short"}}}}}}, recs1(mvals), nil)
	}
	evals := allStrings([]string{"a", "\\", "n", "t", "x"}, tl)
	runProgram([]*node{{t: "unescape", key: 1}}, recs1(evals), []bool{false})
	runProgram([]*node{{t: "unescape", key: 1}, {t: "unescape", key: 2}}, [][]string{{"a\\nb", "c\\td"}, {"\\\\", "\\"}}, []bool{false, true})
	// unescape is once per record: the first step marks the record even if its own field is empty or has nothing to unescape
	runProgram([]*node{{t: "unescape", key: 1}, {t: "unescape", key: 2}, {t: "if", match: []matchItem{{idx: 3, op: "any"}}, then: []*node{{t: "unescape", key: 3}}}},
		[][]string{{"plain", "c\\td", "e\\nf"}, {"", "x\\ny", "z\\\\"}, {"a\\tb", "plain", ""}, {"", "", "q\\n"}}, []bool{false})
	runProgram([]*node{{t: "switch", cases: []caseItem{
		{match: []matchItem{{idx: 1, op: "start", arg: "a"}}, then: []*node{{t: "addFields", dest: 3, parts: [][]any{{"lit", "A"}}}}},
		{match: []matchItem{{idx: 1, op: "contain", arg: "b"}}, then: []*node{{t: "drop", match: []matchItem{{idx: 1, op: "any"}}, rate: 100, label: "b"}}},
		{match: []matchItem{{idx: 1, op: "any"}}, then: []*node{{t: "block", then: []*node{{t: "mapValue", key: 1, mapping: [][2]string{{"ABC", "abc"}}, dflt: ""}, {t: "addFields", dest: 3, parts: [][]any{{"lit", "C:"}, {"var", 1}}}}}}},
	}}, {t: "addFields", dest: 5, parts: [][]any{{"lit", "after"}}}}, recs1(mvals), nil)

	// (i-f) regular expressions and globs from the fixed menu (replace, extract, !!regex, !!glob) on ASCII values
	avals := []string{"", "a", "aa", "ab", "b", "abc", "aab", "bac", "b\nc", "bxc", "b=c", "ab=", "ab=ca", "a=b", "cab", "acb", "a\n", "=", "abcabc", "aaXaa", "c", "cx", "abx", "abxy", "bb", "a b", "ba", "aab=abc=a", "d=a", "=a"}
	recsA := [][]string{}
	for _, v := range avals {
		recsA = append(recsA, []string{v, "keep", "", "old4", "old5"})
	}
	for _, pat := range []string{"runsA", "delB", "rot2"} {
		runProgram([]*node{{t: "replace", key: 1, pat: pat}}, recsA, nil)
		runProgram([]*node{{t: "replace", key: 1, pat: pat}, {t: "replace", key: 1, pat: "runsA"}, {t: "replace", key: 3, pat: pat}}, recsA, nil)
	}
	runProgram([]*node{{t: "extract", key: 1, pat: "kv"}}, recsA, nil)
	for _, pat := range []string{"opt", "alt"} { // a group that takes no part in the match leaves its (non-empty) field alone
		runProgram([]*node{{t: "extract", key: 1, pat: pat}}, recsA, nil)
		runProgram([]*node{{t: "extract", key: 1, pat: pat}, {t: "extract", key: 4, pat: "alt"}, {t: "addFields", dest: 3, parts: [][]any{{"var", 4}, {"lit", "/"}, {"var", 5}}}}, recsA, nil)
	}
	runProgram([]*node{{t: "extract", key: 1, pat: "kv"}, {t: "if", match: []matchItem{{idx: 5, op: "any"}}, then: []*node{{t: "addFields", dest: 3, parts: [][]any{{"var", 4}, {"lit", "/"}, {"var", 5}}}}}}, recsA, nil)
	for _, op := range []string{"re_allA", "re_bdotc", "gl_astarb", "gl_alt"} {
		runProgram([]*node{{t: "if", match: []matchItem{{idx: 1, op: op}}, then: []*node{{t: "addFields", dest: 3, parts: [][]any{{"lit", "hit"}}}}},
			{t: "drop", match: []matchItem{{idx: 1, op: op}, {idx: 2, op: "eq", arg: "keep"}}, rate: 100, label: "m"}}, recsA, nil)
	}
	// (ii) generated programs nested to depth 3, boundary-biased records
	rnd := rand.New(rand.NewSource(o.Seed))
	words := []string{"", "a", "ab", "abc", "<a>", "x=1 y", "\\n", "long-value-0123456789", "\xc3\xa9t\xc3\xa9", "  pad  ", "a,b"}
	nprog, nrecs := 300, 30
	if thorough {
		nprog, nrecs = 40000, 100
	}
	gen := newGen(rnd)
	for p := 0; p < nprog; p++ {
		steps := []*node{}
		for k := 0; k < 1+rnd.Intn(4); k++ {
			steps = append(steps, gen(1))
		}
		recs := [][]string{}
		flags := []bool{}
		for r := 0; r < nrecs; r++ {
			recs = append(recs, []string{words[rnd.Intn(len(words))], words[rnd.Intn(len(words))], words[rnd.Intn(len(words))], "", ""})
			flags = append(flags, rnd.Intn(4) == 0)
		}
		runProgram(steps, recs, flags)
	}
	o.Close()
	return 0
}

// newGen returns the generator of random valid transform steps (nested to depth 3)
func newGen(rnd *rand.Rand) func(depth int) *node {
	var gen func(depth int) *node
	mkMatch := func() []matchItem {
		ms := []matchItem{}
		used := map[int]bool{}
		for k := 0; k < 1+rnd.Intn(2); k++ {
			idx := 1 + rnd.Intn(3)
			if used[idx] {
				continue
			}
			used[idx] = true
			op := []string{"eq", "not", "start", "end", "contain", "any", "lengt", "lenlt"}[rnd.Intn(8)]
			m := matchItem{idx: idx, op: op, arg: []string{"a", "ab", "<", "x", "abc"}[rnd.Intn(5)], n: rnd.Intn(5)}
			ms = append(ms, m)
		}
		return ms
	}
	gen = func(depth int) *node {
		kinds := []string{"addFields", "delFields", "mapValue", "truncate", "unescape", "extractHead", "extractTail", "drop"}
		if depth < 3 {
			kinds = append(kinds, "if", "switch", "block", "if")
		}
		sub := func() []*node {
			r := []*node{}
			for k := 0; k < 1+rnd.Intn(2); k++ {
				r = append(r, gen(depth+1))
			}
			return r
		}
		switch k := kinds[rnd.Intn(len(kinds))]; k {
		case "addFields":
			var parts [][]any
			switch rnd.Intn(3) {
			case 0:
				parts = [][]any{{"var", 1 + rnd.Intn(3)}}
			case 1:
				parts = [][]any{{"lit", "p="}, {"var", 1 + rnd.Intn(3)}, {"lit", ";"}}
			default:
				parts = [][]any{{"slice", 1 + rnd.Intn(3), rnd.Intn(2) == 0, rnd.Intn(7) - 3, rnd.Intn(2) == 0, rnd.Intn(7) - 3}, {"lit", "|"}}
			}
			return &node{t: k, dest: 3 + rnd.Intn(3), parts: parts}
		case "delFields":
			return &node{t: k, keys: []int{1 + rnd.Intn(5)}}
		case "mapValue":
			return &node{t: k, key: 1 + rnd.Intn(3), mapping: [][2]string{{"a", "mapped-a"}, {"ab", ""}}, dflt: []string{"", "dflt"}[rnd.Intn(2)]}
		case "truncate":
			return &node{t: k, key: 1 + rnd.Intn(5), maxLen: 1 + rnd.Intn(6), suffix: "~"}
		case "unescape":
			return &node{t: k, key: 1 + rnd.Intn(3)}
		case "extractHead", "extractTail":
			n := &node{t: k, key: 1 + rnd.Intn(3), dest: 4 + rnd.Intn(2), left: []string{"", "<", "x="}[rnd.Intn(3)], right: []string{">", " ", ""}[rnd.Intn(3)], wild: []string{"[a-z0-9]", "[^ ]", "*"}[rnd.Intn(3)], maxLen: 1 + rnd.Intn(8)}
			if n.wild == "*" {
				if k == "extractHead" && n.right == "" {
					n.right = ">"
				}
				if k == "extractTail" && n.left == "" {
					n.left = "<"
				}
			}
			return n
		case "drop":
			return &node{t: k, match: mkMatch(), rate: []int{100, 50, 10, 100}[rnd.Intn(4)], label: "lbl"}
		case "if":
			return &node{t: k, match: mkMatch(), then: sub()}
		case "switch":
			cs := []caseItem{}
			for c := 0; c < 1+rnd.Intn(3); c++ {
				cs = append(cs, caseItem{mkMatch(), sub()})
			}
			return &node{t: k, cases: cs}
		default:
			return &node{t: "block", then: sub()}
		}
	}
	return gen
}

// RandomProgramYAML is a random valid transform list over the fields f1..f5, as YAML list items indented by ind
func RandomProgramYAML(rnd *rand.Rand, ind string) string {
	gen := newGen(rnd)
	var sb strings.Builder
	for k := 0; k < 1+rnd.Intn(4); k++ {
		sb.WriteString(gen(1).yaml(ind))
	}
	return sb.String()
}
