package rb

import (
	"flag"
	"fmt"
	"os"
	"path/filepath"
	"regexp"
	"sort"
	"strings"

	"github.com/relex/gotils/logger"
	"github.com/relex/slog-agent/base"
	"github.com/relex/slog-agent/defs"

	"verifharness/fnutil"
	"verifharness/vmetrics"
)

// LabelsMain decides the attribution clause of C19 on the real LogProcessCounterSet: programs of labelled transforms in
// every order, with every assignment of two label names (so that labels are shared between transforms, with other labels
// registered in between), process records whose hits are known by construction; the labelled counters per label and
// metric key are logged for LabelsTrace.tla, which computes what they must be.
func LabelsMain(args []string) int {
	var work *string
	o := fnutil.Open("lb", args, func(fs *flag.FlagSet) { work = fs.String("work", "", "scratch dir") })
	logger.SetLogLevel(logger.FatalLevel)
	// every record lives in a pooled backing buffer that is recycled at its release (production: records over 1024 bytes), so
	// metric key values that are kept as views into a record's buffer show up as counts booked on another record's values
	defs.InputLogMinRecordBytesToPool = 8
	root := filepath.Join(*work, fmt.Sprintf("lb-%d", o.Shard))
	_ = os.RemoveAll(root)
	_ = os.MkdirAll(root, 0o755)
	defer os.RemoveAll(root)
	const tmpl = `schema:
  fields: [facility, level, time, host, app, pid, source, extradata, log]
  maxFields: 12
inputs:
  - type: syslog
    address: localhost:0
    levelMapping: [off, fatal, crit, error, warn, notice, info, debug]
    extractions:
      - type: delFields
        keys: [facility, pid]
      - type: drop
        match:
          source: xsrc
        percentage: 100
        metricLabel: lx
      - type: drop
        match:
          source: zsrc
        percentage: 100
        metricLabel: lz
      - type: drop
        match:
          source: ysrc
        percentage: 100
        metricLabel: lx
orchestration:
  type: byKeySet
  keys: [app]
  tag: dev.$app
metricKeys: [host]
transformations:
%s
outputBufferPairs:
  - name: out1
    buffer:
      type: hybridBuffer
      rootPath: %s/q
      maxBufSize: 1GB
    output:
      type: fluentdForward
      serialization:
        environmentFields: [host]
        hiddenFields: []
        rewriteFields: {}
      messageMode: PackedForward
      upstream:
        address: 127.0.0.1:9
        tls: false
        secret: ""
        maxDuration: 300ms
`
	kinds := []string{"dropDebug", "dropInfo", "redact", "time"}
	yamlOf := func(kind, label string) string {
		switch kind {
		case "dropDebug":
			return fmt.Sprintf("  - type: drop\n    match:\n      level: debug\n    percentage: 100\n    metricLabel: %s\n", label)
		case "dropInfo":
			return fmt.Sprintf("  - type: drop\n    match:\n      level: info\n    percentage: 100\n    metricLabel: %s\n", label)
		case "redact":
			return fmt.Sprintf("  - type: redactEmail\n    key: log\n    metricLabel: %s\n", label)
		}
		return fmt.Sprintf("  - type: parseTime\n    key: time\n    errorLabel: %s\n", label)
	}
	labelNames := []string{"la", "lb", "lc"}
	nl := 2
	if o.Tier == "thorough" {
		nl = 3
	}
	var perm func(cur []string, used map[string]bool, n int, f func([]string))
	perm = func(cur []string, used map[string]bool, n int, f func([]string)) {
		if len(cur) == n {
			f(append([]string(nil), cur...))
			return
		}
		for _, k := range kinds {
			if !used[k] {
				used[k] = true
				perm(append(cur, k), used, n, f)
				used[k] = false
			}
		}
	}
	keyRe := regexp.MustCompile(`key_host=([^,}]*)`)
	labRe := regexp.MustCompile(`label=([^,}]*)`)
	prog := 0
	for _, n := range []int{3, 4} {
		perm(nil, map[string]bool{}, n, func(order []string) {
			total := 1
			for i := 0; i < n; i++ {
				total *= nl
			}
			for code := 0; code < total; code++ {
				if !o.Mine() {
					continue
				}
				prog++
				labels := make([]string, n)
				c := code
				var sb strings.Builder
				steps := []any{}
				for i := range order {
					labels[i] = labelNames[c%nl]
					c /= nl
					sb.WriteString(yamlOf(order[i], labels[i]))
					steps = append(steps, []string{order[i], labels[i]})
				}
				cf := filepath.Join(root, "c.yml")
				_ = os.WriteFile(cf, []byte(fmt.Sprintf(tmpl, sb.String(), root)), 0o644)
				p, err := build(cf)
				if err != nil {
					o.Emit(map[string]any{"ev": "HarnessError", "what": err.Error()})
					continue
				}
				o.Emit(map[string]any{"ev": "Program", "steps": steps})
				chunks := make([][]base.LogChunk, len(p.serializers))
				nrec := 0
				for _, host := range []string{"h1", "h2"} {
					for _, source := range []string{"src", "xsrc", "ysrc", "zsrc"} {
						for _, lv := range []struct {
							pri  int
							name string
						}{{15, "debug"}, {14, "info"}, {13, "notice"}} {
							for _, email := range []bool{false, true} {
								for _, badtime := range []bool{false, true} {
									ts, msg := "2020-07-20T03:48:20Z", "plain text only"
									if badtime {
										ts = "yesterday"
									}
									if email {
										msg = "write to bob@example.com today"
									}
									if source == "xsrc" && (email || badtime) {
										continue
									}
									line := fmt.Sprintf("<%d>1 %s %s app 1 %s - %s", lv.pri, ts, host, source, msg)
									res := p.feed([]byte(line), chunks)
									nrec++
									o.Emit(map[string]any{"ev": "LRec", "host": host, "level": lv.name, "email": email, "badtime": badtime, "len": len(line), "res": res, "xdrop": source != "src", "xlabel": map[string]string{"src": "", "xsrc": "lx", "ysrc": "lx", "zsrc": "lz"}[source]})
								}
							}
						}
					}
				}
				// messages the parser refuses (empty, too short, no header) are dropped by the input as well
				for _, bad := range []string{"", "<13>1 short", "no syslog header at all, but long enough to be looked at"} {
					res := p.feed([]byte(bad), chunks)
					nrec++
					o.Emit(map[string]any{"ev": "LRec", "host": "", "level": "", "email": false, "badtime": false, "len": len(bad), "res": res, "xdrop": true, "xlabel": ""})
				}
				p.flush(chunks)
				p.procCounter.UpdateMetrics()
				m := vmetrics.Gather(p.mf)
				obs := [][]any{}
				for k, v := range m {
					if !strings.Contains(k, "labelled_record") || v == 0 {
						continue
					}
					lm, hm := labRe.FindStringSubmatch(k), keyRe.FindStringSubmatch(k)
					if lm == nil || hm == nil {
						continue
					}
					what := "count"
					if strings.Contains(k, "labelled_record_bytes_total") {
						what = "bytes"
					}
					obs = append(obs, []any{lm[1], hm[1], what, int(v)})
				}
				sort.Slice(obs, func(i, j int) bool { return fmt.Sprint(obs[i]) < fmt.Sprint(obs[j]) })
				o.Emit(map[string]any{"ev": "Labels", "observed": obs})
				p.inCounter.UpdateMetrics()
				m = vmetrics.Gather(p.mf)
				sum := func(name string) int {
					t := 0.0
					for k, v := range m {
						if strings.HasPrefix(k, p.prefix+name) {
							t += v
						}
					}
					return int(t)
				}
				o.Emit(map[string]any{"ev": "Balance", "lines": nrec, "inPassed": sum("input_passed_records_total"), "inDropped": sum("input_dropped_records_total"),
					"inPassedBytes": sum("input_passed_record_bytes_total"), "inDroppedBytes": sum("input_dropped_record_bytes_total"),
					"inLabelled": inLabelled(m, p.prefix),
					"procPassed": sum("process_passed_records_total"), "procDropped": sum("process_dropped_records_total")})
			}
		})
	}
	o.Close()
	return 0
}

// inLabelled lists the labelled counters of the input (drops by extraction transforms): [label, count, bytes], sorted
func inLabelled(m map[string]float64, prefix string) [][]any {
	cnt, byt := map[string]int{}, map[string]int{}
	re := regexp.MustCompile(`label=([^,}]*)`)
	for k, v := range m {
		if !strings.HasPrefix(k, prefix+"input_labelled_record") || v == 0 {
			continue
		}
		lm := re.FindStringSubmatch(k)
		if lm == nil {
			continue
		}
		if strings.Contains(k, "labelled_record_bytes_total") {
			byt[lm[1]] += int(v)
		} else {
			cnt[lm[1]] += int(v)
		}
	}
	out := [][]any{}
	for l := range cnt {
		out = append(out, []any{l, cnt[l], byt[l]})
	}
	sort.Slice(out, func(i, j int) bool { return out[i][0].(string) < out[j][0].(string) })
	return out
}
