// Package rb decides the record-level half of C07 on the real code: byte strings are presented as records to the whole
// parse -> extract -> transform -> serialize -> pack path (components built from configuration files by the real loader
// code, long-lived), each between two sentinel records whose decoded output must not change.
package rb

import (
	"bytes"
	"encoding/json"
	"flag"
	"fmt"
	"math/rand"
	"os"
	"path/filepath"
	"strings"
	"time"

	"github.com/relex/gotils/logger"
	"github.com/relex/gotils/promexporter/promreg"
	"github.com/relex/slog-agent/base"
	"github.com/relex/slog-agent/base/bsupport"
	"github.com/relex/slog-agent/defs"
	"github.com/relex/slog-agent/run"

	"verifharness/drv/cfg"
	"verifharness/fnutil"
	"verifharness/vmetrics"
)

type pipeline struct {
	conf        run.Config
	schema      base.LogSchema
	mf          *promreg.MetricFactory
	prefix      string
	allocator   *base.LogAllocator
	inCounter   *base.LogInputCounterSet
	parser      base.LogParser
	procCounter *base.LogProcessCounterSet
	transforms  []base.LogTransformFunc
	serializers []base.LogSerializer
	makers      []base.LogChunkMaker
	appLoc      base.LogFieldLocator
}

var pipeNo int

func build(cf string) (*pipeline, error) {
	conf, schema, _, err := run.ParseConfigFile(cf)
	if err != nil {
		return nil, err
	}
	pipeNo++
	p := &pipeline{conf: conf, schema: schema, prefix: fmt.Sprintf("rb%d_", pipeNo)}
	p.mf = promreg.NewMetricFactory(p.prefix, nil, nil)
	p.allocator = base.NewLogAllocator(schema, len(conf.OutputBuffersPairs))
	p.inCounter = base.NewLogInputCounter(p.mf.AddOrGetPrefix("input_", nil, nil))
	parser, perr := conf.Inputs[0].Value.NewParser(logger.Root(), p.allocator, schema, p.inCounter)
	if perr != nil {
		return nil, perr
	}
	p.parser = parser
	names := []string{}
	for _, pair := range conf.OutputBuffersPairs {
		names = append(names, pair.Name)
	}
	p.procCounter = base.NewLogProcessCounter(p.mf.AddOrGetPrefix("process_", nil, nil), schema, schema.MustCreateFieldLocators(conf.MetricKeys), names)
	p.transforms = bsupport.NewTransformsFromConfig(conf.Transformations, schema, logger.Root(), p.procCounter)
	for _, pair := range conf.OutputBuffersPairs {
		p.serializers = append(p.serializers, pair.OutputConfig.Value.NewSerializer(logger.Root(), schema, "dev.tag"))
		p.makers = append(p.makers, pair.OutputConfig.Value.NewChunkMaker(logger.Root(), "dev.tag"))
	}
	return p, nil
}

// feed runs one record through the path; returns "rejected" | "dropped" | "passed"
func (p *pipeline) feed(rec []byte, chunks [][]base.LogChunk) string {
	record := p.parser.Parse(rec, time.Unix(1600000000, 0))
	if record == nil {
		return "rejected"
	}
	ic := p.procCounter.SelectMetricKeySet(record)
	if bsupport.RunTransforms(record, p.transforms) == base.DROP {
		ic.CountRecordDrop(record)
		p.allocator.Release(record)
		return "dropped"
	}
	ic.CountRecordPass(record)
	for i, ser := range p.serializers {
		stream := ser.SerializeRecord(record)
		p.allocator.Release(record)
		p.procCounter.CountStream(i, stream)
		if c := p.makers[i].WriteStream(stream); c != nil {
			p.procCounter.CountChunk(i, c)
			chunks[i] = append(chunks[i], *c)
		}
	}
	return "passed"
}

func (p *pipeline) flush(chunks [][]base.LogChunk) {
	for i, mk := range p.makers {
		if c := mk.FlushBuffer(); c != nil {
			p.procCounter.CountChunk(i, c)
			chunks[i] = append(chunks[i], *c)
		}
	}
}

// decode returns per output the JSON texts of the records in the chunks
func (p *pipeline) decode(chunks [][]base.LogChunk) ([][]string, error) {
	res := make([][]string, len(chunks))
	for i, cl := range chunks {
		for _, c := range cl {
			var buf bytes.Buffer
			buf.WriteByte('[')
			if _, err := p.conf.OutputBuffersPairs[i].OutputConfig.Value.DecodeChunkToJSON(c, []byte(","), false, &buf); err != nil {
				return nil, fmt.Errorf("output %d: %w", i, err)
			}
			buf.WriteByte(']')
			var recs []json.RawMessage
			if err := json.Unmarshal(buf.Bytes(), &recs); err != nil {
				return nil, fmt.Errorf("output %d: %w", i, err)
			}
			for _, r := range recs {
				res[i] = append(res[i], string(r))
			}
		}
	}
	return res, nil
}

const sentinelA = "<134>1 2020-07-20T03:48:20.154Z sentinel-host appServ 101 main.log - sentinel A: a plain message with user@example.com inside"
const sentinelB = "<131>1 2020-07-20T03:48:21+03:00 sentinel-host other/vh.example.com 7 task.log:123e4567-e89b-12d3-a456-426614174000 [meta x=\"1\"] [Cls ] - sentinel B\\nwith escapes"

type tcase struct {
	class string
	data  []byte
}

func field9(vals [9]string) string {
	// pri+version, time, host, app, pid, msgid, sd, msg
	return fmt.Sprintf("%s%s %s %s %s %s %s %s %s", vals[0], vals[1], vals[2], vals[3], vals[4], vals[5], vals[6], vals[7], vals[8])
}

var validFields = [9]string{"<134>", "1", "2020-07-20T03:48:20.154Z", "web01", "appServ", "101", "main.log", "-", "a message of the usual kind, long enough"}

// valueClasses are the kinds of wrong value put into every header field and the message
func valueClasses(big bool) []string {
	vals := []string{"", "-", "a", " ", "\\", "a\\", "\\n\\", "\\\\", "\"", "'", "<", ">", "<>", "]", "[", "[]", "[a b]", "=", "@", "a@b.c", "@@@@", "a@", "@b.c", "*", "**", "?", "{", "}", "$x", "${", "%s%n",
		"\xff", "\xc3", "a\xc3", "\xed\xa0\x80", "\xf0\x9f\x98", "\xf0\x9f\x98\x80", "\x00", "a\x00b", "\x7f", "\t", "\r", "a\rb", "\x1b[31m",
		strings.Repeat("a", 255), strings.Repeat("a", 256), strings.Repeat("a", 257), strings.Repeat("\xc3\xa9", 200), strings.Repeat("\\", 301), strings.Repeat("@", 300), strings.Repeat("a@b.", 100),
		"2020", "2020-07-20", "2020-07-20T", "2020-07-20T03:48:20", "2020-07-20T03:48:20.", "2020-07-20T03:48:20.Z", "2020-07-20T03:48:20.1234567890Z", "2020-07-20T03:48:20+", "2020-07-20T03:48:20+0", "2020-07-20T03:48:20+03", "2020-07-20T03:48:20+03:", "2020-07-20T03:48:20+99:99", "9999-99-99T99:99:99Z", "0000-00-00T00:00:00Z", "2020-07-20 03:48:20Z", "Jul 20 03:48:20",
		"999", "-1", "0", "192", "1000000", "99999999999999999999", "1e3", "0x10",
		"appServ", "abandoned", "auth.log", "access.log", "errors", "POST /x params=" + strings.Repeat("q", 300), "[Cls ] - x", "task.log:123e4567-e89b-12d3-a456-426614174000", ":", ":-", "/", "a/", "/b", "a/b/c"}
	if big {
		vals = append(vals, strings.Repeat("a", 64*1024), strings.Repeat("\"", 64*1024), strings.Repeat("\\n", 32*1024), strings.Repeat("\xff", 64*1024))
	}
	return vals
}

// Main enumerates the cases of this shard
func Main(args []string) int {
	var work, sample *string
	o := fnutil.Open("rb", args, func(fs *flag.FlagSet) {
		work = fs.String("work", "", "scratch dir")
		sample = fs.String("sample", "", "path of the repository's testdata/config_sample.yml")
	})
	logger.SetLogLevel(logger.FatalLevel)
	thorough := o.Tier == "thorough"
	root := filepath.Join(*work, fmt.Sprintf("rb-%d", o.Shard))
	_ = os.RemoveAll(root)
	_ = os.MkdirAll(root, 0o755)
	defer os.RemoveAll(root)
	confs := []string{}
	if *sample != "" {
		confs = append(confs, *sample)
	}
	c2 := filepath.Join(root, "base.yml")
	_ = os.WriteFile(c2, []byte(cfg.BaseYAML(root)), 0o644)
	confs = append(confs, c2)

	// --- the cases ---------------------------------------------------------------------------------------------
	var cases []tcase
	add := func(class string, s string) { cases = append(cases, tcase{class, []byte(s)}) }
	// (a) every short head over the alphabet, padded past the minimum length by a well-formed remainder and by filler
	alphabet := []string{"<", ">", "1", "9", " ", "-", "a", "~", "\\"}
	hl := 4
	if thorough {
		hl = 6
	}
	heads := []string{""}
	level := []string{""}
	for l := 1; l <= hl; l++ {
		var next []string
		for _, p := range level {
			for _, s := range alphabet {
				next = append(next, p+s)
			}
		}
		heads = append(heads, next...)
		level = next
	}
	for _, h := range heads {
		add("head+wellformed", h+" 2020-07-20T03:48:20.154Z web01 appServ 101 main.log - the rest of a well-formed line")
		add("head+filler", h+strings.Repeat("~", 40))
		add("head+spaces", h+strings.Repeat(" ", 40))
	}
	add("empty", "")
	add("newline-only", "\n")
	// the PRI token: negative, signed, out of range, non-canonical, not a number - with and without the version digit
	for _, pri := range []string{"-1", "-3", "-7", "-8", "-9", "-0", "+5", "0", "00", "013", "0013", "191", "192", "199", "999", "1000", "99999999999999999999", "", " ", "1x", "x", "1 3", "٣", "0x10"} {
		for _, ver := range []string{"1", "", "2", "11", "-1"} {
			add("pri", "<"+pri+">"+ver+" 2020-07-20T03:48:20.154Z web01 appServ 101 main.log - a message of the usual kind")
		}
	}
	// (b) every field x every value class, single; pairs over a reduced class set
	vals := valueClasses(true)
	for f := 0; f < 9; f++ {
		for _, v := range vals {
			fs := validFields
			fs[f] = v
			add(fmt.Sprintf("field%d", f), field9(fs))
		}
	}
	small := valueClasses(false)
	stride := 7
	if thorough {
		stride = 1
	}
	k := 0
	for f1 := 0; f1 < 9; f1++ {
		for f2 := f1 + 1; f2 < 9; f2++ {
			for i, v1 := range small {
				for j, v2 := range small {
					k++
					if (i*31+j+k)%stride != 0 && !(i < 14 && j < 14) {
						continue
					}
					fs := validFields
					fs[f1], fs[f2] = v1, v2
					add("pair", field9(fs))
				}
			}
		}
	}
	// (c) the real limits: header fields and messages at the maximum record / message length +-1 (what the listener can deliver)
	for f := 2; f < 9; f++ {
		for _, n := range []int{defs.InputLogMaxMessageBytes - 1, defs.InputLogMaxMessageBytes, defs.InputLogMaxMessageBytes + 1, defs.InputLogMaxRecordBytes - 80, defs.InputLogMaxRecordBytes} {
			for _, ch := range []string{"a", "\"", "\\", "\xff", "\xc3\xa9", "@", "\n"} {
				fs := validFields
				fs[f] = strings.Repeat(ch, n/len(ch))
				s := field9(fs)
				if len(s) > defs.InputLogMaxRecordBytes {
					s = s[:defs.InputLogMaxRecordBytes]
				}
				add(fmt.Sprintf("limit-field%d", f), s)
			}
		}
	}
	// (d) seeded: random bytes, and random edits of valid lines
	rnd := rand.New(rand.NewSource(o.Seed))
	nr := 3000
	if thorough {
		nr = 1000000
	}
	valid := []string{sentinelA, sentinelB, field9(validFields),
		"<134>1 2020-07-20T03:48:21.154+03:00 web01 appServ/api.example.com 101 access.log - POST /v1/items params=" + strings.Repeat("z", 200),
		"<134>1 2020-07-20T03:48:23Z web02 abandoned 7 x.log - PUT \"/a\" something params=" + strings.Repeat("y", 170) + " tail\\n\\tmore"}
	for i := 0; i < nr; i++ {
		switch rnd.Intn(3) {
		case 0:
			b := make([]byte, 32+rnd.Intn(100))
			rnd.Read(b)
			if rnd.Intn(2) == 0 {
				copy(b, "<13>1 ")
			}
			cases = append(cases, tcase{"random-bytes", b})
		default:
			b := []byte(valid[rnd.Intn(len(valid))])
			for e := 0; e < 1+rnd.Intn(4); e++ {
				if len(b) == 0 {
					break
				}
				pos := rnd.Intn(len(b))
				switch rnd.Intn(5) {
				case 0:
					b[pos] = byte(rnd.Intn(256))
				case 1:
					b = append(b[:pos], b[pos+1:]...)
				case 2:
					b = append(b[:pos], append([]byte{[]byte(" \\\"<>-@[]\xff\x00\n")[rnd.Intn(12)]}, b[pos:]...)...)
				case 3:
					b = b[:pos]
				case 4:
					end := pos + rnd.Intn(20)
					if end > len(b) {
						end = len(b)
					}
					b = append(b[:end], append(append([]byte{}, b[pos:end]...), b[end:]...)...)
				}
			}
			cases = append(cases, tcase{"mutated-valid", b})
		}
	}

	// --- run ---------------------------------------------------------------------------------------------------------
	for ci, cf := range confs {
		p, err := build(cf)
		if err != nil {
			o.Emit(map[string]any{"ev": "HarnessError", "what": err.Error()})
			continue
		}
		nOut := len(p.serializers)
		baseline := func(p *pipeline) ([][]string, error) {
			chunks := make([][]base.LogChunk, nOut)
			p.feed([]byte(sentinelA), chunks)
			p.feed([]byte(sentinelB), chunks)
			p.flush(chunks)
			return p.decode(chunks)
		}
		bl, berr := baseline(p)
		if berr != nil || len(bl[0]) != 2 {
			o.Emit(map[string]any{"ev": "HarnessError", "what": fmt.Sprint("baseline: ", berr, bl)})
			continue
		}
		o.Emit(map[string]any{"ev": "Config", "conf": ci, "outputs": nOut})
		counts := func(p *pipeline) (int, int) {
			p.inCounter.UpdateMetrics()
			p.procCounter.UpdateMetrics()
			m := vmetrics.Gather(p.mf)
			pass, drop := 0.0, 0.0
			for k, v := range m {
				if strings.HasPrefix(k, p.prefix+"input_passed_records_total") {
					pass += v
				}
				if strings.HasPrefix(k, p.prefix+"input_dropped_records_total") {
					drop += v
				}
			}
			return int(pass), int(drop)
		}
		pass0, drop0 := counts(p)
		batchRejected, batchParsed, batchN := 0, 0, 0
		for _, tc := range cases {
			if !o.Mine() {
				continue
			}
			ev := map[string]any{"ev": "Rec", "conf": ci, "c": tc.class, "n": len(tc.data)}
			h := tc.data
			if len(h) > 48 {
				h = h[:48]
			}
			ev["h"] = fnutil.Bytes(string(h))
			res, detail := "", ""
			sentOK := true
			func() {
				defer func() {
					if r := recover(); r != nil {
						res, detail = "panic", fmt.Sprint(r)
					}
				}()
				chunks := make([][]base.LogChunk, nOut)
				p.feed([]byte(sentinelA), chunks)
				r := p.feed(append([]byte(nil), tc.data...), chunks)
				p.feed([]byte(sentinelB), chunks)
				p.flush(chunks)
				out, derr := p.decode(chunks)
				if derr != nil {
					res, detail = "undecodable", derr.Error()
					return
				}
				res = r
				want := 2
				if r == "passed" {
					want = 3
				}
				for i := range out {
					if len(out[i]) != want || out[i][0] != bl[i][0] || out[i][len(out[i])-1] != bl[i][1] {
						sentOK = false
						detail = fmt.Sprintf("output %d: %d records; first=%.200s last=%.200s", i, len(out[i]), first(out[i]), last(out[i]))
					}
				}
			}()
			ev["res"], ev["sentinels"] = res, sentOK
			if detail != "" {
				if len(detail) > 600 {
					detail = detail[:600]
				}
				ev["detail"] = detail
			}
			o.Emit(ev)
			batchN++
			if res == "rejected" {
				batchRejected++
			} else if res == "passed" || res == "dropped" {
				batchParsed++
			}
			if res == "panic" || res == "undecodable" || !sentOK {
				// the long-lived components may be in any state now (and the validation of the trace restarts after
				// this event): start afresh
				np, nerr := build(cf)
				if nerr != nil {
					o.Emit(map[string]any{"ev": "HarnessError", "what": nerr.Error()})
					break
				}
				p = np
				pass0, drop0 = counts(p)
				batchRejected, batchParsed, batchN = 0, 0, 0
				continue
			}
			if batchN >= 400 {
				pass1, drop1 := counts(p)
				// 2 sentinels per case pass the input as well
				o.Emit(map[string]any{"ev": "Batch", "cases": batchN, "rejected": batchRejected, "parsed": batchParsed, "dPassed": pass1 - pass0 - 2*batchN, "dDropped": drop1 - drop0})
				pass0, drop0 = pass1, drop1
				batchRejected, batchParsed, batchN = 0, 0, 0
			}
		}
		if batchN > 0 {
			pass1, drop1 := counts(p)
			o.Emit(map[string]any{"ev": "Batch", "cases": batchN, "rejected": batchRejected, "parsed": batchParsed, "dPassed": pass1 - pass0 - 2*batchN, "dDropped": drop1 - drop0})
		}
	}
	o.Close()
	return 0
}

func first(l []string) string {
	if len(l) == 0 {
		return ""
	}
	return l[0]
}
func last(l []string) string {
	if len(l) == 0 {
		return ""
	}
	return l[len(l)-1]
}
