// Package pk runs the real chunk makers lock-step over every schedule of writes and flushes of a bounded space and logs
// every step with the returned chunk decoded by an independent path, for PackerTrace.tla
package pk

import (
	"bytes"
	"encoding/hex"
	"compress/gzip"
	"encoding/json"
	"flag"
	"fmt"
	"io"
	"strings"

	"github.com/relex/fluentlib/protocol/forwardprotocol"
	"github.com/relex/gotils/logger"
	"github.com/relex/slog-agent/base"
	"github.com/relex/slog-agent/output/datadog"
	"github.com/relex/slog-agent/output/fluentdforward"
	"github.com/vmihailenco/msgpack/v4"

	"verifharness/fnutil"
)

var tag = "verif.tag" // -tag (hex) replaces it: a pipeline tag is expanded from key values, i.e. arbitrary bytes

// ffEvent builds a MessagePack event [uint32 stamp, {"m": "xxx"}] of exactly size bytes (size >= 11)
func ffEvent(stamp, size int) []byte {
	b := []byte{0x92, 0xce, byte(stamp >> 24), byte(stamp >> 16), byte(stamp >> 8), byte(stamp), 0x81, 0xa1, 'm'}
	pay := size - len(b) - 2
	if pay < 0 {
		panic("size")
	}
	switch {
	case pay <= 255:
		b = append(b, 0xd9, byte(pay))
	case pay-1 <= 65535: // str16: one more header byte
		pay--
		b = append(b, 0xda, byte(pay>>8), byte(pay))
	default: // str32: three more header bytes
		pay -= 3
		b = append(b, 0xdb, byte(pay>>24), byte(pay>>16), byte(pay>>8), byte(pay))
	}
	return append(b, bytes.Repeat([]byte{'x'}, pay)...)
}

// ddEvent builds a JSON object {"s":stamp,"p":"xxx"} of exactly size bytes
func ddEvent(stamp, size int) []byte {
	head := fmt.Sprintf(`{"s":%d,"p":"`, stamp)
	pay := size - len(head) - 2
	if pay < 0 {
		panic("size")
	}
	return []byte(head + strings.Repeat("x", pay) + `"}`)
}

// FFEvent and DecodeFFStamps are used by the worker driver (drv/wk)
func FFEvent(stamp, size int) []byte { return ffEvent(stamp, size) }

// DecodeFFStamps decodes a Forward-mode message and returns the stamps of its events
func DecodeFFStamps(data []byte) ([]int, bool) {
	d := decodeFF(data, "Forward")
	return d.stamps, d.ok
}

type decoded struct {
	ok             bool
	tag, id        string
	count, body    int
	stamps         []int
	compressedFlag bool
}

func decodeFF(data []byte, mode string) (d decoded) {
	defer func() {
		if r := recover(); r != nil {
			d.ok = false
		}
	}()
	rd := bytes.NewReader(data)
	dec := msgpack.NewDecoder(rd)
	n, err := dec.DecodeArrayLen()
	if err != nil || n != 3 {
		return
	}
	if d.tag, err = dec.DecodeString(); err != nil {
		return
	}
	var payload []byte
	arrayCount := -1
	if mode == "Forward" {
		if arrayCount, err = dec.DecodeArrayLen(); err != nil {
			return
		}
		start := len(data) - rd.Len()
		for i := 0; i < arrayCount; i++ {
			if _, err := dec.DecodeInterface(); err != nil {
				return
			}
		}
		payload = data[start : len(data)-rd.Len()]
	} else {
		if payload, err = dec.DecodeBytes(); err != nil {
			return
		}
	}
	opt, err := dec.DecodeMap()
	if err != nil {
		return
	}
	if _, err := dec.DecodeInterface(); err == nil { // trailing garbage
		return
	}
	om := opt.(map[string]interface{})
	d.id, _ = om["chunk"].(string)
	switch v := om["size"].(type) {
	case int8:
		d.count = int(v)
	case int16:
		d.count = int(v)
	case int32:
		d.count = int(v)
	case int64:
		d.count = int(v)
	case uint8:
		d.count = int(v)
	case uint16:
		d.count = int(v)
	default:
		return
	}
	if c, _ := om["compressed"].(string); c != "" {
		d.compressedFlag = true
		zr, zerr := gzip.NewReader(bytes.NewReader(payload))
		if zerr != nil {
			return
		}
		if payload, err = io.ReadAll(zr); err != nil {
			return
		}
	}
	if (mode == "CompressedPackedForward") != d.compressedFlag {
		return
	}
	d.body = len(payload)
	edec := msgpack.NewDecoder(bytes.NewReader(payload))
	for {
		n, err := edec.DecodeArrayLen()
		if err == io.EOF {
			break
		}
		if err != nil || n != 2 {
			return
		}
		st, err := edec.DecodeUint32()
		if err != nil {
			return
		}
		if _, err := edec.DecodeMap(); err != nil {
			return
		}
		d.stamps = append(d.stamps, int(st))
	}
	if arrayCount >= 0 && arrayCount != d.count {
		return
	}
	d.ok = true
	return
}

func decodeDD(data []byte) (d decoded) {
	zr, err := gzip.NewReader(bytes.NewReader(data))
	if err != nil {
		return
	}
	body, err := io.ReadAll(zr)
	if err != nil {
		return
	}
	var arr []map[string]any
	if json.Unmarshal(body, &arr) != nil {
		return
	}
	d.body = len(body)
	d.count = len(arr)
	for _, o := range arr {
		s, _ := o["s"].(float64)
		d.stamps = append(d.stamps, int(s))
	}
	d.tag = tag // the Datadog body carries no tag (it is a field of every record, checked by C10/C01)
	d.ok = true
	return
}

// Main is the entry point of `vh pk`
func Main(args []string) int {
	var mode *string
	var maxBytes, maxRecords, depth *int
	var sizesArg, tagHex *string
	o := fnutil.Open("pk", args, func(fs *flag.FlagSet) {
		mode = fs.String("mode", "Forward", "Forward | PackedForward | CompressedPackedForward | Datadog")
		maxBytes = fs.Int("maxbytes", 40, "byte limit")
		maxRecords = fs.Int("maxrecords", 3, "record limit")
		depth = fs.Int("depth", 5, "operations per schedule")
		sizesArg = fs.String("sizes", "11,14,20,33,50", "record sizes")
		tagHex = fs.String("tag", "", "pipeline tag, hex encoded")
	})
	if *tagHex != "" {
		if b, err := hex.DecodeString(*tagHex); err == nil {
			tag = string(b)
		}
	}
	logger.SetLogLevel(logger.FatalLevel)
	var sizes []int
	for _, s := range strings.Split(*sizesArg, ",") {
		var v int
		fmt.Sscan(s, &v)
		sizes = append(sizes, v)
	}
	var maker base.LogChunkMaker
	if *mode == "Datadog" {
		maker = datadog.NewChunkMakerForVerif(logger.Root(), *maxRecords, *maxBytes)
	} else {
		fluentdforward.SetChunkLimitsForVerif(*maxRecords, *maxBytes)
		cfg := &fluentdforward.Config{MessageMode: forwardprotocol.MessageMode(*mode)}
		maker = cfg.NewChunkMaker(logger.Root(), tag)
	}
	lastID := ""
	var heldRef, heldCopy []byte // the consumer still holds the previous chunk while the maker goes on
	emit := func(ev map[string]any, c *base.LogChunk) {
		ev["ev"] = "PK"
		ev["has"] = c != nil
		ev["prevIntact"] = bytes.Equal(heldRef, heldCopy)
		if c != nil {
			heldRef, heldCopy = c.Data, append([]byte{}, c.Data...)
		}
		if c != nil {
			var d decoded
			if *mode == "Datadog" {
				d = decodeDD(c.Data)
				d.id = c.ID
			} else {
				d = decodeFF(c.Data, *mode)
			}
			ev["wellformed"], ev["tag"], ev["count"], ev["stamps"], ev["body"] = d.ok, hex.EncodeToString([]byte(d.tag)), d.count, d.stamps, d.body
			if d.stamps == nil {
				ev["stamps"] = []int{}
			}
			ev["idEqualsName"] = d.id == c.ID && strings.HasSuffix(c.ID, map[bool]string{true: ".dd", false: ".ff"}[*mode == "Datadog"])
			ev["idIncreasing"] = c.ID > lastID
			lastID = c.ID
		}
		o.Emit(ev)
	}
	nops := len(sizes) + 1
	ops := make([]int, *depth)
	for {
		if o.Mine() {
			o.Emit(map[string]any{"ev": "PK", "op": "new"})
			stamp := 0
			for _, op := range ops {
				if op == len(sizes) {
					emit(map[string]any{"op": "flush"}, maker.FlushBuffer())
				} else {
					stamp++
					var data []byte
					if *mode == "Datadog" {
						data = ddEvent(stamp, sizes[op])
					} else {
						data = ffEvent(stamp, sizes[op])
					}
					emit(map[string]any{"op": "write", "stamp": stamp, "size": sizes[op]}, maker.WriteStream(data))
				}
			}
			emit(map[string]any{"op": "flush"}, maker.FlushBuffer()) // every schedule ends with a flush (the maker is reused)
		}
		i := 0
		for i < len(ops) {
			ops[i]++
			if ops[i] < nops {
				break
			}
			ops[i] = 0
			i++
		}
		if i == len(ops) {
			break
		}
	}
	o.Close()
	return 0
}
