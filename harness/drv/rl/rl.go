// Package rl drives the real run.ReloadableOrchestrator (and, for socket-number reuse, the real TCP line listener in
// front of it) with recording downstream orchestrators, scripted connection goroutines, scripted reloads and gates in
// the race windows, and records a trace for ReloadTrace.tla
package rl

import (
	"bufio"
	"encoding/json"
	"errors"
	"flag"
	"fmt"
	"math/rand"
	"net"
	"os"
	"sync"
	"time"

	"github.com/relex/gotils/channels"
	"github.com/relex/gotils/logger"
	"github.com/relex/slog-agent/base"
	"github.com/relex/slog-agent/defs"
	"github.com/relex/slog-agent/input/tcplistener"
	"github.com/relex/slog-agent/run"
	"github.com/relex/slog-agent/util/vhook"

	"verifharness/vtrace"
)

// Op is one scripted operation of a process
type Op struct {
	At    int64  `json:"at"`
	Do    string `json:"do"` // connection: newsink | accept | tick | close ; reloader: reload ; tcp client: connect | send | disconnect
	Num   int    `json:"num"`
	Kind  string `json:"kind"` // reload: ok | invalid
	Stamp int    `json:"stamp"`
	After string `json:"after"` // wait until this event or mark has occurred
}

// Proc is one goroutine of the scenario
type Proc struct {
	Name string `json:"name"`
	Ops  []Op   `json:"ops"`
}

// Hold makes the nth goroutine that reaches a gate wait until a named event has been recorded
type Hold struct {
	Gate    string `json:"gate"`
	Nth     int    `json:"nth"`
	Until   string `json:"until"`
	SleepMs int    `json:"sleepMs"` // instead of waiting for an event: just stay at the gate for a while
}

// Script is one scenario
type Script struct {
	ID     string `json:"id"`
	Seed   int64  `json:"seed"`
	Jitter bool   `json:"jitter"`
	TCP    bool   `json:"tcp"` // connections are real TCP connections through the real listener
	Procs  []Proc `json:"procs"`
	Holds  []Hold `json:"holds"`
}

var schema = base.MustNewLogSchema([]string{"msg"})

type recOrc struct {
	gen  int
	tr   *vtrace.Tracer
	gate func(string) // the scenario's gate function: a downstream call may be slow (a busy pipeline), scripts hold it at "d.accept" / "d.close"
}
type recSink struct {
	o   *recOrc
	num int
}

func (o *recOrc) NewSink(_ string, n base.ClientNumber) base.BufferReceiverSink {
	o.tr.Emit("DNewSink", "gen", o.gen, "num", int(n))
	o.gate("d.newsink") // a downstream that takes its time to build a sink (caches, first pipelines)
	return &recSink{o, int(n)}
}
func (o *recOrc) Shutdown() { o.tr.Emit("DShutdown", "gen", o.gen) }
func (s *recSink) Accept(buffer []*base.LogRecord) {
	s.o.gate("d.accept")
	st := []string{}
	for _, r := range buffer {
		st = append(st, r.Fields[0])
	}
	s.o.tr.Emit("DAccept", "gen", s.o.gen, "num", s.num, "msgs", st)
}
func (s *recSink) Tick()  { s.o.tr.Emit("DTick", "gen", s.o.gen, "num", s.num) }
func (s *recSink) Close() {
	s.o.gate("d.close") // the final flush of a closing sink may have to wait for its pipelines
	s.o.tr.Emit("DClose", "gen", s.o.gen, "num", s.num)
}

// parsing receiver for the TCP scenarios: every line becomes one record handed to the orchestrator sink at once
type lineReceiver struct{ orc base.Orchestrator }
type lineSink struct{ s base.BufferReceiverSink }

func (r *lineReceiver) NewSink(addr string, n base.ClientNumber) base.MessageReceiverSink {
	return &lineSink{r.orc.NewSink(addr, n)}
}
func (l *lineSink) Accept(m []byte) {
	l.s.Accept([]*base.LogRecord{schema.NewTestRecord1(base.LogFields{string(m)})})
}
func (l *lineSink) Flush() { l.s.Tick() }
func (l *lineSink) Close() { l.s.Close() }

// RunScript executes one scenario
func RunScript(sc Script) *vtrace.Tracer {
	tr := vtrace.New(sc.Seed, false)
	var mu sync.Mutex
	seen := map[string]chan struct{}{}
	waitFor := func(ev string) chan struct{} {
		mu.Lock()
		defer mu.Unlock()
		if _, ok := seen[ev]; !ok {
			seen[ev] = make(chan struct{})
		}
		return seen[ev]
	}
	tr.OnEmit = func(_ int64, ev string) {
		mu.Lock()
		ch, ok := seen[ev]
		if !ok {
			ch = make(chan struct{})
			seen[ev] = ch
		}
		select {
		case <-ch:
		default:
			close(ch)
		}
		mu.Unlock()
	}
	mark := func(name string) { // named synchronisation point for holds: "<proc>.<op>" after every completed operation
		mu.Lock()
		ch, ok := seen[name]
		if !ok {
			ch = make(chan struct{})
			seen[name] = ch
		}
		select {
		case <-ch:
		default:
			close(ch)
		}
		mu.Unlock()
	}
	gateCount := map[string]int{}
	jr := rand.New(rand.NewSource(sc.Seed))
	var gateFn func(point string)
	gateFn = func(point string) {
		mu.Lock()
		gateCount[point]++
		n := gateCount[point]
		var until string
		sleepMs := 0
		for _, h := range sc.Holds {
			if h.Gate == point && h.Nth == n {
				until, sleepMs = h.Until, h.SleepMs
			}
		}
		j := 0
		if sc.Jitter && jr.Intn(3) == 0 {
			j = 20 + jr.Intn(400)
		}
		mu.Unlock()
		if sleepMs > 0 {
			tr.Emit("GateHeld", "gate", point)
			time.Sleep(time.Duration(sleepMs) * time.Millisecond)
		}
		if until != "" {
			tr.Emit("GateHeld", "gate", point)
			select {
			case <-waitFor(until):
			case <-time.After(2 * time.Second):
				tr.Emit("GateTimeout", "gate", point)
			}
		}
		if j > 0 {
			time.Sleep(time.Duration(j) * time.Microsecond)
		}
	}
	vhook.Gate = gateFn
	defer func() { vhook.Gate = nil }()

	gen := 1
	var nextKind string
	var orc *run.ReloadableOrchestrator
	orc = run.NewReloadableOrchestrator(&recOrc{1, tr, gateFn}, func() (run.CompleteReloadingFunc, error) {
		if nextKind == "invalid" {
			tr.Emit("Initiate", "ok", false)
			return nil, errors.New("invalid configuration")
		}
		tr.Emit("Initiate", "ok", true)
		return func() base.Orchestrator {
			gen++
			tr.Emit("DStart", "gen", gen)
			return &recOrc{gen, tr, gateFn}
		}, nil
	})

	var lsnAddr string
	var stop *channels.SignalAwaitable
	var lsn base.LogListener
	if sc.TCP {
		stop = channels.NewSignalAwaitable()
		var err error
		lsn, lsnAddr, err = tcplistener.NewTCPLineListener(logger.Root(), "127.0.0.1:0", func(b []byte) bool { return true }, &lineReceiver{orc}, stop)
		if err != nil {
			tr.Emit("HarnessError", "what", err.Error())
			return tr
		}
		lsn.Start()
	}

	idle := 8 * time.Millisecond
	var wg sync.WaitGroup
	for _, p := range sc.Procs {
		wg.Add(1)
		go func(p Proc) {
			defer wg.Done()
			var sink base.BufferReceiverSink
			var conn net.Conn
			for _, op := range p.Ops {
				if op.After != "" {
					select {
					case <-waitFor(op.After):
						time.Sleep(2 * time.Millisecond)
					case <-time.After(time.Second):
					}
				}
				deadline := time.Now().Add(time.Second)
				for tr.Seq() < op.At && tr.IdleFor() < idle && time.Now().Before(deadline) {
					time.Sleep(100 * time.Microsecond)
				}
				func() {
					defer func() {
						if r := recover(); r != nil {
							tr.Emit("Panic", "proc", p.Name, "op", op.Do, "what", fmt.Sprint(r))
						}
					}()
					switch op.Do {
					case "newsink":
						tr.Emit("OpBegin", "proc", p.Name, "op", "newsink", "num", op.Num)
						sink = orc.NewSink(p.Name, base.ClientNumber(op.Num))
						tr.Emit("OpEnd", "proc", p.Name, "op", "newsink", "num", op.Num)
					case "accept":
						if sink == nil {
							return
						}
						msg := fmt.Sprintf("%s-%d", p.Name, op.Stamp)
						tr.Emit("OpBegin", "proc", p.Name, "op", "accept", "msg", msg)
						sink.Accept([]*base.LogRecord{schema.NewTestRecord1(base.LogFields{msg})})
						tr.Emit("OpEnd", "proc", p.Name, "op", "accept", "msg", msg)
					case "tick":
						if sink == nil {
							return
						}
						tr.Emit("OpBegin", "proc", p.Name, "op", "tick")
						sink.Tick()
						tr.Emit("OpEnd", "proc", p.Name, "op", "tick")
					case "close":
						if sink == nil {
							return
						}
						tr.Emit("OpBegin", "proc", p.Name, "op", "close")
						sink.Close()
						sink = nil
						tr.Emit("OpEnd", "proc", p.Name, "op", "close")
					case "reload":
						nextKind = op.Kind
						tr.Emit("ReloadBegin", "kind", op.Kind)
						orc.ReloadForVerif()
						tr.Emit("ReloadEnd", "kind", op.Kind)
					case "connect":
						c, err := net.Dial("tcp", lsnAddr)
						if err != nil {
							tr.Emit("HarnessError", "what", err.Error())
							return
						}
						conn = c
						tr.Emit("TcpConnected", "proc", p.Name)
					case "send":
						if conn != nil {
							msg := fmt.Sprintf("%s-%d", p.Name, op.Stamp)
							fmt.Fprintf(conn, "%s\n", msg)
							tr.Emit("TcpSent", "proc", p.Name, "msg", msg)
						}
					case "disconnect":
						if conn != nil {
							conn.Close()
							conn = nil
							tr.Emit("TcpClosed", "proc", p.Name)
						}
					}
				}()
				mark(fmt.Sprintf("%s.%s.%d", p.Name, op.Do, op.Stamp))
			}
		}(p)
	}
	done := make(chan struct{})
	go func() { wg.Wait(); close(done) }()
	select {
	case <-done:
	case <-time.After(6 * time.Second):
		tr.Emit("HUNG")
	}
	if sc.TCP {
		time.Sleep(60 * time.Millisecond) // let the connection goroutines deliver and close
		stop.Signal()
		lsn.Stopped().Wait(2 * time.Second)
	}
	tr.Emit("End")
	vhook.Gate = nil
	return tr
}

// Main is the entry point of `vh rl`
func Main(args []string) int {
	fs := flag.NewFlagSet("rl", flag.ExitOnError)
	scriptsPath := fs.String("scripts", "", "ndjson scripts")
	outPath := fs.String("out", "", "ndjson trace")
	_ = fs.Parse(args)
	logger.SetLogLevel(logger.FatalLevel)
	defs.InputFlushInterval = 20 * time.Millisecond
	f, err := os.Open(*scriptsPath)
	if err != nil {
		fmt.Fprintln(os.Stderr, err)
		return 2
	}
	defer f.Close()
	_ = os.Remove(*outPath)
	scan := bufio.NewScanner(f)
	scan.Buffer(make([]byte, 1<<20), 1<<24)
	n := 0
	for scan.Scan() {
		var sc Script
		if json.Unmarshal(scan.Bytes(), &sc) != nil {
			continue
		}
		tr := RunScript(sc)
		_ = tr.AppendTo(*outPath, vtrace.Event{"ev": "RESET", "script": sc.ID})
		n++
	}
	fmt.Printf("{\"scripts\":%d}\n", n)
	return 0
}
