// Package ls runs the real TCP line listener (input/tcplistener) with several scripted clients and a stop request, and
// records the life of every sink (client number = socket number) for ListenerTrace.tla: creation, use, close, and the
// end of the listener.
package ls

import (
	"bufio"
	"encoding/json"
	"flag"
	"fmt"
	"net"
	"os"
	"sync"
	"time"

	"github.com/relex/gotils/channels"
	"github.com/relex/gotils/logger"
	"github.com/relex/slog-agent/base"
	"github.com/relex/slog-agent/defs"
	"github.com/relex/slog-agent/input/tcplistener"

	"verifharness/vtrace"
)

// Client is one scripted client
type Client struct {
	AtMs   int    `json:"atMs"`   // when it connects
	Lines  int    `json:"lines"`  // lines it writes (each a record)
	GapMs  int    `json:"gapMs"`  // pause between lines
	End    string `json:"end"`    // "close" | "reset" | "stay" (still connected when the listener is stopped)
	HoldMs int    `json:"holdMs"` // how long it stays connected after its last line (close / reset)
}

// Script is one history
type Script struct {
	ID      string   `json:"id"`
	Clients []Client `json:"clients"`
	StopMs  int      `json:"stopMs"`
}

type receiver struct{ tr *vtrace.Tracer }
type sink struct {
	r   *receiver
	num int
}

func (r *receiver) NewSink(addr string, num base.ClientNumber) base.MessageReceiverSink {
	r.tr.Emit("NewSink", "num", int(num))
	return &sink{r, int(num)}
}
func (s *sink) Accept(m []byte) { s.r.tr.Emit("Accept", "num", s.num, "line", string(m)) }
func (s *sink) Flush()          { s.r.tr.EmitQuiet("Flush", "num", s.num) }
func (s *sink) Close()          { s.r.tr.Emit("Close", "num", s.num) }

func runScript(sc Script) *vtrace.Tracer {
	tr := vtrace.New(1, false)
	tr.Emit("History", "script", sc.ID, "clients", len(sc.Clients))
	stop := channels.NewSignalAwaitable()
	lsn, addr, err := tcplistener.NewTCPLineListener(logger.Root(), "127.0.0.1:0", func(b []byte) bool { return true }, &receiver{tr}, stop)
	if err != nil {
		tr.Emit("HarnessError", "what", err.Error())
		return tr
	}
	lsn.Start()
	var wg sync.WaitGroup
	var mu sync.Mutex
	stay := []net.Conn{}
	start := time.Now()
	for i, cl := range sc.Clients {
		wg.Add(1)
		go func(i int, cl Client) {
			defer wg.Done()
			time.Sleep(time.Duration(cl.AtMs)*time.Millisecond - time.Since(start))
			c, derr := net.DialTimeout("tcp", addr, time.Second)
			if derr != nil {
				tr.Emit("ClientRefused", "c", i+1)
				return
			}
			tr.Emit("ClientConnected", "c", i+1)
			w := bufio.NewWriter(c)
			for k := 1; k <= cl.Lines; k++ {
				fmt.Fprintf(w, "c%d-line%d\n", i+1, k)
				w.Flush()
				tr.Emit("ClientWrote", "c", i+1, "line", fmt.Sprintf("c%d-line%d", i+1, k))
				time.Sleep(time.Duration(cl.GapMs) * time.Millisecond)
			}
			switch cl.End {
			case "close":
				time.Sleep(time.Duration(cl.HoldMs) * time.Millisecond)
				c.Close()
				tr.Emit("ClientClosed", "c", i+1, "how", "close")
			case "reset":
				time.Sleep(time.Duration(cl.HoldMs) * time.Millisecond)
				_ = c.(*net.TCPConn).SetLinger(0)
				c.Close()
				tr.Emit("ClientClosed", "c", i+1, "how", "reset")
			default:
				mu.Lock()
				stay = append(stay, c)
				mu.Unlock()
			}
		}(i, cl)
	}
	time.Sleep(time.Duration(sc.StopMs)*time.Millisecond - time.Since(start))
	tr.Emit("StopBegin")
	t0 := time.Now()
	stop.Signal()
	if lsn.Stopped().Wait(5 * time.Second) {
		tr.Emit("Stopped", "ms", time.Since(t0).Milliseconds())
	} else {
		tr.Emit("HUNG")
	}
	// the listening socket is gone
	if c, derr := net.DialTimeout("tcp", addr, 300*time.Millisecond); derr == nil {
		c.Close()
		tr.Emit("AcceptsAfterStop")
	}
	wg.Wait()
	mu.Lock()
	for _, c := range stay {
		c.Close()
	}
	mu.Unlock()
	time.Sleep(5 * time.Millisecond)
	tr.Emit("End")
	return tr
}

// Main is the entry point of `vh ls`
func Main(args []string) int {
	fs := flag.NewFlagSet("ls", flag.ExitOnError)
	scripts := fs.String("scripts", "", "ndjson scripts")
	out := fs.String("out", "", "ndjson trace")
	_ = fs.Parse(args)
	logger.SetLogLevel(logger.FatalLevel)
	defs.InputFlushInterval = 20 * time.Millisecond
	f, err := os.Open(*scripts)
	if err != nil {
		fmt.Fprintln(os.Stderr, err)
		return 2
	}
	defer f.Close()
	_ = os.Remove(*out)
	sc := bufio.NewScanner(f)
	sc.Buffer(make([]byte, 1<<20), 1<<24)
	n := 0
	for sc.Scan() {
		var s Script
		if json.Unmarshal(sc.Bytes(), &s) != nil {
			continue
		}
		tr := runScript(s)
		_ = tr.AppendTo(*out, vtrace.Event{"ev": "RESET", "script": s.ID})
		n++
	}
	fmt.Printf("{\"scripts\":%d}\n", n)
	return 0
}
