// Package sy runs the real syslog header parser over a bounded space of lines and records one event per call
// (fields, flags, counter deltas) for SyslogTrace.tla
package sy

import (
	"flag"
	"fmt"
	"strings"
	"time"

	"github.com/relex/gotils/logger"
	"github.com/relex/gotils/promexporter/promreg"
	"github.com/relex/slog-agent/base"
	"github.com/relex/slog-agent/defs"
	"github.com/relex/slog-agent/input/syslogparser"
	"github.com/relex/slog-agent/input/syslogprotocol"

	"verifharness/fnutil"
	"verifharness/vmetrics"
)

// MaxMsg is the message limit used by the driver (and by SyslogTrace.cfg)
const MaxMsg = 12

// Main is the entry point of `vh sy`
func Main(args []string) int {
	var maxMsg, maxRec *int
	o := fnutil.Open("sy", args, func(fs *flag.FlagSet) {
		maxMsg = fs.Int("maxmsg", MaxMsg, "defs.InputLogMaxMessageBytes (a value other than the default runs only the long-tail cases)")
		maxRec = fs.Int("maxrec", 64, "defs.InputLogMaxRecordBytes")
	})
	logger.SetLogLevel(logger.FatalLevel)
	defs.InputLogMaxMessageBytes = *maxMsg
	defs.InputLogMaxRecordBytes = *maxRec
	// every record of this run keeps its fields in a pooled backing buffer that is recycled at Release (production: lines
	// over 1024 bytes), so anything the long-lived parser remembers from an earlier line meets the next line's bytes
	defs.InputLogMinRecordBytesToPool = 8
	schema := syslogprotocol.RFC5424Schema
	mappings := [][]string{
		{"emerg", "alert", "crit", "err", "warn", "notice", "info", "debug"},
		{"l7", "l6", "l5", "l4", "l3", "l2", "l1", "l0"},
		{"off", "fatal", "fatal", "error", "warn", "info", "info", "debug"},
	}
	type pinst struct {
		parser base.LogParser
		cnt    *base.LogInputCounterSet
		mf     *promreg.MetricFactory
		last   map[string]float64
	}
	parsers := make([]*pinst, len(mappings))
	alloc := base.NewLogAllocator(schema, 1)
	for i, m := range mappings {
		mf := promreg.NewMetricFactory(fmt.Sprintf("sy%d_", i), nil, nil)
		cnt := base.NewLogInputCounter(mf)
		p, err := syslogparser.NewParser(logger.Root(), alloc, schema, m, cnt)
		if err != nil {
			panic(err)
		}
		parsers[i] = &pinst{p, cnt, mf, map[string]float64{}}
	}
	fieldIdx := func(name string) int { return int(schema.MustCreateFieldLocator(name)) }
	tokNames := []string{"time", "host", "app", "pid", "source", "extradata"}

	run := func(mi int, line string) {
		if !o.Mine() {
			return
		}
		pi := parsers[mi]
		ev := map[string]any{"ev": "SY", "in": fnutil.Bytes(line), "mapping": mappings[mi], "res": "drop", "start": syslogprotocol.TestRecordStart([]byte(line))}
		var rec *base.LogRecord
		func() {
			defer func() {
				if r := recover(); r != nil {
					ev["res"] = "panic"
					ev["panic"] = fmt.Sprint(r)
				}
			}()
			rec = pi.parser.Parse([]byte(line), time.Time{})
		}()
		pi.cnt.UpdateMetrics()
		now := vmetrics.Gather(pi.mf)
		pre := fmt.Sprintf("sy%d_", mi)
		d := func(k string) int { return int(now[pre+k] - pi.last[pre+k]) }
		ev["dPass"], ev["dPassB"] = d("passed_records_total"), d("passed_record_bytes_total")
		ev["dDrop"], ev["dDropB"] = d("dropped_records_total"), d("dropped_record_bytes_total")
		ev["dOvf"], ev["dOvfB"] = d("labelled_records_total{label=overflow}"), d("labelled_record_bytes_total{label=overflow}")
		pi.last = now
		if rec != nil {
			ev["res"] = "record"
			ev["facility"] = rec.Fields[fieldIdx("facility")]
			ev["level"] = rec.Fields[fieldIdx("level")]
			toks := make([][]int, len(tokNames))
			for i, n := range tokNames {
				toks[i] = fnutil.Bytes(rec.Fields[fieldIdx(n)])
			}
			ev["tokens"] = toks
			ev["msg"] = fnutil.Bytes(rec.Fields[fieldIdx("log")])
			ev["unescaped"] = rec.Unescaped
			alloc.Release(rec)
		}
		o.Emit(ev)
	}

	const ts = "2020-01-02T03:04:05Z"
	hdr := func(pri string) string { return "<" + pri + ">1 " + ts + " host app 123 msgid - " }
	if *maxMsg != MaxMsg {
		// long messages whose kept part ends in a long run of multi-byte characters (no ASCII byte near the cut): every
		// alignment of the run, every length around the limit, valid and invalid tails
		for _, ch := range []string{"\xc3\xa9", "\xe2\x82\xac", "\xf0\x9f\x98\x80", "\xd0\xb6"} {
			for k := 0; k <= 5; k++ {
				for total := *maxMsg - 6; total <= *maxMsg+9; total++ {
					m := strings.Repeat("a", k)
					for len(m)+len(ch) <= total {
						m += ch
					}
					run(0, hdr("13")+m)
					run(0, hdr("13")+m+ch[:1])       // a broken sequence at the very end
					run(0, hdr("13")+"x "+m+" tail") // ASCII after the run, beyond the limit
				}
			}
		}
		o.Close()
		return 0
	}
	// (a) every PRI 0..191 and out-of-range / non-canonical ones, under three level mappings
	pris := []string{}
	for p := 0; p <= 191; p++ {
		pris = append(pris, fmt.Sprint(p))
	}
	pris = append(pris, "192", "199", "999", "-1", "+5", "", "1x", "0013", "013", "00", "1000", " 5", "5 ")
	for mi := range mappings {
		for _, p := range pris {
			run(mi, hdr(p)+"hello")
		}
	}
	// version field and framing of the first token
	for _, first := range []string{"<13>2", "<13>", "<13>10", "<13", "13>1", "<>1", "<", "< ", "<1", "<13>1x", ">1", "<13> 1"} {
		run(0, first+" "+ts+" host app 123 msgid - hello world, long enough")
	}
	// (b) header tokens: one at a time and all at once; empty tokens; missing tokens; no message; empty message
	vals := []string{"-", "x", strings.Repeat("y", 31), "a\xffb", "\xc3\xa9", "[sd@1 k=\"v\"]", "a\tb"}
	base6 := []string{ts, "host", "app", "123", "msgid", "-"}
	for i := range base6 {
		for _, v := range vals {
			t := append([]string{}, base6...)
			t[i] = v
			run(0, "<14>1 "+strings.Join(t, " ")+" msg")
		}
		t := append([]string{}, base6...)
		t[i] = ""
		run(0, "<14>1 "+strings.Join(t, " ")+" message body ....")
	}
	for _, v := range vals {
		t := []string{ts, v, v, v, v, v}
		run(1, "<14>1 "+strings.Join(t, " ")+" m")
	}
	for n := 0; n <= 6; n++ {
		run(0, "<14>1 "+strings.Join(base6[:n], " ")+strings.Repeat("x", 30))
		run(0, "<14>1 "+strings.Join(base6[:n], " ")+" "+strings.Repeat("x", 30))
	}
	run(0, "<14>1 "+strings.Join(base6, " "))     // no MSG part at all
	run(0, "<14>1 "+strings.Join(base6, " ")+" ") // empty MSG
	// short lines, lines around the minimal length, other first bytes
	full := hdr("13") + "0123456789"
	for n := 0; n <= len(full); n++ {
		run(0, full[:n])
	}
	for _, p := range []string{"x", " ", "\n", "\xff", "13>1"} {
		run(0, p+full)
	}
	// (c) message bodies: every tail of up to 4 symbols after a filler, at lengths around the limit, behind headers of
	// several lengths (raw length below / at / above InputLogMaxRecordBytes)
	syms := []string{"a", " ", "\n", "\xc3\xa9", "\xe2\x82\xac", "\xf0\x9f\x98\x80", "\xff"}
	maxTail := 3
	if o.Tier == "thorough" {
		maxTail = 4
	}
	hosts := []string{"h", strings.Repeat("h", 8), strings.Repeat("h", 9), strings.Repeat("h", 40)}
	// header lengths around the maximum record length (64 in this run): the message limit shrinks, then the header is refused
	for hl := 14; hl <= 24; hl++ {
		hosts = append(hosts, strings.Repeat("H", hl))
	}
	if o.Tier == "thorough" {
		maxTail = 5
	}
	var tails []string
	var gen func(prefix string, n int)
	gen = func(prefix string, n int) {
		tails = append(tails, prefix)
		if n == 0 {
			return
		}
		for _, s := range syms {
			gen(prefix+s, n-1)
		}
	}
	gen("", maxTail)
	for _, host := range hosts {
		h := "<13>1 " + ts + " " + host + " app 1 m - "
		for _, tail := range tails {
			for fill := MaxMsg - 6; fill <= MaxMsg+1; fill++ {
				if fill < 0 || (o.Tier != "thorough" && len(tail) > 6 && fill%2 == 1) {
					continue
				}
				run(0, h+strings.Repeat("a", fill)+tail)
			}
		}
	}
	// (d) the skeleton of the header: every string of up to L symbols over {< > 1 3 space - a}, followed by a well-formed
	// remainder and by filler (classification well-formed / malformed, and the fields when well-formed)
	skel := []string{"<", ">", "1", "3", " ", "-", "a"}
	L := 5
	if o.Tier == "thorough" {
		L = 7
	}
	level := []string{""}
	for l := 1; l <= L; l++ {
		var next []string
		for _, p := range level {
			for _, c := range skel {
				next = append(next, p+c)
			}
		}
		for _, h := range next {
			run(0, h+" "+ts+" host app 123 msgid - tail")
			run(2, h+strings.Repeat(" y", 16))
		}
		level = next
	}
	o.Close()
	return 0
}
