// Package cf checks chunk-file persistence under I/O faults and crashes: a victim child process persists chunks through
// the real bufferer with a file-size limit and/or a kill point inside util.WriteFileAt; a second child recovers the
// directory. The parent records a trace for ChunkFileTrace.tla.
package cf

import (
	"bufio"
	"bytes"
	"encoding/json"
	"flag"
	"fmt"
	"os"
	"os/exec"
	"os/signal"
	"path/filepath"
	"sort"
	"strconv"
	"strings"
	"syscall"
	"time"

	"github.com/c2h5oh/datasize"
	"github.com/relex/gotils/logger"
	"github.com/relex/gotils/promexporter/promreg"
	"github.com/relex/slog-agent/base"
	"github.com/relex/slog-agent/buffer/hybridbuffer"
	"github.com/relex/slog-agent/defs"
	"github.com/relex/slog-agent/output/fluentdforward"
	"github.com/relex/slog-agent/util/vhook"

	"verifharness/vmetrics"
	"verifharness/vtrace"
)

// Script is one fault scenario
type Script struct {
	ID         string `json:"id"`
	Unit       int    `json:"unit"`       // bytes per model length unit
	Lens       []int  `json:"lens"`       // chunk lengths in units
	Victim     int    `json:"victim"`     // 1-based index of the chunk whose write is disturbed (0 = none)
	LimitAt    int    `json:"limitAt"`    // units after which the file-size limit stops the victim's write (-1 = no limit)
	KillPoint  string `json:"killPoint"`  // "" | wfa.afterOpen | wfa.afterWrite | wfa.afterClose | wfa.afterRename
	Damage     int    `json:"damage"`     // 1-based index of a chunk file damaged before recovery (0 = none)
	DamageKind string `json:"damageKind"` // unreadable (default) | zero
	After      []int  `json:"after"`      // lengths of chunks persisted by a second life of the agent before recovery
	// ids of the chunks in the order in which they are accepted (default 1..n): at a stop older chunks held in memory are
	// written after newer ones that were spilled on arrival, so the interrupted write need not be the newest file
	IDs      []int `json:"ids"`
	AfterIDs []int `json:"afterIds"` // the same for the second life (default: the next free ids in order)
}

func chunkData(id int, size int) []byte {
	b := make([]byte, size)
	for i := range b {
		b[i] = byte('a' + (id*7+i*3)%26)
	}
	return b
}

// chunk files carry names of the shape the Forward output gives them and are recognised by that output's own matcher: the
// matcher is what keeps the temporary file of an interrupted write ("<name>.tmp") out of the recovery
var matchChunkID = (&fluentdforward.Config{}).MatchChunkID

func chunkName(id int) string { return fmt.Sprintf("%03d-00000000.ff", id) }

// idOfName gives the model's chunk id of a file name the harness made (also of its temporary file), -1 for any other name
func idOfName(name string) int {
	if len(name) < 3 {
		return -1
	}
	n, err := strconv.Atoi(name[:3])
	if err != nil {
		return -1
	}
	return n
}

func emitJSON(ev string, kv ...any) {
	m := map[string]any{"ev": ev}
	for i := 0; i+1 < len(kv); i += 2 {
		m[kv[i].(string)] = kv[i+1]
		if name, ok := kv[i+1].(string); ok && kv[i].(string) == "id" {
			m["id"] = idOfName(name) // file names to the model's ids
		}
	}
	b, _ := json.Marshal(m)
	os.Stdout.Write(append(b, '\n'))
}

// VictimMain runs in the child process that persists chunks
func VictimMain(args []string) int {
	fs := flag.NewFlagSet("cf-victim", flag.ExitOnError)
	dir := fs.String("dir", "", "queue directory")
	lens := fs.String("lens", "", "chunk lengths in bytes, comma separated")
	victim := fs.Int("victim", 0, "1-based index of the disturbed chunk")
	limit := fs.Int("limit", -1, "file-size limit in bytes during the victim's write")
	kill := fs.String("kill", "", "kill point")
	unit := fs.Int("unit", 1, "bytes per unit (for logging)")
	first := fs.Int("first", 1, "id of the first chunk")
	idsArg := fs.String("ids", "", "chunk ids in accept order, comma separated (default: first, first+1, ...)")
	_ = fs.Parse(args)
	idOf := func(i int) int { return i + *first }
	if *idsArg != "" {
		var ids []int
		for _, x := range strings.Split(*idsArg, ",") {
			v, _ := strconv.Atoi(x)
			ids = append(ids, v)
		}
		idOf = func(i int) int { return ids[i] }
	}
	logger.SetLogLevel(logger.FatalLevel)
	signal.Ignore(syscall.SIGXFSZ)
	defs.BufferMaxNumChunksInQueue = 10
	defs.BufferMaxNumChunksInMemory = 1 // every accepted chunk is spilled to disk at once
	defs.IntermediateChannelTimeout = 2 * time.Second
	inVictim := false
	vhook.Emit = func(ev string, kv ...any) {
		if ev == "Unload" {
			emitJSON(ev, kv...)
		}
	}
	vhook.Kill = func(point string) {
		if inVictim && point == *kill {
			os.Exit(77)
		}
	}
	cfg := hybridbuffer.Config{RootPath: *dir, MaxBufSize: datasize.ByteSize(1 << 30)}
	vmf := promreg.NewMetricFactory("cfv_", nil, nil)
	buf := cfg.NewBufferer(logger.Root(), "", matchChunkID, vmf, false)
	buf.Start()
	cargs := buf.RegisterNewConsumer()
	go func() { // a stalled consumer
		cargs.InputClosed.WaitForever()
		cargs.OnFinished()
	}()
	for i, ls := range strings.Split(*lens, ",") {
		n, _ := strconv.Atoi(ls)
		id := chunkName(idOf(i))
		emitJSON("Persist", "id", id, "n", n / *unit)
		var old syscall.Rlimit
		if i+1 == *victim {
			inVictim = true
			if *limit >= 0 {
				_ = syscall.Getrlimit(syscall.RLIMIT_FSIZE, &old)
				_ = syscall.Setrlimit(syscall.RLIMIT_FSIZE, &syscall.Rlimit{Cur: uint64(*limit), Max: old.Max})
			}
		}
		buf.Accept(base.LogChunk{ID: id, Data: chunkData(idOf(i), n)})
		if i+1 == *victim {
			inVictim = false
			if *limit >= 0 {
				_ = syscall.Setrlimit(syscall.RLIMIT_FSIZE, &old)
			}
		}
	}
	buf.Destroy()
	// the gauges of a process that ends in an orderly way agree with the chunk files it leaves (C19), also after failed writes
	vm := vmetrics.Gather(vmf)
	pb := int(vm["cfv_persistent_chunk_bytes{storage=hybridBuffer}"])
	emitJSON("VictimGauges", "persistentChunks", int(vm["cfv_persistent_chunks{storage=hybridBuffer}"]), "persistentUnits", pb / *unit, "unitsExact", pb%*unit == 0,
		"ioErrors", int(vm["cfv_io_errors_total{storage=hybridBuffer}"]))
	return 0
}

// RecoverMain runs in the child process that recovers a queue directory
func RecoverMain(args []string) int {
	fs := flag.NewFlagSet("cf-recover", flag.ExitOnError)
	dir := fs.String("dir", "", "queue directory")
	unit := fs.Int("unit", 1, "bytes per unit (for logging)")
	_ = fs.Parse(args)
	logger.SetLogLevel(logger.FatalLevel)
	defs.BufferMaxNumChunksInQueue = 10
	defs.BufferMaxNumChunksInMemory = 10
	defs.IntermediateChannelTimeout = 2 * time.Second
	vhook.Emit = func(ev string, kv ...any) {
		if ev == "FeederLoad" {
			emitJSON(ev, kv...)
		}
	}
	mf := promreg.NewMetricFactory("cfr_", nil, nil)
	cfg := hybridbuffer.Config{RootPath: *dir, MaxBufSize: datasize.ByteSize(1 << 30)}
	buf := cfg.NewBufferer(logger.Root(), "", matchChunkID, mf, false)
	buf.Start()
	cargs := buf.RegisterNewConsumer()
	done := make(chan struct{})
	go func() {
		defer close(done)
		for {
			select {
			case c, ok := <-cargs.InputChannel:
				if !ok {
					cargs.OnFinished()
					return
				}
				idn := idOfName(c.ID)
				whole := len(c.Data)%*unit == 0
				emitJSON("Forward", "id", c.ID, "len", len(c.Data) / *unit, "bytes", len(c.Data), "unitsExact", whole,
					"intact", bytes.Equal(c.Data, chunkData(idn, len(c.Data))))
				cargs.OnChunkConsumed(c)
			case <-time.After(40 * time.Millisecond):
				cargs.OnFinished()
				return
			}
		}
	}()
	<-done
	buf.Destroy()
	m := vmetrics.Gather(mf)
	filesLeft := 0
	_ = filepath.Walk(*dir, func(p string, info os.FileInfo, err error) error {
		if err == nil && info.Mode().IsRegular() && matchChunkID(filepath.Base(p)) {
			filesLeft++
		}
		return nil
	})
	emitJSON("RecoveryDone", "dropped", int(m["cfr_dropped_chunks_total{storage=hybridBuffer}"]),
		"ioErrors", int(m["cfr_io_errors_total{storage=hybridBuffer}"]), "consumed", int(m["cfr_consumed_chunks_total{storage=hybridBuffer}"]),
		"persistentChunks", int(m["cfr_persistent_chunks{storage=hybridBuffer}"]), "pending", int(m["cfr_pending_chunks{storage=hybridBuffer}"]), "filesLeft", filesLeft)
	return 0
}

func runChild(tr *vtrace.Tracer, self string, args ...string) (int, string) {
	cmd := exec.Command(self, args...)
	var errb bytes.Buffer
	cmd.Stderr = &errb
	out, _ := cmd.StdoutPipe()
	if err := cmd.Start(); err != nil {
		return -1, err.Error()
	}
	sc := bufio.NewScanner(out)
	sc.Buffer(make([]byte, 1<<20), 1<<24)
	for sc.Scan() {
		var m map[string]any
		if json.Unmarshal(sc.Bytes(), &m) != nil {
			continue
		}
		ev, _ := m["ev"].(string)
		kv := []any{}
		for k, v := range m {
			if k != "ev" {
				kv = append(kv, k, v)
			}
		}
		tr.Emit(ev, kv...)
	}
	err := cmd.Wait()
	code := 0
	if err != nil {
		if ee, ok := err.(*exec.ExitError); ok {
			code = ee.ExitCode()
		} else {
			code = -1
		}
	}
	return code, errb.String()
}

// RunScript executes one scenario
func RunScript(sc Script, work string, self string) *vtrace.Tracer {
	tr := vtrace.New(1, false, "id")
	dir := filepath.Join(work, "q-"+sc.ID)
	_ = os.RemoveAll(dir)
	_ = os.MkdirAll(dir, 0o755)
	defer os.RemoveAll(dir)
	lens := make([]string, len(sc.Lens))
	for i, l := range sc.Lens {
		lens[i] = strconv.Itoa(l * sc.Unit)
	}
	limit := -1
	if sc.LimitAt >= 0 {
		limit = sc.LimitAt * sc.Unit
	}
	idsArg := ""
	if len(sc.IDs) == len(sc.Lens) {
		parts := make([]string, len(sc.IDs))
		for i, v := range sc.IDs {
			parts[i] = strconv.Itoa(v)
		}
		idsArg = strings.Join(parts, ",")
	}
	code, stderr := runChild(tr, self, "cf-victim", "-dir", dir, "-lens", strings.Join(lens, ","), "-victim", strconv.Itoa(sc.Victim),
		"-limit", strconv.Itoa(limit), "-kill", sc.KillPoint, "-unit", strconv.Itoa(sc.Unit), "-ids", idsArg)
	switch code {
	case 0:
		tr.Emit("VictimEnd", "killed", false)
	case 77:
		tr.Emit("VictimEnd", "killed", true, "point", sc.KillPoint)
	default:
		tr.Emit("VictimCrashed", "code", code, "stderr", lastLines(stderr))
	}
	if len(sc.After) > 0 { // a second life of the agent on the same directory, without faults
		tr.Emit("Respawn", "first", len(sc.Lens)+1)
		lens2 := make([]string, len(sc.After))
		for i, l := range sc.After {
			lens2[i] = strconv.Itoa(l * sc.Unit)
		}
		ids2 := ""
		if len(sc.AfterIDs) == len(sc.After) {
			parts := make([]string, len(sc.AfterIDs))
			for i, v := range sc.AfterIDs {
				parts[i] = strconv.Itoa(v)
			}
			ids2 = strings.Join(parts, ",")
		}
		code, stderr = runChild(tr, self, "cf-victim", "-dir", dir, "-lens", strings.Join(lens2, ","), "-victim", "0",
			"-unit", strconv.Itoa(sc.Unit), "-first", strconv.Itoa(len(sc.Lens)+1), "-ids", ids2)
		if code == 0 {
			tr.Emit("VictimEnd", "killed", false)
		} else {
			tr.Emit("VictimCrashed", "code", code, "stderr", lastLines(stderr))
		}
	}
	// the directory as the next process will find it
	ents, _ := os.ReadDir(dir)
	files, temps := [][]int{}, [][]int{}
	exact := true
	names := []string{}
	for _, e := range ents {
		names = append(names, e.Name())
	}
	sort.Strings(names)
	for _, n := range names {
		if n == ".id" {
			continue
		}
		st, err := os.Stat(filepath.Join(dir, n))
		if err != nil {
			continue
		}
		if st.Size()%int64(sc.Unit) != 0 {
			exact = false
		}
		l := int(st.Size()) / sc.Unit
		if matchChunkID(n) {
			files = append(files, []int{idOfName(n), l})
		} else {
			temps = append(temps, []int{idOfName(n), l})
		}
	}
	tr.Emit("Files", "files", files, "temps", temps, "unitsExact", exact)
	if sc.Damage > 0 { // an unreadable chunk file: open and fstat succeed, read fails (EISDIR stands in for EIO)
		p := filepath.Join(dir, chunkName(sc.Damage))
		if st, err := os.Stat(p); err == nil && !st.IsDir() {
			if sc.DamageKind == "dangling" { // the name is listed, but neither stat nor read succeed (file gone between scan and use)
				_ = os.Remove(p)
				_ = os.Symlink(filepath.Join(dir, "no-such-file"), p)
				tr.Emit("Damage", "id", sc.Damage, "kind", "unreadable")
			} else if sc.DamageKind == "zero" {
				if st.Size() > 0 {
					_ = os.Truncate(p, 0)
					tr.Emit("Damage", "id", sc.Damage, "kind", "zero")
				}
			} else {
				_ = os.Remove(p)
				_ = os.Mkdir(p, 0o755)
				tr.Emit("Damage", "id", sc.Damage, "kind", "unreadable")
			}
		}
	}
	code, stderr = runChild(tr, self, "cf-recover", "-dir", dir, "-unit", strconv.Itoa(sc.Unit))
	if code != 0 {
		tr.Emit("RecoveryCrashed", "code", code, "stderr", lastLines(stderr))
	}
	return tr
}

func minInt(a, b int) int {
	if a < b {
		return a
	}
	return b
}

func lastLines(s string) string {
	if len(s) > 400 {
		s = s[:400]
	}
	return s
}

// Main is the entry point of `vh cf`
func Main(args []string) int {
	fs := flag.NewFlagSet("cf", flag.ExitOnError)
	scriptsPath := fs.String("scripts", "", "ndjson file of scripts")
	outPath := fs.String("out", "", "ndjson trace file")
	work := fs.String("work", "", "scratch directory")
	_ = fs.Parse(args)
	self, _ := os.Executable()
	f, err := os.Open(*scriptsPath)
	if err != nil {
		fmt.Fprintln(os.Stderr, err)
		return 2
	}
	defer f.Close()
	_ = os.Remove(*outPath)
	scan := bufio.NewScanner(f)
	n := 0
	for scan.Scan() {
		if len(scan.Bytes()) == 0 {
			continue
		}
		var sc Script
		if err := json.Unmarshal(scan.Bytes(), &sc); err != nil {
			fmt.Fprintln(os.Stderr, "bad script:", err)
			return 2
		}
		tr := RunScript(sc, *work, self)
		if err := tr.AppendTo(*outPath, vtrace.Event{"ev": "RESET", "script": sc.ID}); err != nil {
			fmt.Fprintln(os.Stderr, err)
			return 2
		}
		n++
	}
	fmt.Printf("{\"scripts\":%d}\n", n)
	return 0
}
