// Package idg runs the real chunk ID generator under a scripted wall clock (vhook.Clock): every sequence of clock
// readings over a small set (repeats and backward steps included), and seeded longer ones
package idg

import (
	"fmt"
	"math/rand"
	"regexp"
	"strconv"

	"github.com/relex/slog-agent/output/shared"
	"github.com/relex/slog-agent/util/vhook"

	"verifharness/fnutil"
)

var idRe = regexp.MustCompile(`^(\d{19})-(\d{8})\.ff$`)

// Main is the entry point of `vh idg`
func Main(args []string) int {
	o := fnutil.Open("idg", args, nil)
	var now int64
	vhook.Clock = func() int64 { return now }
	runSeq := func(clocks []int64) {
		if !o.Mine() {
			return
		}
		gen := shared.NewChunkIDGeneratorForVerif(".ff")
		o.Emit(map[string]any{"ev": "New"})
		for _, c := range clocks {
			now = c
			id := gen()
			m := idRe.FindStringSubmatch(id)
			ev := map[string]any{"ev": "Gen", "clock": c, "id": id, "wellFormed": m != nil, "ts": 0, "seq": 0}
			if m != nil {
				ts, _ := strconv.ParseInt(m[1], 10, 64)
				sq, _ := strconv.ParseInt(m[2], 10, 64)
				ev["ts"], ev["seq"] = ts, sq
			}
			o.Emit(ev)
		}
	}
	n := 6
	if o.Tier == "thorough" {
		n = 8
	}
	var rec func(prefix []int64)
	rec = func(prefix []int64) {
		if len(prefix) > 0 {
			runSeq(prefix)
		}
		if len(prefix) == n {
			return
		}
		for c := int64(1); c <= 4; c++ {
			rec(append(append([]int64{}, prefix...), c))
		}
	}
	_ = rec
	// all sequences of exactly n readings over {1..4} (every shorter one is a prefix of some)
	var full func(prefix []int64)
	full = func(prefix []int64) {
		if len(prefix) == n {
			runSeq(prefix)
			return
		}
		for c := int64(1); c <= 4; c++ {
			full(append(append([]int64{}, prefix...), c))
		}
	}
	full(nil)
	// a clock that stands still, and one that runs backwards, for more chunks than one decimal digit of the sequence number counts
	still, back := []int64{}, []int64{}
	for k := int64(0); k < 25; k++ {
		still = append(still, 7)
		back = append(back, 1000-k)
	}
	runSeq(still)
	runSeq(back)
	rnd := rand.New(rand.NewSource(o.Seed))
	for i := 0; i < 200; i++ {
		seq := []int64{}
		t := int64(1_000_000_000) // readings stay below 2^31: TLC integers are 32 bits
		for k := 0; k < 40; k++ {
			switch rnd.Intn(6) {
			case 0: // same reading
			case 1:
				t -= int64(rnd.Intn(5_000_000)) // NTP step backwards
			default:
				t += int64(rnd.Intn(1_000))
			}
			seq = append(seq, t)
		}
		runSeq(seq)
	}
	_ = fmt.Sprint
	o.Close()
	return 0
}
