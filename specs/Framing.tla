---------------------------- MODULE Framing ----------------------------
(***************************************************************************
 Record framing of a connection's byte stream: input/tcplistener
 multilinereader.go (Read/processBuffer, Flush, FlushAll, checkOverflow),
 impl-shaped: the buffer contents, offsetSearch and the records handed to the
 consumer are modelled as the code computes them, so that FramingTrace can
 validate the real reader step by step, and a reference framer Ref states
 what the property demands.  Bytes are integers; a line is a record start iff
 its first byte is H (the driver gives the real reader the same test).
 ***************************************************************************)
EXTENDS Integers, Sequences, FiniteSets, TLC

CONSTANTS MaxLen,      \* MC: streams of up to MaxLen bytes
          BufSize,     \* len(mlr.buffer)
          SoftLimit,   \* mlr.softRecordLimit
          AllowFlush   \* MC: may Flush happen between reads?

H == 104
X == 120
NL == 10
Test(line) == Len(line) > 0 /\ line[1] = H

\* index of the first NL in s at or after i, or 0
RECURSIVE NextNL(_, _)
NextNL(s, i) == IF i > Len(s) THEN 0 ELSE IF s[i] = NL THEN i ELSE NextNL(s, i + 1)
RECURSIVE LastNL(_, _)
LastNL(s, i) == IF i < 1 THEN 0 ELSE IF s[i] = NL THEN i ELSE LastNL(s, i - 1)

(* ---- the reader; offsets are 0-based as in the code, sequences 1-based ---- *)
\* processBuffer: the scanning loop; returns [rs |-> recordStart, ss |-> searchStart, out |-> records consumed]
RECURSIVE Scan(_, _, _, _)
Scan(b, rs, ss, out) ==
  LET e == NextNL(b, ss + 1) IN      \* 1-based position of the next newline at or after offset ss
  IF e = 0 THEN [rs |-> rs, ss |-> ss, out |-> out]
  ELSE LET nextEnd == e - 1          \* 0-based offset of that newline
           line == SubSeq(b, ss + 1, nextEnd)
       IN IF ss > 0 /\ ss < nextEnd /\ Test(line)
            THEN Scan(b, ss, nextEnd + 1, Append(out, SubSeq(b, rs + 1, ss - 1)))
            ELSE Scan(b, rs, nextEnd + 1, out)
\* checkOverflow on state [buf, search]; returns [buf, search, out]
Overflow(buf, search) ==
  IF BufSize - Len(buf) >= SoftLimit THEN [buf |-> buf, search |-> search, out |-> <<>>]
  ELSE LET nextRec == SubSeq(buf, search + 1, Len(buf))
           prevRec == SubSeq(buf, 1, search - 1)
       IN IF search > 0 /\ Test(nextRec)
            THEN [buf |-> <<>>, search |-> 0, out |-> (IF Test(prevRec) THEN <<prevRec>> ELSE <<>>) \o <<nextRec>>]
            ELSE [buf |-> <<>>, search |-> 0, out |-> IF Test(buf) THEN <<buf>> ELSE <<>>]
\* Read with n > 0 bytes `data` delivered by the connection
ReadStep(buf, search, data) ==
  LET b == buf \o data
      r == Scan(b, 0, search, <<>>)
      nb == IF r.rs > 0 THEN SubSeq(b, r.rs + 1, Len(b)) ELSE b
      ns == IF r.rs > 0 THEN r.ss - r.rs ELSE r.ss
      o == Overflow(nb, ns)
  IN [buf |-> o.buf, search |-> o.search, out |-> r.out \o o.out]
FlushStep(buf, search) ==
  LET n == LastNL(buf, Len(buf)) IN
  IF n = 0 THEN [buf |-> buf, search |-> search, out |-> <<>>]
  ELSE LET rec == SubSeq(buf, 1, n - 1) IN
       [buf |-> SubSeq(buf, n + 1, Len(buf)), search |-> 0, out |-> IF Len(rec) > 0 /\ Test(rec) THEN <<rec>> ELSE <<>>]
FlushAllStep(buf, search) ==
  LET rec == IF Len(buf) > 0 /\ buf[Len(buf)] = NL THEN SubSeq(buf, 1, Len(buf) - 1) ELSE buf IN
  [buf |-> <<>>, search |-> 0, out |-> IF Len(buf) > 0 /\ Test(rec) THEN <<rec>> ELSE <<>>]

(* ---- reference framer: the valid records of a newline-terminated stream = maximal groups of lines that start at a
        start line (the last newline of a record is not part of it) ---- *)
RECURSIVE Lines(_, _)
Lines(s, i) == IF i > Len(s) THEN <<>>
               ELSE LET e == NextNL(s, i) IN
                    IF e = 0 THEN <<SubSeq(s, i, Len(s))>> ELSE <<SubSeq(s, i, e - 1)>> \o Lines(s, e + 1)
RECURSIVE Group(_, _, _)
Group(ls, cur, acc) ==      \* ls: remaining lines; cur: record being built (<<>> = none); acc: finished records
  IF ls = <<>> THEN (IF cur = <<>> THEN acc ELSE Append(acc, cur))
  ELSE IF Test(Head(ls)) THEN Group(Tail(ls), Head(ls), IF cur = <<>> THEN acc ELSE Append(acc, cur))
  ELSE IF cur = <<>> THEN Group(Tail(ls), <<>>, acc)
  ELSE Group(Tail(ls), cur \o <<NL>> \o Head(ls), acc)
Ref(s) == Group(Lines(s, 1), <<>>, <<>>)
ValidOnly(recs) == SelectSeq(recs, Test)
FirstLine(r) == LET e == NextNL(r, 1) IN IF e = 0 THEN r ELSE SubSeq(r, 1, e - 1)
IsPrefix(a, b) == Len(a) <= Len(b) /\ SubSeq(b, 1, Len(a)) = a

(* ---- model: every newline-terminated stream up to MaxLen, every fragmentation, every flush placement ---- *)
VARIABLES stream, pos, buf, search, emitted, flushed, done
vars == <<stream, pos, buf, search, emitted, flushed, done>>

RECURSIVE Seqs(_)
Seqs(n) == IF n = 0 THEN {<<>>} ELSE LET S == Seqs(n - 1) IN S \cup {Append(s, c) : s \in {t \in S : Len(t) = n - 1}, c \in {H, X, NL}}
Streams == {s \in Seqs(MaxLen) : Len(s) > 0 /\ s[Len(s)] = NL}

Init == stream \in Streams /\ pos = 0 /\ buf = <<>> /\ search = 0 /\ emitted = <<>> /\ flushed = FALSE /\ done = FALSE
Read(k) == /\ ~done /\ pos < Len(stream) /\ k \in 1..(Len(stream) - pos) /\ k <= BufSize - Len(buf)
           /\ LET r == ReadStep(buf, search, SubSeq(stream, pos + 1, pos + k)) IN
                buf' = r.buf /\ search' = r.search /\ emitted' = emitted \o r.out
           /\ pos' = pos + k /\ UNCHANGED <<stream, flushed, done>>
Flush == /\ AllowFlush /\ ~done /\ pos > 0 /\ pos < Len(stream)
         /\ LET r == FlushStep(buf, search) IN buf' = r.buf /\ search' = r.search /\ emitted' = emitted \o r.out
         /\ flushed' = TRUE /\ UNCHANGED <<stream, pos, done>>
FlushAll == /\ ~done /\ pos = Len(stream)
            /\ LET r == FlushAllStep(buf, search) IN buf' = r.buf /\ search' = r.search /\ emitted' = emitted \o r.out
            /\ done' = TRUE /\ UNCHANGED <<stream, pos, flushed>>
Next == (\E k \in 1..MaxLen : Read(k)) \/ Flush \/ FlushAll
Spec == Init /\ [][Next]_vars

SingleLineOnly(s) == \A l \in {Lines(s, 1)[i] : i \in 1..Len(Lines(s, 1))} : Test(l)
\* fragmentation independence: without a flush the valid records are exactly the reference records, whatever the cuts
FragmentationIndependent == (done /\ ~flushed) => ValidOnly(emitted) = Ref(stream)
\* for streams of single-line records the same holds under any placement of flushes
FlushIndependentForSingleLine == (done /\ SingleLineOnly(stream)) => ValidOnly(emitted) = Ref(stream)
\* with flushes and continuation lines: every record start is delivered exactly once, in order, with a prefix of its lines
NoRecordLostUnderFlush ==
  done => LET v == ValidOnly(emitted)
              r == Ref(stream)
          IN Len(v) = Len(r) /\ \A i \in 1..Len(v) : FirstLine(v[i]) = FirstLine(r[i]) /\ IsPrefix(v[i], r[i])
OffsetsSane == search >= 0 /\ search <= Len(buf) /\ Len(buf) <= BufSize
=============================================================================
