SPECIFICATION Spec
CONSTANTS
 NConn = 1
 NRec = 3
 Keys = {1, 2}
 MaxGen = 2
 Faults = 1
 ChunkMax = 2
INVARIANTS NoLoss Monitors
CHECK_DEADLOCK FALSE
