---------------------------- MODULE Forwarder ----------------------------
(***************************************************************************
 The forwarding client of slog-agent: output/baseoutput/clientworker.go and
 clientsession.go, written at the grain of the code's critical sections so
 that ForwarderTrace can bind recorded events of the real code to these
 very actions.

 Processes (goroutines of the implementation):
   worker   ClientWorker.run / runSession            (field wpc)
   dialer   the goroutine calling openConn           (field dial)
   sender   clientSession.Run: resendLeftovers, processInput, sendChunk,
            collectLeftovers                          (field spc)
   acker    clientSession.runAcknowledger            (field apc)
   cb       the goroutine of inputClosed.Next(...)   (field cb)
   env      whoever owns the input channel (the hybrid buffer's feeder) and
            the upstream server                       (actions Feed, CloseInput,
            SignalStop, Steal, and the outcome parameter of every I/O action)

 The whole state is one record `s` (EXCEPT-updates keep the 45 fields of
 an implementation-shaped model readable); every action is still a named
 operator, so TLC's coverage is per action.
 ***************************************************************************)
EXTENDS Integers, Sequences, FiniteSets, TLC

CONSTANTS NChunks,     \* chunks the environment may feed
          AckCap,      \* defs.ForwarderMaxPendingChunksForAck (capacity of ackerChan)
          Faults,      \* budget of faults the environment may inject
          AllowStop,   \* may the environment stop the client?
          MaxSoft,     \* number of soft reconnects (max session age / SIGUSR1)
          AllowSteal,  \* may the environment drain the closed input channel (feeder's saveEverything)?
          InOrderAck,  \* TRUE: the connection acknowledges in order with an empty ID (Datadog style)
          LiveSoft     \* TRUE (liveness configs): the session-age timer also fires, unboundedly, whenever the session
                       \* is quiescent with un-ACKed chunks (the only situation in which it matters for progress)

Chunks == 1..NChunks
NONE   == 0
MaxConn == 2 + 2 * Faults + MaxSoft   \* a session ends only by a fault (or the timeout it causes), a soft reconnect or the stop

VARIABLE s
vars == <<s>>

Range(q) == {q[i] : i \in 1..Len(q)}
RECURSIVE SortedSeq(_)
SortedSeq(S) == IF S = {} THEN <<>>
                ELSE LET m == CHOOSE x \in S : \A y \in S : x <= y IN <<m>> \o SortedSeq(S \ {m})
Count(q, x) == Cardinality({i \in 1..Len(q) : q[i] = x})

S0 == [
  \* ---- environment
  fed |-> 0, inq |-> <<>>, inClosed |-> FALSE, stopSig |-> FALSE, stolen |-> {},
  cb |-> "idle", cbConn |-> 0,
  \* ---- worker / dialer
  wpc |-> "dial", dial |-> "none", left |-> <<>>, connNo |-> 0, active |-> FALSE, policy |-> "none",
  \* ---- sender
  spc |-> "off", stage |-> "none", cur |-> NONE, last |-> NONE, prevOpen |-> FALSE, ending |-> "none", soft |-> 0,
  \* ---- ackerChan and its two signals
  ackq |-> <<>>, ackqClosed |-> FALSE, ackAbort |-> FALSE,
  \* ---- acknowledger
  apc |-> "off", anext |-> NONE, pend |-> {}, unacked |-> {}, ackerEnded |-> FALSE,
  \* ---- the connection: RunOnce flag, who is inside conn.Close, closed; what the upstream holds un-ACKed
  abortFlag |-> FALSE, closer |-> "none", closed |-> FALSE, upAvail |-> {},
  faults |-> Faults,
  \* ---- history (what the outside world saw)
  consumed |-> <<>>, handed |-> <<>>, finished |-> FALSE, lateCallback |-> FALSE,
  sentOk |-> {}, confirmViol |-> FALSE, lastSent |-> NONE, orderViol |-> FALSE,
  \* ---- metrics (clientmetrics.go)
  mOpen |-> 0, mAttempts |-> 0, mFwd |-> 0, mAck |-> 0, gPend |-> 0, gLeft |-> 0 ]

Init == s = S0

(***************************************************************************
 abortConn is a util.RunOnce: a compare-and-swap on a flag; only the winner
 calls conn.Close (and is inside it for a while), everyone else returns at
 once.  Abort(p, t): process p calls abortConn and its other fields become
 those of t.  DoClose: the winner is inside conn.Close; the connection is
 closed for every other goroutine from this step on.
 ***************************************************************************)
Abort(p, t) == IF s.abortFlag THEN t ELSE [t EXCEPT !.abortFlag = TRUE, !.closer = p]
Free(p) == s.closer # p
DoClose == s.closer # "none" /\ s' = [s EXCEPT !.closer = "none", !.closed = TRUE]

(***************************** environment *****************************)
\* the owner of the input channel pushes a chunk (outputfeeder.go loadToOutput)
Feed == s.fed < NChunks /\ ~s.inClosed
        /\ s' = [s EXCEPT !.fed = @ + 1, !.inq = Append(@, s.fed + 1)]
\* outputfeeder.go Run: close(outputChannel) ... then outputClosed.Signal()
CloseInput == AllowStop /\ ~s.inClosed /\ s' = [s EXCEPT !.inClosed = TRUE]
SignalStop == s.inClosed /\ ~s.stopSig /\ s' = [s EXCEPT !.stopSig = TRUE]
\* outputfeeder.go saveEverything ranges over the closed channel concurrently with the consumer
Steal == AllowSteal /\ s.stopSig /\ s.inq # <<>>
         /\ s' = [s EXCEPT !.stolen = @ \cup {Head(s.inq)}, !.inq = Tail(@)]
\* clientworker.go NewClientWorker: inputClosed.Next(func(){ sess := activeSession.Load(); if sess != nil { sess.Abort } })
CbLoad == s.stopSig /\ s.cb = "idle"
          /\ s' = [s EXCEPT !.cb = "loaded", !.cbConn = IF s.active THEN s.connNo ELSE 0]
CbAbort == s.cb = "loaded"
           /\ s' = IF s.cbConn # 0 /\ s.cbConn = s.connNo /\ s.wpc \notin {"dial"}
                     THEN Abort("cb", [s EXCEPT !.cb = "done"])
                     ELSE [s EXCEPT !.cb = "done"]

(***************************** worker + dialer *****************************)
\* clientworker.go runSession: go func(){ conn, err := openConn(); connCh <- conn-or-nil }()
DialResult(ok) ==
  /\ s.wpc = "dial" /\ s.dial = "none"
  /\ IF ok THEN s.connNo < MaxConn /\ s' = [s EXCEPT !.dial = "ok"]
           ELSE s.faults > 0 /\ s' = [s EXCEPT !.dial = "fail", !.faults = @ - 1]
\* select { case <-inputClosed: return leftovers, noReconnect
DialSeesStop ==
  /\ s.wpc = "dial" /\ s.stopSig
  /\ s' = [s EXCEPT !.wpc = "ret", !.policy = "noReconnect",
                    !.dial = IF s.dial = "none" THEN "orphan" ELSE "none"]
\*          case conn = <-connCh: nil => return leftovers, reconnectWithDelay
WorkerRecvFail ==
  /\ s.wpc = "dial" /\ s.dial = "fail"
  /\ s' = [s EXCEPT !.wpc = "ret", !.policy = "reconnectWithDelay", !.dial = "none"]
\*          otherwise: metrics.OnOpening(); sess := newClientSession(...)
WorkerRecvOk ==
  /\ s.wpc = "dial" /\ s.dial = "ok"
  /\ s' = [s EXCEPT !.wpc = "opened", !.dial = "none", !.connNo = @ + 1, !.mOpen = @ + 1,
                    !.abortFlag = FALSE, !.closer = "none", !.closed = FALSE, !.upAvail = {},
                    !.ackq = <<>>, !.ackqClosed = FALSE, !.ackAbort = FALSE,
                    !.apc = "off", !.anext = NONE, !.pend = {}, !.unacked = {}, !.ackerEnded = FALSE,
                    !.last = NONE, !.cur = NONE, !.lastSent = NONE, !.sentOk = {}]
\* a dial goroutine the worker no longer waits for reports its result (it then blocks on connCh forever)
OrphanDial == s.dial = "orphan" /\ s' = [s EXCEPT !.dial = "none"]
\* client.activeSession.Store(sess)
StoreSession == s.wpc = "opened" /\ s' = [s EXCEPT !.wpc = "stored", !.active = TRUE]
\* clientsession.go Run: go session.runAcknowledger(); resendLeftovers(leftovers)
SessionStart ==
  /\ s.wpc = "stored"
  /\ s' = [s EXCEPT !.wpc = "session", !.spc = "resend", !.stage = "resend", !.prevOpen = TRUE, !.apc = "wait"]
\* runSession's deferred func: sess.Abort(...)
SessionDeferAbort ==
  /\ s.wpc = "session" /\ s.spc = "returned"
  /\ s' = Abort("worker", [s EXCEPT !.wpc = "sessret", !.spc = "off"])
\*                             client.activeSession.Store(nil); return
SessionClear ==
  /\ s.wpc = "sessret" /\ Free("worker")
  /\ s' = [s EXCEPT !.wpc = "ret", !.active = FALSE]
\* clientworker.go run: switch retry { ... }
Dispatch ==
  /\ s.wpc = "ret"
  /\ s' = [s EXCEPT !.wpc = CASE s.policy = "noReconnect" -> "drain"
                              [] s.policy = "reconnectWithDelay" -> "retrywait"
                              [] s.policy = "reconnect" -> "dial",
                    !.policy = "none"]
\* client.inputClosed.Wait(defs.ForwarderRetryInterval)
RetryTimeout == s.wpc = "retrywait"
                /\ s' = [s EXCEPT !.wpc = "dial"]
RetrySeesStop == s.wpc = "retrywait" /\ s.stopSig /\ s' = [s EXCEPT !.wpc = "drain"]
\* close(leftovers); for chunk := range leftovers { OnLeftoverPopped; onChunkLeft(chunk) }
HandBack ==
  /\ s.wpc = "drain" /\ s.left # <<>>
  /\ s' = [s EXCEPT !.left = Tail(@), !.handed = Append(@, Head(s.left)), !.gLeft = @ - 1]
\* deferred client.onFinished()
Finish == s.wpc = "drain" /\ s.left = <<>> /\ s' = [s EXCEPT !.wpc = "done", !.finished = TRUE]

(***************************** sender *****************************)
Sender == s.wpc = "session" /\ Free("sender")
StartCollect(t, end, pol) == [t EXCEPT !.spc = "collect1", !.ending = end, !.policy = pol]

\* resendLeftovers: select { case <-inputClosed ... case chunk = <-leftovers ... default ... }
ResendSeesStop == Sender /\ s.spc = "resend" /\ s.stopSig /\ s' = StartCollect(s, "hard", "noReconnect")
ResendPop ==
  /\ Sender /\ s.spc = "resend" /\ s.left # <<>>
  /\ s' = [s EXCEPT !.cur = Head(s.left), !.last = Head(s.left), !.left = Tail(@), !.spc = "send",
                    !.gLeft = @ - 1, !.mAttempts = @ + 1]
\*   default: only when no other case is ready; the decision (which depends on the stop signal NOT being there yet) ...
ResendEmptyDo ==
  /\ Sender /\ s.spc = "resend" /\ s.left = <<>> /\ ~s.stopSig
  /\ s' = [s EXCEPT !.spc = "resendempty"]
\*   ... and the return to Run, which goes on to processInput
ResendEmpty ==
  /\ Sender /\ s.spc = "resendempty"
  /\ s' = [s EXCEPT !.spc = "normal", !.stage = "normal", !.prevOpen = FALSE]

\* processInput: select { case chunk, ok = <-inputChannel ... case <-maxDuration ... case <-SIGUSR1 ... case <-ping }
\*   the receive itself (the environment can see the channel shrink before the sender reports anything) ...
NormalPopDo ==
  /\ Sender /\ s.spc = "normal" /\ s.inq # <<>>
  /\ s' = [s EXCEPT !.cur = Head(s.inq), !.inq = Tail(@), !.spc = "popped"]
\*   ... session.lastChunk = &chunk; sendChunk: metrics.OnForwarding
NormalPop ==
  /\ Sender /\ s.spc = "popped"
  /\ s' = [s EXCEPT !.last = s.cur, !.spc = "send", !.mAttempts = @ + 1, !.orderViol = @ \/ s.left # <<>>]
NormalSeesClosed ==
  /\ Sender /\ s.spc = "normal" /\ s.inq = <<>> /\ s.inClosed
  /\ s' = StartCollect(s, "hard", "noReconnect")
SoftReconnect ==   \* max session duration reached, or SIGUSR1
  /\ Sender /\ s.spc = "normal" /\ s.soft < MaxSoft
  /\ s' = StartCollect([s EXCEPT !.soft = @ + 1], "soft", "reconnect")
\* the session-age timer of a long-running agent, restricted to the situation where progress depends on it
SoftWhenQuiescent ==
  /\ LiveSoft /\ Sender /\ s.spc = "normal" /\ s.inq = <<>> /\ s.apc = "wait" /\ s.ackq = <<>> /\ s.pend # {}
  /\ s' = StartCollect(s, "soft", "reconnect")
PingOk  == Sender /\ s.spc = "normal" /\ ~s.closed /\ UNCHANGED s
PingErr ==
  /\ Sender /\ s.spc = "normal" /\ (s.closed \/ s.faults > 0)
  /\ s' = [s EXCEPT !.spc = "abort", !.policy = "reconnectWithDelay",
                    !.faults = IF s.closed THEN @ ELSE @ - 1]

\* sendChunk: conn.SendChunk(...)
SendOk ==
  /\ Sender /\ s.spc = "send" /\ ~s.closed
  /\ s' = [s EXCEPT !.spc = "enq", !.upAvail = @ \cup {s.cur}, !.sentOk = @ \cup {s.cur},
                    !.lastSent = s.cur,
                    !.orderViol = @ \/ (s.lastSent # NONE /\ s.cur <= s.lastSent)]
SendErr(got) ==   \* error, deadline, or connection closed under it; the upstream may or may not have got the chunk
  /\ Sender /\ s.spc = "send" /\ (s.closed \/ s.faults > 0)
  /\ (got => ~s.closed)
  /\ s' = [s EXCEPT !.spc = "abort", !.policy = "reconnectWithDelay",
                    !.faults = IF s.closed THEN @ ELSE @ - 1,
                    !.upAvail = IF got THEN @ \cup {s.cur} ELSE @]
\*            session.abortConn(...) after a send or ping error
SenderAbort == Sender /\ s.spc = "abort" /\ s' = Abort("sender", StartCollect(s, "hard", s.policy))
\*            select { case session.ackerChan <- chunk   (the push itself; confirmed by EnqOk)
EnqDo ==
  /\ Sender /\ s.spc = "enq" /\ Len(s.ackq) < AckCap
  /\ s' = [s EXCEPT !.ackq = Append(@, s.cur), !.spc = "enqd"]
\*              metrics.OnForwarded; return true  -> caller: session.lastChunk = nil
EnqOk ==
  /\ Sender /\ s.spc = "enqd"
  /\ s' = [s EXCEPT !.last = NONE, !.cur = NONE, !.spc = s.stage, !.mFwd = @ + 1, !.gPend = @ + 1]
\*            case <-session.inputClosed.Channel(): return false, noReconnect
EnqSeesStop == Sender /\ s.spc = "enq" /\ s.stopSig /\ s' = StartCollect(s, "hard", "noReconnect")
\*            case <-session.ackerEnded.Channel(): return false, reconnectWithDelay }
EnqSeesAckerEnded == Sender /\ s.spc = "enq" /\ s.ackerEnded /\ s' = StartCollect(s, "hard", "reconnectWithDelay")

\* collectLeftovers: close(previous leftovers) + collect is local; close(session.ackerChan)
Collect1 ==
  /\ Sender /\ s.spc = "collect1"
  /\ s' = [s EXCEPT !.ackqClosed = TRUE, !.spc = IF s.ending = "soft" THEN "softwait" ELSE "collect2a"]
\*   waitPendingChunks: session.ackerEnded.Wait(defs.ForwarderAckerStopTimeout)
SoftWaitDone    == Sender /\ s.spc = "softwait" /\ s.ackerEnded /\ s' = [s EXCEPT !.spc = "collect2a"]
SoftWaitTimeout == Sender /\ s.spc = "softwait" /\ ~s.ackerEnded
                   /\ s' = [s EXCEPT !.spc = "collect2a"]
\*   session.ackerAbort.Signal()
Collect2a == Sender /\ s.spc = "collect2a" /\ s' = [s EXCEPT !.ackAbort = TRUE, !.spc = "collect2b"]
\*   session.abortConn(...)
Collect2b == Sender /\ s.spc = "collect2b" /\ s' = Abort("sender", [s EXCEPT !.spc = "ackwait"])
\*   session.ackerEnded.Wait(IntermediateChannelTimeout); CollectFromChannel(ackerChan); unacked.Load(); merge;
\*   metrics.OnSessionEnded; newLeftoverChannel (sort by id, drop duplicates)
Merge ==
  /\ Sender /\ s.spc = "ackwait" /\ s.ackerEnded
  /\ LET prev == IF s.prevOpen THEN s.left ELSE <<>>
         all  == Range(prev) \cup Range(s.ackq) \cup s.unacked \cup (IF s.last = NONE THEN {} ELSE {s.last})
         nNew == Len(prev) + Len(s.ackq) + Cardinality(s.unacked) + (IF s.last = NONE THEN 0 ELSE 1)
     IN s' = [s EXCEPT !.left = SortedSeq(all), !.ackq = <<>>, !.last = NONE, !.cur = NONE, !.prevOpen = FALSE,
                       !.spc = "returned",
                       !.gPend = @ - (Len(s.ackq) + Cardinality(s.unacked)),
                       !.gLeft = (@ + nNew) - Len(prev)]

(***************************** acknowledger *****************************)
Acker == Free("acker")
\* select { case chunk, ok := <-session.ackerChan: pendingChunksByID[chunk.ID] = chunk   (the pop; confirmed by AckerTake)
AckerPop ==
  /\ Acker /\ s.apc = "wait" /\ s.ackq # <<>>
  /\ s' = [s EXCEPT !.anext = Head(s.ackq), !.pend = @ \cup {Head(s.ackq)}, !.ackq = Tail(@), !.apc = "took"]
AckerTake == Acker /\ s.apc = "took" /\ s' = [s EXCEPT !.apc = "read"]
\*          !ok => return           case <-session.ackerAbort.Channel(): return }
AckerSeesClosed == Acker /\ s.apc = "wait" /\ s.ackq = <<>> /\ s.ackqClosed /\ s' = [s EXCEPT !.apc = "ending"]
AckerSeesAbort  == Acker /\ s.apc = "wait" /\ s.ackAbort /\ s' = [s EXCEPT !.apc = "ending"]
\* deferred: session.unacked.Store(&values); session.ackerEnded.Signal()
AckerEnd == Acker /\ s.apc = "ending" /\ s' = [s EXCEPT !.apc = "ended", !.unacked = s.pend, !.ackerEnded = TRUE]
\* conn.ReadChunkAck returned the ID x of something the upstream received on this connection
AckRead(x) ==
  /\ Acker /\ s.apc = "read" /\ ~s.closed /\ x \in s.upAvail
  /\ IF x \in s.pend
       THEN s' = [s EXCEPT !.upAvail = @ \ {x}, !.pend = @ \ {x}, !.consumed = Append(@, x),
                           !.confirmViol = @ \/ x \notin s.sentOk, !.apc = "wait",
                           !.mAck = @ + 1, !.gPend = @ - 1, !.lateCallback = @ \/ s.finished]
       ELSE \* ACK for a chunk the acknowledger has not taken yet: "unknown chunk ID", the ACK is lost
            s.faults > 0 /\ s' = [s EXCEPT !.upAvail = @ \ {x}, !.apc = "wait", !.faults = @ - 1]
\* conn.ReadChunkAck returned "" (= the oldest unacknowledged chunk; connections that answer in order)
AckInOrder ==
  /\ Acker /\ s.apc = "read" /\ ~s.closed /\ s.upAvail # {}
  /\ LET x == CHOOSE y \in s.upAvail : \A z \in s.upAvail : y <= z
     IN /\ x = s.anext
        /\ s' = [s EXCEPT !.upAvail = @ \ {x}, !.pend = @ \ {x}, !.consumed = Append(@, x),
                          !.confirmViol = @ \/ x \notin s.sentOk, !.apc = "wait",
                          !.mAck = @ + 1, !.gPend = @ - 1, !.lateCallback = @ \/ s.finished]
\* an ACK for an ID nobody ever sent
AckGarbage == Acker /\ s.apc = "read" /\ ~s.closed /\ s.faults > 0
              /\ s' = [s EXCEPT !.apc = "wait", !.faults = @ - 1]
\* read error, deadline (also: nothing to acknowledge), or the connection was closed under it
AckErr ==
  /\ Acker /\ s.apc = "read"
  /\ (s.closed \/ s.faults > 0 \/ (s.upAvail \cap s.pend) = {})
  /\ s' = [s EXCEPT !.apc = "abort",
                    !.faults = IF s.closed \/ (s.upAvail \cap s.pend) = {} THEN @ ELSE @ - 1]
\* session.abortConn(...) after an ACK error
AckerAbort == Acker /\ s.apc = "abort" /\ s' = Abort("acker", [s EXCEPT !.apc = "ending"])

(***************************** next-state relation *****************************)
EnvNext    == Feed \/ CloseInput \/ SignalStop \/ Steal
CbNext     == CbLoad \/ CbAbort
WorkerNext == DialSeesStop \/ WorkerRecvFail \/ WorkerRecvOk \/ StoreSession \/ SessionStart \/ SessionDeferAbort
              \/ SessionClear \/ Dispatch \/ RetrySeesStop \/ HandBack \/ Finish
SenderNext == ResendSeesStop \/ ResendPop \/ ResendEmptyDo \/ ResendEmpty \/ NormalPopDo \/ NormalPop \/ NormalSeesClosed
              \/ SendOk \/ SenderAbort \/ EnqDo \/ EnqOk \/ EnqSeesStop \/ EnqSeesAckerEnded
              \/ Collect1 \/ SoftWaitDone \/ Collect2a \/ Collect2b \/ Merge
AckerNext  == AckerPop \/ AckerTake \/ AckerSeesClosed \/ AckerSeesAbort \/ AckerEnd \/ AckerAbort
\* I/O that completes normally, conn.Close completing, and I/O cancelled by Close (the connection contract)
GoodIO     == DialResult(TRUE) \/ OrphanDial \/ DoClose
              \/ (~InOrderAck /\ \E x \in Chunks : x \in s.pend /\ AckRead(x)) \/ (InOrderAck /\ AckInOrder)
              \/ (s.closed /\ (AckErr \/ PingErr \/ SendErr(FALSE)))
\* timer expiry: retry interval, soft-stop wait, session age, ACK deadline with nothing to acknowledge
Timers     == RetryTimeout \/ SoftWaitTimeout \/ SoftReconnect \/ SoftWhenQuiescent
              \/ (s.apc = "read" /\ (s.upAvail \cap s.pend) = {} /\ AckErr)
FaultNext  == DialResult(FALSE) \/ PingErr \/ PingOk \/ (\E g \in BOOLEAN : SendErr(g))
              \/ (~InOrderAck /\ \E x \in Chunks : AckRead(x)) \/ (~InOrderAck /\ AckGarbage) \/ AckErr

Next == EnvNext \/ CbNext \/ WorkerNext \/ SenderNext \/ AckerNext \/ GoodIO \/ Timers \/ FaultNext

Spec == Init /\ [][Next]_vars
\* fairness: every step of the code, good I/O, and timers; never the environment's faults, feeds or stop
CodeFair == WF_vars(CbNext) /\ WF_vars(WorkerNext) /\ WF_vars(SenderNext) /\ WF_vars(AckerNext) /\ WF_vars(GoodIO)
FairSpec == Spec /\ CodeFair /\ WF_vars(Timers) /\ WF_vars(Feed)
\* for C18: no fairness on timers at all - termination after the stop must not depend on any timeout expiring
NoTimerFairSpec == Spec /\ CodeFair

(***************************** properties *****************************)
Taken == (1..s.fed) \ (Range(s.inq) \cup s.stolen)

\* reported delivered only after the upstream acknowledged that very chunk on a connection over which it was sent completely
\* (monitor: sentOk = ids whose SendChunk returned nil on the current connection; consumed grows only in AckRead/AckInOrder,
\*  i.e. when the upstream acknowledged that id on this connection)
AckBeforeConfirm == ~s.confirmViol
ResolvedAtMostOnce  == \A c \in Chunks : Count(s.consumed, c) + Count(s.handed, c) <= 1
ResolvedExactlyOnce == s.wpc = "done" => \A c \in Taken : Count(s.consumed, c) + Count(s.handed, c) = 1
TrackedSomewhere ==
  \A c \in Taken : \/ Count(s.consumed, c) + Count(s.handed, c) = 1
                   \/ c \in Range(s.left) \/ c \in Range(s.ackq) \/ c \in s.pend \/ c \in s.unacked \/ c = s.last
                   \/ (s.spc = "popped" /\ c = s.cur)
NoCallbackAfterFinish == ~s.lateCallback /\ (s.finished => s.wpc = "done")
\* on one connection ids go out in increasing order, and nothing is taken from the queue while leftovers remain
OldestFirst == ~s.orderViol
LeftoversSorted == \A i, j \in 1..Len(s.left) : i < j => s.left[i] < s.left[j]
\* C19: gauges and counters against the abstract state
MetricsBalance ==
  LET lag == IF s.spc = "enqd" THEN 1 ELSE 0   \* pushed to ackerChan, metrics.OnForwarded not yet run
  IN /\ s.mAck = Len(s.consumed)
     /\ s.mFwd + lag >= s.mAck
     /\ s.mAttempts >= s.mFwd + lag
     /\ s.mOpen = s.connNo
     /\ (s.wpc = "session" /\ s.spc # "returned") => s.gPend + lag = Len(s.ackq) + Cardinality(s.pend)
     /\ (s.wpc # "session" \/ s.spc = "returned") => s.gPend = 0
     /\ (s.wpc \in {"ret", "retrywait", "dial", "opened", "stored", "drain", "done"}) => s.gLeft = Len(s.left)
TypeOK ==
  /\ s.wpc \in {"dial", "opened", "stored", "session", "sessret", "ret", "retrywait", "drain", "done"}
  /\ s.spc \in {"off", "resend", "resendempty", "normal", "popped", "send", "enq", "enqd", "abort", "collect1", "softwait", "collect2a",
                "collect2b", "ackwait", "returned"}
  /\ s.apc \in {"off", "wait", "took", "read", "abort", "ending", "ended"}
  /\ s.gPend \in Int /\ s.gLeft \in Nat

\* liveness
AllDelivered == \A c \in Chunks : c \in Range(s.consumed)
EventuallyDelivered == <>AllDelivered
StopTerminates == s.stopSig ~> (s.wpc = "done")
=============================================================================
