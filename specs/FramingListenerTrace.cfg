SPECIFICATION TSpec
CONSTANTS
 MaxLen = 9
 BufSize = 48
 SoftLimit = 16
 AllowFlush = TRUE
 TraceFile = "trace.ndjson"
CONSTRAINT HWM
POSTCONDITION Accepted_
CHECK_DEADLOCK FALSE
