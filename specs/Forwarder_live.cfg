SPECIFICATION FairSpec
CONSTANTS
 NChunks = 2
 AckCap = 1
 Faults = 1
 AllowStop = FALSE
 MaxSoft = 1
 AllowSteal = FALSE
 InOrderAck = FALSE
 LiveSoft = TRUE
INVARIANTS TypeOK
PROPERTIES EventuallyDelivered
CHECK_DEADLOCK FALSE
