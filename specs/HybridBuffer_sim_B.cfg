SPECIFICATION Spec
CONSTANTS
 N = 6
 Q = 3
 M = 2
 MaxBytes = 4
 Sizes = {1, 2, 3}
 MaxGen = 3
 DirUsable = TRUE
 IoFaults = 0
 WriteFaults = 0
 EarlyHandBack = TRUE
INVARIANTS NothingLost NoSilentLoss TypeOK ConfirmedGone ConfirmedOnce Fifo DiskWithinLimit GaugeCoversDisk ChunkBalance AllPersisted
CHECK_DEADLOCK FALSE
