SPECIFICATION Spec
CONSTANTS
 Clock = {1, 2, 3, 4}
 MaxIds = 6
INVARIANTS Unique CreationOrder
CHECK_DEADLOCK FALSE
