---------------------------- MODULE ChunkFile ----------------------------
(***************************************************************************
 Persistence of one chunk file and recovery of a queue directory:
 util/files.go WriteFileAt / ReadFileAt, chunkoperator.go UnloadChunk /
 LoadChunk / ScanExistingChunks, outputfeeder.go loadToOutput (zero-length =>
 corrupt).  A process ("victim") persists chunks out of 1..K one after the other,
 in ANY order of ids (at a stop the feeder saves the newer chunks of the input
 queue before the older ones of the output window, and a consumer hands old
 chunks back while new ones are spilled), so the file of an interrupted write
 need not be the newest one in the directory;
 the environment may cut any write short, fail it, or kill the process at any
 step; a second process then recovers the directory and forwards what it finds.

 WriteFileAt is modelled as the code performs it: open a temporary name that is
 never a chunk id -> write until everything is written -> close -> rename to the
 chunk id; on any error the temporary file is unlinked.
 ***************************************************************************)
EXTENDS Integers, Sequences, FiniteSets, TLC

CONSTANTS K,       \* chunks persisted in total, ids 1..K
          Lens,    \* possible chunk lengths
          MaxLives \* processes that persist chunks one after the other before the directory is recovered

VARIABLE s
vars == <<s>>

NOFILE == -1
S0 == [ n    |-> [i \in 1..K |-> 0],        \* produced length of chunk i
        file |-> [i \in 1..K |-> NOFILE],   \* length of the file under the chunk's own name (NOFILE = absent)
        temp |-> [i \in 1..K |-> NOFILE],   \* length of the chunk's temporary file
        started |-> {},                     \* chunks given to UnloadChunk so far (each id at most once)
        wpc  |-> "idle", cur |-> 0, written |-> 0,   \* WriteFileAt in progress
        saved |-> {}, failed |-> {},        \* UnloadChunk returned true / false
        phase |-> "victim",                 \* victim | dead | recover | done
        zeroed |-> {},                      \* chunk files emptied from outside
        lives |-> 1,                        \* processes that have persisted chunks so far
        rq |-> <<>>,                        \* recovery queue (ids, in name order)
        lq |-> <<>>,                        \* loaded by the feeder, not yet taken by the consumer: <<id, len>>
        forwarded |-> <<>>,                 \* <<id, len>> handed to the consumer by the recovering process
        corrupt |-> {}, readFailed |-> {} ]

Init == s = S0

(***************************** the victim: UnloadChunk -> WriteFileAt *****************************)
Persist(i, len) ==
  /\ s.phase = "victim" /\ s.wpc = "idle" /\ i \in (1..K) \ s.started
  /\ s' = [s EXCEPT !.n[i] = len, !.cur = i, !.started = @ \cup {i}, !.wpc = "open", !.written = 0]
\* unix.Openat(dirfd, name + ".tmp", O_WRONLY|O_CREAT|O_TRUNC)
OpenTemp == s.phase = "victim" /\ s.wpc = "open" /\ s' = [s EXCEPT !.temp[s.cur] = 0, !.wpc = "write"]
OpenFails == s.phase = "victim" /\ s.wpc = "open" /\ s' = [s EXCEPT !.wpc = "idle", !.failed = @ \cup {s.cur}, !.cur = 0]
\* n, err := unix.Write(fd, data): the kernel takes k of the remaining bytes (k may be less: file-size or space limit)
Write(k) ==
  /\ s.phase = "victim" /\ s.wpc = "write" /\ k \in 1..(s.n[s.cur] - s.written)
  /\ s' = [s EXCEPT !.written = @ + k, !.temp[s.cur] = s.written + k,
                    !.wpc = IF s.written + k = s.n[s.cur] THEN "close" ELSE "write"]
\* ... or fails (ENOSPC, EFBIG, EIO), or reports 0 bytes: close, unlink the temporary file, return the error
WriteFails ==
  /\ s.phase = "victim" /\ s.wpc = "write"
  /\ s' = [s EXCEPT !.wpc = "cleanup"]
CleanupTemp ==
  /\ s.phase = "victim" /\ s.wpc = "cleanup"
  /\ s' = [s EXCEPT !.temp[s.cur] = NOFILE, !.wpc = "idle", !.failed = @ \cup {s.cur}, !.cur = 0]
\* unix.Close(fd)
CloseTemp == s.phase = "victim" /\ s.wpc = "close" /\ s' = [s EXCEPT !.wpc = "rename"]
\* unix.Renameat(dirfd, tmp, dirfd, name)
Rename ==
  /\ s.phase = "victim" /\ s.wpc = "rename"
  /\ s' = [s EXCEPT !.file[s.cur] = s.temp[s.cur], !.temp[s.cur] = NOFILE, !.wpc = "idle",
                    !.saved = @ \cup {s.cur}, !.cur = 0]
\* the process is killed (or the victim is simply done): memory is gone, files stay as they are
Crash == s.phase = "victim" /\ s' = [s EXCEPT !.phase = "dead", !.wpc = "idle", !.cur = 0]

\* the agent is started again on the same directory and persists further chunks (whatever the earlier life left behind,
\* temporary files included, is still there)
Respawn == s.phase = "dead" /\ s.lives < MaxLives /\ s' = [s EXCEPT !.phase = "victim", !.lives = @ + 1]

\* a chunk file is found empty at startup (damage from outside, or a file left by an older version of the agent)
DamageZero(i) == s.phase = "dead" /\ s.file[i] # NOFILE /\ s.file[i] # 0 /\ s' = [s EXCEPT !.file[i] = 0, !.zeroed = @ \cup {i}]

(***************************** recovery by a new process *****************************)
RECURSIVE SortedSeq(_)
SortedSeq(S) == IF S = {} THEN <<>>
                ELSE LET m == CHOOSE x \in S : \A y \in S : x <= y IN <<m>> \o SortedSeq(S \ {m})
\* ScanExistingChunks: names that match a chunk id, sorted; temporary files never match
Scan == s.phase = "dead" /\ s' = [s EXCEPT !.phase = "recover", !.rq = SortedSeq({i \in 1..K : s.file[i] # NOFILE})]
\* LoadChunk + loadToOutput: the feeder reads the file and pushes the chunk to the output channel ...
LoadOk ==
  /\ s.phase = "recover" /\ s.rq # <<>> /\ s.file[Head(s.rq)] > 0
  /\ s' = [s EXCEPT !.rq = Tail(@), !.lq = Append(@, <<Head(s.rq), s.file[Head(s.rq)]>>)]
\* ... from which the consumer takes it
Forward ==
  /\ s.phase = "recover" /\ s.lq # <<>>
  /\ s' = [s EXCEPT !.lq = Tail(@), !.forwarded = Append(@, Head(s.lq))]
LoadCorrupt ==   \* zero-length file: OnChunkCorrupted: unlink, count
  /\ s.phase = "recover" /\ s.rq # <<>> /\ s.file[Head(s.rq)] = 0
  /\ s' = [s EXCEPT !.rq = Tail(@), !.corrupt = @ \cup {Head(s.rq)}, !.file[Head(s.rq)] = NOFILE]
LoadFails ==     \* read error: counted as dropped, the file stays, recovery goes on
  /\ s.phase = "recover" /\ s.rq # <<>>
  /\ s' = [s EXCEPT !.rq = Tail(@), !.readFailed = @ \cup {Head(s.rq)}]
RecoveryDone == s.phase = "recover" /\ s.rq = <<>> /\ s.lq = <<>> /\ s' = [s EXCEPT !.phase = "done"]

Next == (\E i \in 1..K, l \in Lens : Persist(i, l)) \/ OpenTemp \/ OpenFails \/ (\E k \in 1..3 : Write(k)) \/ WriteFails \/ CleanupTemp
        \/ CloseTemp \/ Rename \/ Crash \/ Respawn \/ (\E i \in 1..K : DamageZero(i)) \/ Scan \/ LoadOk \/ Forward \/ LoadCorrupt \/ LoadFails \/ RecoveryDone
Spec == Init /\ [][Next]_vars

(***************************** properties *****************************)
\* whatever is forwarded is complete: never a truncated chunk upstream
NeverTruncatedUpstream == \A i \in 1..Len(s.forwarded) : s.forwarded[i][2] = s.n[s.forwarded[i][1]]
\* UnloadChunk reports success (and releases the memory) only if the whole chunk is in a file under its own name
MarkedSavedOnlyIfWhole == s.phase = "victim" => \A i \in s.saved \ s.zeroed : s.file[i] = s.n[i]
\* a file under a chunk's own name is always complete (this is what makes recovery safe)
ChunkNamesAreWhole == \A i \in 1..K : s.file[i] = NOFILE \/ s.file[i] = s.n[i] \/ (i \in s.zeroed /\ s.file[i] = 0)
\* a damaged or partial file never blocks the others: after recovery every complete chunk file was forwarded, in order,
\* unless its read failed
BadFileDoesNotBlock ==
  s.phase = "done" =>
    /\ \A i \in s.saved : i \in s.readFailed \/ i \in s.corrupt \/ \E j \in 1..Len(s.forwarded) : s.forwarded[j][1] = i
    /\ \A i, j \in 1..Len(s.forwarded) : i < j => s.forwarded[i][1] < s.forwarded[j][1]
\* what the victim reported as not saved is not forwarded by the recovery
FailedNotForwarded == \A j \in 1..Len(s.forwarded) : s.forwarded[j][1] \notin s.failed
=============================================================================
