SPECIFICATION TSpec
CONSTANTS
 TraceFile = "trace.ndjson"
 MaxObj = 3000
 Outputs = 2
CONSTRAINT HWM
POSTCONDITION Accepted_
CHECK_DEADLOCK FALSE
