---------------------------- MODULE DurableFifo ----------------------------
(***************************************************************************
 What the rest of the agent (Agent.tla, C01) relies on from one pipeline's
 buffer, without goroutines, channels, gauges or program counters: a chunk that
 was accepted is at any time unresolved, confirmed or counted as dropped; it is
 resolved at most once and for good; a file exists only for an accepted chunk
 and is removed only once the chunk is confirmed or dropped (a dropped chunk's
 file may stay: the overflow path of bufferer.Accept keeps it for the next
 start).  HybridBuffer implements this specification under the refinement
 mapping of HybridBufferRef.tla (checked by TLC as a temporal property).
 ***************************************************************************)
EXTENDS Naturals, FiniteSets
CONSTANT MaxId
Ids == 1..MaxId
VARIABLES acc, conf, drop, disk
dvars == <<acc, conf, drop, disk>>
DInit == acc = {} /\ conf = {} /\ drop = {} /\ disk = {}
Unresolved == acc \ (conf \cup drop)
DAccept(i)  == i \notin acc /\ acc' = acc \cup {i} /\ UNCHANGED <<conf, drop, disk>>
DSave(i)    == i \in Unresolved /\ i \notin disk /\ disk' = disk \cup {i} /\ UNCHANGED <<acc, conf, drop>>
\* the consumer confirmed it; its file (if any) goes before, with or after the confirmation
\* (a chunk counted as dropped while its file stayed - load error, queue overflow of a spilled chunk - comes back at the
\* next start and can still be confirmed: found by TLC on the first version of this module, which demanded conf \cap drop = {})
DConfirm(i) == i \in acc \ conf /\ conf' = conf \cup {i} /\ disk' \in {disk, disk \ {i}} /\ UNCHANGED <<acc, drop>>
DDrop(i)    == i \in Unresolved /\ drop' = drop \cup {i} /\ disk' \in {disk, disk \ {i}} /\ UNCHANGED <<acc, conf>>
\* the file of a chunk in the consumer's hands (about to be confirmed) or of a resolved chunk is removed
DUnlink(i)  == i \in disk /\ disk' = disk \ {i} /\ UNCHANGED <<acc, conf, drop>>
DNext == \E i \in Ids : DAccept(i) \/ DSave(i) \/ DConfirm(i) \/ DDrop(i) \/ DUnlink(i)
DSpec == DInit /\ [][DNext]_dvars
\* consequences the agent-level specification uses
ConfirmedOnceAndForGood == [][conf \subseteq conf']_dvars
FilesOfAccepted == disk \subseteq acc
=============================================================================
