SPECIFICATION Spec
CONSTANTS
 Alphabet <- AlphabetDef
 NKeys = 2
INVARIANTS Injective Reattach
CHECK_DEADLOCK FALSE
