SPECIFICATION Spec
CONSTANTS
 MaxConn = 2
 MaxSent = 3
INVARIANTS Alive Listening EveryRecordCounted NeighboursIntact
PROPERTIES SentinelsDelivered AcceptsAgain
CHECK_DEADLOCK FALSE
