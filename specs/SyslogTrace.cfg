SPECIFICATION Spec
CONSTANTS
 TraceFile = "trace.ndjson"
 MaxMsg = 12
 MinLen = 32
CONSTRAINT HWM
POSTCONDITION Accepted_
CHECK_DEADLOCK FALSE
