SPECIFICATION Spec
CONSTANTS
 NChunks = 4
 AckCap = 2
 Faults = 4
 AllowStop = TRUE
 MaxSoft = 2
 AllowSteal = TRUE
 InOrderAck = TRUE
 LiveSoft = FALSE
INVARIANTS TypeOK AckBeforeConfirm ResolvedAtMostOnce ResolvedExactlyOnce TrackedSomewhere NoCallbackAfterFinish OldestFirst LeftoversSorted MetricsBalance
CHECK_DEADLOCK FALSE
