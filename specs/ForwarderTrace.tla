---------------------------- MODULE ForwarderTrace ----------------------------
(***************************************************************************
 Trace validation for Forwarder: every event recorded from the real
 baseoutput.ClientWorker (fake connection, callbacks, bracketed environment,
 verif hooks) must be explained by a behaviour of Forwarder.  Events only
 CONFIRM steps; hand-offs through channels, abortConn calls, timer expiry
 and the stop callback goroutine are silent steps (at most MaxSilent in a
 row).  Many traces are concatenated, separated by RESET events.
 ***************************************************************************)
EXTENDS Forwarder, Json

CONSTANTS MaxSilent, TraceFile

Trace == ndJsonDeserialize(TraceFile)

VARIABLES l,      \* position in Trace
          sil,    \* silent steps since the last consumed event
          envp,   \* phase of the bracketed environment action
          chk     \* number of `consumed` entries confirmed by a Consumed callback event
tvars == <<s, l, sil, envp, chk>>

E == Trace[l]
IsEv(name) == l <= Len(Trace) /\ Trace[l].ev = name
Consume == l' = l + 1 /\ sil' = 0
Silent  == l' = l /\ sil < MaxSilent /\ sil' = sil + 1
Keep    == UNCHANGED <<envp, chk>>
SetOf(q) == {q[i] : i \in 1..Len(q)}

TInit == s = S0 /\ l = 1 /\ sil = 0 /\ envp = "none" /\ chk = 0 /\ TLCSet(1, 1)

(* ---------------- environment (bracketed) ---------------- *)
TFeedBegin  == IsEv("FeedBegin") /\ envp = "none" /\ envp' = "feed" /\ Consume /\ UNCHANGED <<s, chk>>
TFeedDo     == envp = "feed" /\ Feed /\ envp' = "fed" /\ Silent /\ UNCHANGED chk
TFeedEnd    == IsEv("FeedEnd") /\ envp = "fed" /\ E.id = s.fed /\ envp' = "none" /\ Consume /\ UNCHANGED <<s, chk>>
TCloseBegin == IsEv("CloseBegin") /\ envp = "none" /\ envp' = "close" /\ Consume /\ UNCHANGED <<s, chk>>
TCloseDo    == envp = "close" /\ CloseInput /\ envp' = "closed" /\ Silent /\ UNCHANGED chk
TCloseEnd   == IsEv("CloseEnd") /\ envp = "closed" /\ envp' = "none" /\ Consume /\ UNCHANGED <<s, chk>>
TStopBegin  == IsEv("StopBegin") /\ envp = "none" /\ envp' = "stop" /\ Consume /\ UNCHANGED <<s, chk>>
TStopDo     == envp = "stop" /\ SignalStop /\ envp' = "stopped" /\ Silent /\ UNCHANGED chk
TStopEnd    == IsEv("StopEnd") /\ envp = "stopped" /\ envp' = "none" /\ Consume /\ UNCHANGED <<s, chk>>
TStealBegin == IsEv("StealBegin") /\ envp = "none" /\ envp' = "steal" /\ Consume /\ UNCHANGED <<s, chk>>
TStealDo    == envp = "steal" /\ Steal /\ envp' = "stole" /\ Silent /\ UNCHANGED chk
TStealEnd   == /\ IsEv("StealEnd") /\ Consume /\ envp' = "none" /\ UNCHANGED <<s, chk>>
               /\ \/ E.id = 0 /\ envp = "steal" /\ s.inq = <<>>
                  \/ E.id # 0 /\ envp = "stole" /\ E.id \in s.stolen /\ (\A x \in s.stolen : x <= E.id)

(* ---------------- stop callback goroutine: invisible ---------------- *)
TCb == (CbLoad \/ CbAbort) /\ Silent /\ Keep

(* ---------------- worker + dialer ---------------- *)
TDial == /\ IsEv("Dial") /\ Consume /\ Keep
         /\ \/ DialResult(E.out = "ok") /\ (E.out = "ok" => E.conn = s.connNo + 1)
            \/ OrphanDial
TWorkerSilent == (DialSeesStop \/ WorkerRecvFail \/ WorkerRecvOk \/ StoreSession \/ SessionDeferAbort \/ SessionClear
                  \/ RetryTimeout \/ RetrySeesStop) /\ Silent /\ Keep
TSessionStart == IsEv("SessionStart") /\ SessionStart /\ Consume /\ Keep
TPolicy   == IsEv("Policy") /\ E.p = s.policy /\ E.n = Len(s.left) /\ Dispatch /\ Consume /\ Keep
TLeftover == IsEv("Leftover") /\ s.left # <<>> /\ Head(s.left) = E.id /\ HandBack /\ Consume /\ Keep
TFinished == IsEv("Finished") /\ Finish /\ Consume /\ Keep

(* ---------------- connection close: the winner of the RunOnce is inside conn.Close ---------------- *)
TConnClose == IsEv("ConnClose") /\ E.conn = s.connNo /\ DoClose /\ Consume /\ Keep

(* ---------------- sender ---------------- *)
TResend == /\ IsEv("Resend") /\ Consume /\ Keep
           /\ \/ E.branch = "stop" /\ ResendSeesStop
              \/ E.branch = "pop" /\ s.left # <<>> /\ Head(s.left) = E.id /\ ResendPop
              \/ E.branch = "empty" /\ ResendEmpty
TNormal == /\ IsEv("Normal") /\ Consume /\ Keep
           /\ \/ E.branch = "pop" /\ s.cur = E.id /\ NormalPop
              \/ E.branch = "closed" /\ NormalSeesClosed
              \/ E.branch = "soft" /\ SoftReconnect
TPing == /\ IsEv("PingEnd") /\ E.conn = s.connNo /\ Consume /\ Keep
         /\ \/ E.out = "ok" /\ PingOk
            \/ E.out = "err" /\ PingErr
TSend == /\ IsEv("SendEnd") /\ E.id = s.cur /\ E.conn = s.connNo /\ Consume /\ Keep
         /\ \/ E.out = "ok" /\ SendOk
            \/ E.out = "err" /\ SendErr(E.got)
TEnq == /\ IsEv("Enq") /\ E.id = s.cur /\ Consume /\ Keep
        /\ \/ E.branch = "ok" /\ EnqOk
           \/ E.branch = "stop" /\ EnqSeesStop
           \/ E.branch = "ackerEnded" /\ EnqSeesAckerEnded
TSenderSilent == (ResendEmptyDo \/ NormalPopDo \/ SenderAbort \/ EnqDo \/ Collect1 \/ SoftWaitDone \/ SoftWaitTimeout \/ Collect2a \/ Collect2b)
                 /\ Silent /\ Keep
\* the merge is logged with its five parts; every part must be what the model holds, and the result must be the
\* model's sorted, duplicate-free union
TCollected ==
  /\ IsEv("Collected") /\ Consume /\ Keep
  /\ E.prev = (IF s.prevOpen THEN s.left ELSE <<>>)
  /\ E.chan = s.ackq
  /\ SetOf(E.unack) = s.unacked /\ Len(E.unack) = Cardinality(s.unacked)
  /\ E.inproc = (IF s.last = NONE THEN 0 ELSE 1)
  /\ E.ending = (IF s.ending = "soft" THEN "waitPendingChunks" ELSE "endImmediately")
  /\ Merge
  /\ E.result = s'.left

(* ---------------- acknowledger ---------------- *)
TAckerSilent == (AckerPop \/ AckerSeesClosed \/ AckerSeesAbort \/ AckerAbort) /\ Silent /\ Keep
TAckerTake == IsEv("AckerTake") /\ s.anext = E.id /\ AckerTake /\ Consume /\ Keep
TAckerEnd  == /\ IsEv("AckerEnd") /\ SetOf(E.pending) = s.pend /\ Len(E.pending) = Cardinality(s.pend)
              /\ AckerEnd /\ Consume /\ Keep
TAckRead == /\ IsEv("AckReadEnd") /\ E.conn = s.connNo /\ Consume /\ Keep
            /\ \/ E.out = "ack" /\ AckRead(E.id)
               \/ E.out = "inorder" /\ AckInOrder
               \/ E.out = "garbage" /\ AckGarbage
               \/ E.out = "err" /\ AckErr
\* the OnChunkConsumed callback confirms, in order, what the model decided at the ACK
TConsumed == /\ IsEv("Consumed") /\ chk < Len(s.consumed) /\ s.consumed[chk + 1] = E.id
             /\ chk' = chk + 1 /\ Consume /\ UNCHANGED <<s, envp>>

(* ---------------- end of a trace ---------------- *)
\* the metric registry after the worker finished
TMetrics == /\ IsEv("Metrics") /\ Consume /\ UNCHANGED <<s, envp, chk>>
            /\ s.wpc = "done"
            /\ E.forwarded = s.mFwd /\ E.acknowledged = s.mAck /\ E.attempts = s.mAttempts /\ E.opened = s.mOpen
            /\ E.pendingAck = s.gPend /\ E.leftover = s.gLeft
TReset == /\ IsEv("RESET") /\ s.wpc = "done" /\ chk = Len(s.consumed) /\ envp = "none"
          /\ s' = S0 /\ envp' = "none" /\ chk' = 0 /\ Consume

TNext ==
  \/ TFeedBegin \/ TFeedDo \/ TFeedEnd \/ TCloseBegin \/ TCloseDo \/ TCloseEnd \/ TStopBegin \/ TStopDo \/ TStopEnd
  \/ TStealBegin \/ TStealDo \/ TStealEnd \/ TCb
  \/ TDial \/ TWorkerSilent \/ TSessionStart \/ TPolicy \/ TLeftover \/ TFinished \/ TConnClose
  \/ TResend \/ TNormal \/ TPing \/ TSend \/ TEnq \/ TSenderSilent \/ TCollected
  \/ TAckerSilent \/ TAckerTake \/ TAckerEnd \/ TAckRead \/ TConsumed
  \/ TMetrics \/ TReset

TSpec == TInit /\ [][TNext]_tvars

\* acceptance: the whole trace was consumed (high-water mark of l; needs -workers 1)
HWM == IF l > TLCGet(1) THEN TLCSet(1, l) ELSE TRUE
Accepted == IF TLCGet(1) = Len(Trace) + 1 THEN TRUE
            ELSE PrintT(<<"HWM", TLCGet(1), Trace[TLCGet(1)]>>) /\ FALSE
=============================================================================
