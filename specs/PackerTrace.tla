---------------------------- MODULE PackerTrace ----------------------------
(***************************************************************************
 Lock-step validation of the real chunk makers (fluentdforward in its three
 message modes, datadog) against Packer: every WriteStream / FlushBuffer is
 logged with the chunk it returned, decoded by a path independent of the
 encoder (generic MessagePack / gzip + JSON): tag, option.chunk, option.size,
 the record stamps and the body size.
 ***************************************************************************)
EXTENDS Packer, Json
CONSTANTS TraceFile, Tag
Trace == ndJsonDeserialize(TraceFile)
VARIABLES l, topen
E == Trace[l]
TInit == input = <<>> /\ open = <<>> /\ emitted = <<>> /\ l = 1 /\ topen = <<>> /\ TLCSet(1, 1)
Stamps(recs) == [i \in 1..Len(recs) |-> recs[i][1]]
\* the chunk the real maker returned must be the one the model closes, and be self-describing
AgreeChunk(r) ==
  IF r.out = NOCHUNK THEN ~E.has
  ELSE /\ E.has /\ E.wellformed
       /\ E.stamps = Stamps(r.out)
       /\ E.count = Len(r.out)                  \* option.size / array header / number of JSON objects
       /\ E.idEqualsName                        \* option.chunk = LogChunk.ID (the storage name)
       /\ E.idIncreasing                        \* unique, increasing ids
       /\ E.tag = Tag                          \* the pipeline's tag, byte for byte (both sides hex encoded: tags are arbitrary bytes)
       /\ E.body = BodySize(r.out)
       /\ (Len(r.out) > 1 => /\ (MaxRecords > 0 => Len(r.out) <= MaxRecords)
                             /\ (MaxBytes > 0 => E.body <= MaxBytes))
Agree(r) ==
  /\ E.prevIntact          \* a chunk handed out earlier is not changed by what the maker does afterwards
  /\ AgreeChunk(r)
TNext ==
  /\ l <= Len(Trace) /\ l' = l + 1 /\ UNCHANGED vars
  /\ CASE E.op = "new"   -> topen' = <<>>
       [] E.op = "write" -> LET r == WriteStep(topen, <<E.stamp, E.size>>) IN Agree(r) /\ topen' = r.open
       [] E.op = "flush" -> LET r == FlushStep(topen) IN Agree(r) /\ topen' = r.open
TSpec == TInit /\ [][TNext]_<<l, topen, vars>>
HWM == IF l > TLCGet(1) THEN TLCSet(1, l) ELSE TRUE
Accepted_ == IF TLCGet(1) = Len(Trace) + 1 THEN TRUE
             ELSE PrintT(<<"HWM", TLCGet(1), Trace[TLCGet(1)]>>) /\ FALSE
=============================================================================
