----------------------------- MODULE RecordPool -----------------------------
(***************************************************************************
 C12 - records are isolated from each other despite pooling and buffer reuse.

 base/logallocator.go: record objects come from a pool (sync.Pool: any pooled
 object, or a fresh one) with a reference count raised by the number of outputs;
 Release lowers it and, at zero, clears every field slot, the length and the
 timestamp and puts the object back.  input/syslogparser Parse writes the header
 slots, the timestamp (fallback) and the Unescaped flag of every record, and
 leaves the optional slots (class, task, vhost, ...) to the extraction
 transforms, which write them only for records that have the value.
 base/bsupport/logprocessingworker.go: after the transforms a record is
 serialized once per output, each followed by one Release; a record dropped by a
 filter or refused by the parser is released once.

 Every slot carries the provenance of its content: 0 = empty, k = written for
 record k.  The allocator part of every action (AllocNew, AllocRelease, AllocRecycle) is what the trace
 specification RecordPoolTrace replays against the real LogAllocator.
 ***************************************************************************)
EXTENDS Naturals, FiniteSets
CONSTANTS Objs, MaxRecs, Outputs
Slots == {"hdr", "opt", "xf", "ts", "flag"}     \* header fields; optional fields; transform-made fields; timestamp; Unescaped
Cleared == {"hdr", "opt", "xf", "ts"}            \* what Release clears (logallocator.go Release); the flag is re-initialised by the parser

VARIABLES where,   \* Objs -> "fresh" | "pool" | "live" | "leaked"
          refs,    \* Objs -> reference count
          owner,   \* Objs -> record the object currently carries (0 = none)
          slot,    \* Objs -> Slots -> provenance
          stage,   \* Objs -> "parsed" | "transformed" | "serializing" (of live objects)
          done,    \* Objs -> number of outputs already serialized
          next     \* next record number
avars == <<where, refs>>
vars == <<where, refs, owner, slot, stage, done, next>>

\* --- allocator part (replayed by the trace specification) ---------------------------------------------------------
AllocNew(o, n) == /\ where[o] \in {"fresh", "pool"}
                  /\ where' = [where EXCEPT ![o] = "live"]
                  /\ refs' = [refs EXCEPT ![o] = @ + n]
AllocRelease(o) == /\ where[o] = "live" /\ refs[o] > 1              \* not the last reference
                   /\ refs' = [refs EXCEPT ![o] = @ - 1] /\ UNCHANGED where
AllocRecycle(o) == /\ where[o] = "live" /\ refs[o] = 1              \* the last reference: cleared and pooled
                   /\ refs' = [refs EXCEPT ![o] = 0]
                   /\ where' = [where EXCEPT ![o] = "pool"]
RefcountSane == \A o \in Objs : /\ (where[o] = "pool" => refs[o] = 0)
                                /\ (where[o] = "live" => refs[o] \in 1..Outputs)

\* --- the whole life of a record -------------------------------------------------------------------------------------
Init == /\ where = [o \in Objs |-> "fresh"] /\ refs = [o \in Objs |-> 0] /\ owner = [o \in Objs |-> 0]
        /\ slot = [o \in Objs |-> [s \in Slots |-> 0]] /\ stage = [o \in Objs |-> "none"] /\ done = [o \in Objs |-> 0]
        /\ next = 1
\* Parse: allocation + the slots the parser writes for every record
Parse(o) == /\ next <= MaxRecs /\ AllocNew(o, Outputs)
            /\ owner' = [owner EXCEPT ![o] = next]
            /\ slot' = [slot EXCEPT ![o]["hdr"] = next, ![o]["ts"] = next, ![o]["flag"] = next]
            /\ stage' = [stage EXCEPT ![o] = "parsed"] /\ done' = [done EXCEPT ![o] = 0]
            /\ next' = next + 1
\* the parser refuses the record after allocating it (syslogparser.go onMalformed): one Release
Refuse(o) == /\ where[o] = "live" /\ stage[o] = "parsed"
             /\ IF refs[o] = 1 THEN AllocRecycle(o) /\ slot' = [slot EXCEPT ![o] = [s \in Slots |-> IF s \in Cleared THEN 0 ELSE @[s]]]
                ELSE AllocRelease(o) /\ UNCHANGED slot
             /\ stage' = [stage EXCEPT ![o] = "gone"] /\ UNCHANGED <<owner, done, next>>
\* extractions and transforms: the optional and derived slots are written only for records that have the value
Transform(o, hasOpt, hasXf) ==
  /\ where[o] = "live" /\ stage[o] = "parsed"
  /\ slot' = [slot EXCEPT ![o]["opt"] = IF hasOpt THEN owner[o] ELSE @, ![o]["xf"] = IF hasXf THEN owner[o] ELSE @]
  /\ stage' = [stage EXCEPT ![o] = "transformed"] /\ UNCHANGED <<where, refs, owner, done, next>>
\* a filter drops the record: one Release (logprocessingworker.go onInput)
Drop(o) == /\ where[o] = "live" /\ stage[o] = "transformed" /\ done[o] = 0
           /\ IF refs[o] = 1 THEN AllocRecycle(o) /\ slot' = [slot EXCEPT ![o] = [s \in Slots |-> IF s \in Cleared THEN 0 ELSE @[s]]]
              ELSE AllocRelease(o) /\ UNCHANGED slot
           /\ stage' = [stage EXCEPT ![o] = "gone"] /\ UNCHANGED <<owner, done, next>>
\* one output serializes the record (reads every slot) and releases its reference
SerializeRelease(o) ==
  /\ where[o] = "live" /\ stage[o] = "transformed" /\ done[o] < Outputs
  /\ done' = [done EXCEPT ![o] = @ + 1]
  /\ IF refs[o] = 1 THEN AllocRecycle(o) /\ slot' = [slot EXCEPT ![o] = [s \in Slots |-> IF s \in Cleared THEN 0 ELSE @[s]]]
     ELSE AllocRelease(o) /\ UNCHANGED slot
  /\ UNCHANGED <<owner, stage, next>>
Next == \E o \in Objs : \/ Parse(o) \/ Refuse(o) \/ Drop(o) \/ SerializeRelease(o)
                        \/ \E a, b \in BOOLEAN : Transform(o, a, b)
Spec == Init /\ [][Next]_vars

\* --- properties -------------------------------------------------------------------------------------------------------
TypeOK == /\ where \in [Objs -> {"fresh", "pool", "live"}] /\ refs \in [Objs -> 0..Outputs]
          /\ slot \in [Objs -> [Slots -> 0..MaxRecs]]
\* everything an output can read from a record was written for that record
NoForeignProvenance == \A o \in Objs : where[o] = "live" /\ stage[o] \in {"parsed", "transformed"} =>
                          \A s \in Slots : slot[o][s] \in {0, owner[o]}
\* a pooled object is clean (what the hook alloc.new observes as stale = 0)
PooledIsClean == \A o \in Objs : where[o] = "pool" => \A s \in Cleared : slot[o][s] = 0
\* a record that a filter drops or the parser refuses with two outputs keeps one reference: the object is never pooled
\* again (it is left to the garbage collector) - not a violation, but stated so that it is not mistaken for one
LeakedNeverReused == \A o \in Objs : where[o] = "live" /\ stage[o] = "gone" => refs[o] = Outputs - 1
=============================================================================
