---------------------------- MODULE FramingListenerTrace ----------------------------
(***************************************************************************
 Observer for the real TCP line listener (tcplinelistener.go runConnection +
 NetConnWrapper deadlines + multiLineReader) driven over real TCP: it consumes
 what the connection's receiver sink saw (Accept / Flush / Close), the client's
 writes and the whole stream, and checks at Close
   - the valid records against Framing!Ref(stream): every record start delivered exactly once, in order, with a prefix of
     its lines; all of its lines if no flush happened at all;
   - the periodic flush really is periodic: at most one flush per flush interval of elapsed time (a flush after every
     read would tear multi-line records apart whenever they span two segments).
 ***************************************************************************)
EXTENDS Framing, Json
CONSTANTS TraceFile
Trace == ndJsonDeserialize(TraceFile)
VARIABLES l, o
tvars == <<l, o>>
E == Trace[l]
O0 == [stream |-> <<>>, interval |-> 1, acc |-> <<>>, nflush |-> 0, t0 |-> -1, closed |-> FALSE]
TInit == stream = <<>> /\ pos = 0 /\ buf = <<>> /\ search = 0 /\ emitted = <<>> /\ flushed = FALSE /\ done = FALSE
         /\ l = 1 /\ o = O0 /\ TLCSet(1, 1)
TNext ==
  /\ l <= Len(Trace) /\ l' = l + 1 /\ UNCHANGED vars
  /\ CASE E.ev = "Stream" -> o' = [O0 EXCEPT !.stream = E.bytes, !.interval = E.intervalUs]
       [] E.ev = "Seg"    -> o' = [o EXCEPT !.t0 = IF o.t0 < 0 THEN E.t ELSE @]
       [] E.ev = "Accept" -> ~o.closed /\ o' = [o EXCEPT !.acc = Append(@, E.rec)]
       [] E.ev = "Flush"  -> ~o.closed /\ o' = [o EXCEPT !.nflush = @ + 1]
       [] E.ev = "Close"  ->
            /\ ~o.closed /\ o' = [o EXCEPT !.closed = TRUE]
            /\ LET v == ValidOnly(o.acc)
                   r == Ref(o.stream)
               IN /\ Len(v) = Len(r) /\ \A i \in 1..Len(v) : FirstLine(v[i]) = FirstLine(r[i]) /\ IsPrefix(v[i], r[i])
                  /\ (o.nflush <= 1 => v = r)      \* (the final Flush before Close is always there)
                  /\ o.nflush <= 3 + (E.t - o.t0) \div o.interval
       [] E.ev = "RESET"  -> o.closed /\ o' = O0
       [] OTHER -> FALSE      \* HUNG, Panic, HarnessError, ...: no action explains them
TSpec == TInit /\ [][TNext]_<<tvars, vars>>
HWM == IF l > TLCGet(1) THEN TLCSet(1, l) ELSE TRUE
Accepted_ == IF TLCGet(1) = Len(Trace) + 1 THEN TRUE
             ELSE PrintT(<<"HWM", TLCGet(1), Trace[TLCGet(1)]>>) /\ FALSE
=============================================================================
