SPECIFICATION Spec
CONSTANTS
 NChunks = 2
 AckCap = 1
 Faults = 1
 AllowStop = TRUE
 MaxSoft = 1
 AllowSteal = TRUE
 InOrderAck = TRUE
 LiveSoft = FALSE
PROPERTIES Refines
CHECK_DEADLOCK FALSE
