---------------------------- MODULE Sampling ----------------------------
(***************************************************************************
 The sampled drop of transform/tdrop as an integer state machine, for an
 unbounded inductive argument (Apalache): with m = matched and d = dropped,
    a record is dropped iff m > 0 and 100 * d < Rate * m.
 Inductive invariant: Rate*m - 100 <= 100*d <= Rate*m + 100 (within one record of
 the configured percentage at every prefix of the matched stream).
 ***************************************************************************)
EXTENDS Integers
CONSTANT
  \* @type: Int;
  Rate
VARIABLES
  \* @type: Int;
  m,
  \* @type: Int;
  d
ConstInit == Rate \in 1..99
Init == m = 0 /\ d = 0
Next == IF m > 0 /\ 100 * d < Rate * m THEN m' = m + 1 /\ d' = d + 1 ELSE m' = m + 1 /\ d' = d
IndInv == m >= 0 /\ d >= 0 /\ d <= m /\ 100 * d >= Rate * m - 100 /\ 100 * d <= Rate * m + 100
IndInit == Rate \in 1..99 /\ m \in Int /\ d \in Int /\ IndInv
=============================================================================
