SPECIFICATION TSpec
CONSTANTS
 MaxLen = 9
 BufSize = 12
 SoftLimit = 4
 AllowFlush = TRUE
 TraceFile = "trace.ndjson"
CONSTRAINT HWM
POSTCONDITION Accepted_
CHECK_DEADLOCK FALSE
