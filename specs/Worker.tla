---------------------------- MODULE Worker ----------------------------
(***************************************************************************
 The processing worker of one pipeline:
   base/bsupport/pipelineworkerbase.go   _baseRun / _baseProcessMain (select on the input channel and a ticker)
   base/bsupport/logprocessingworker.go  onInput / onTick / onStop / flushChunk
 together with the chunk makers it writes to (output/*/ chunk makers: a chunk is
 closed when the next record does not fit any more - it holds MaxChunk records -
 or on FlushBuffer).  Batches of records
 arrive on the input channel; a record is dropped by the transforms or written
 to every output's open chunk, in output order; a chunk that cannot take the next
 record is handed to that output's buffer and the record opens the next one; a tick hands over every open chunk once
 the worker is older than one flush interval (the code compares with the time
 of its creation - lastChunkTime is never renewed - so from then on every tick
 flushes); when the input channel is closed the worker runs one more tick and
 the stop flush, then signals that it has stopped.

 What C01 / C05 / C11 rely on from this part:
   NothingHeldBack   after the stop every passed record is in a handed-over chunk of every output
   ExactlyOncePerOutput / InOrder   ... once, in arrival order
   NoEmptyChunk, ChunkWithinLimit
   NothingAfterStopped   no chunk is handed over after the stop signal
 ***************************************************************************)
EXTENDS Integers, Sequences, FiniteSets, TLC

CONSTANTS Outs,       \* number of outputs (1..Outs)
          MaxChunk,   \* records per chunk (fluentd chunkMaxRecords)
          Cap,        \* capacity of the input channel
          MaxRecs, MaxBatch, MaxTicks   \* MC bounds

VARIABLES s
vars == <<s>>

\* a record: [id |-> n, drop |-> BOOLEAN]
S0 == [ chan |-> <<>>, closed |-> FALSE,       \* the input channel: batches not yet taken; closed by the orchestrator
        cur |-> <<>>,                          \* rest of the batch in hand
        o |-> 0,                               \* next output the record in hand is written to (0 = the transforms have not run yet)
        open |-> [x \in 1..Outs |-> <<>>],     \* ids in the open chunk of output x
        handed |-> [x \in 1..Outs |-> <<>>],   \* chunks handed to the buffer of output x
        pc |-> "loop",                         \* loop | tick | lasttick | stopflush | stopped
        fo |-> 0,                              \* next output of a flush in progress
        aged |-> FALSE,                        \* one flush interval has passed since the worker was made
        passed |-> <<>>, dropped |-> {},       \* ids the transforms passed (in order) / dropped
        nrec |-> 0, nticks |-> 0 ]
Init == s = S0

\* ---- environment ----
Send(b) ==       \* the orchestrator sink flushes a batch into the channel
  /\ ~s.closed /\ Len(s.chan) < Cap /\ b # <<>>
  /\ s.nrec + Len(b) <= MaxRecs
  /\ s' = [s EXCEPT !.chan = Append(@, [i \in 1..Len(b) |-> [id |-> s.nrec + i, drop |-> b[i]]]), !.nrec = @ + Len(b)]
CloseInput == ~s.closed /\ s' = [s EXCEPT !.closed = TRUE]
Age == ~s.aged /\ s' = [s EXCEPT !.aged = TRUE]

\* ---- the worker goroutine ----
Pop ==           \* case value := <-input
  /\ s.pc = "loop" /\ s.cur = <<>> /\ s.chan # <<>>
  /\ s' = [s EXCEPT !.cur = Head(s.chan), !.chan = Tail(@), !.o = 0]
Transform ==     \* RunTransforms on the record in hand: DROP (counted, released) or pass
  /\ s.pc = "loop" /\ s.cur # <<>> /\ s.o = 0
  /\ LET r == Head(s.cur) IN
     s' = IF r.drop THEN [s EXCEPT !.cur = Tail(@), !.dropped = @ \cup {r.id}]
          ELSE [s EXCEPT !.o = 1, !.passed = Append(@, r.id)]
\* SerializeRecord + WriteStream for output s.o: when the open chunk cannot take the record (it holds MaxChunk records) the
\* open chunk is closed and handed over (AcceptChunk) and the record starts the next one - so right after a roll-over the
\* open chunk is never empty, and only a flush hands the last records over
WriteTo(x, rolls) ==
  /\ s.pc = "loop" /\ s.cur # <<>> /\ s.o = x
  /\ LET r == Head(s.cur)
         nxt == IF x = Outs THEN 0 ELSE x + 1
     IN /\ rolls = (Len(s.open[x]) >= MaxChunk)
        /\ s' = [s EXCEPT !.open[x] = IF rolls THEN <<r.id>> ELSE Append(@, r.id),
                          !.handed[x] = IF rolls THEN Append(@, s.open[x]) ELSE @,
                          !.o = nxt, !.cur = IF x = Outs THEN Tail(@) ELSE @]
Write == \E x \in 1..Outs, rolls \in BOOLEAN : WriteTo(x, rolls)
TickFires ==     \* case <-ticker.C (only between two batches: the loop is sequential)
  /\ s.pc = "loop" /\ s.cur = <<>> /\ s.nticks < MaxTicks
  /\ s' = [s EXCEPT !.nticks = @ + 1, !.pc = IF s.aged THEN "tick" ELSE "loop", !.fo = IF s.aged THEN 1 ELSE 0]
SeesClosed ==    \* the channel is closed and drained: leave the loop, run onTick once more, then onStop
  /\ s.pc = "loop" /\ s.cur = <<>> /\ s.chan = <<>> /\ s.closed
  /\ s' = [s EXCEPT !.pc = IF s.aged THEN "lasttick" ELSE "stopflush", !.fo = 1]
\* flushChunk: FlushBuffer + AcceptChunk per output, in output order
FlushOut(x, gives) ==
  /\ s.pc \in {"tick", "lasttick", "stopflush"} /\ s.fo = x
  /\ gives = (s.open[x] # <<>>)
  /\ LET done == x = Outs IN
     s' = [s EXCEPT !.handed[x] = IF gives THEN Append(@, s.open[x]) ELSE @, !.open[x] = <<>>,
                    !.fo = IF done THEN (IF s.pc = "lasttick" THEN 1 ELSE 0) ELSE x + 1,
                    !.pc = IF ~done THEN @ ELSE IF s.pc = "tick" THEN "loop" ELSE IF s.pc = "lasttick" THEN "stopflush" ELSE "stopped"]
Flush == \E x \in 1..Outs, gives \in BOOLEAN : FlushOut(x, gives)

Batches == UNION {[1..n -> BOOLEAN] : n \in 1..MaxBatch}
Next == (\E b \in Batches : Send(b)) \/ CloseInput \/ Age \/ Pop \/ Transform \/ Write \/ TickFires \/ SeesClosed \/ Flush
Fair == WF_vars(Pop) /\ WF_vars(Transform) /\ WF_vars(Write) /\ WF_vars(SeesClosed) /\ WF_vars(Flush)
Spec == Init /\ [][Next]_vars
LiveSpec == Spec /\ Fair

\* ---- properties ----
RECURSIVE Cat(_)
Cat(q) == IF q = <<>> THEN <<>> ELSE Head(q) \o Cat(Tail(q))
IsPrefixOf(a, b) == Len(a) <= Len(b) /\ a = SubSeq(b, 1, Len(a))
\* every output sees the passed records in order, each once; what is not handed over yet is in the open chunk or in hand
InOrderOnce == \A x \in 1..Outs : IsPrefixOf(Cat(s.handed[x]) \o s.open[x], s.passed)
               /\ Len(s.passed) - Len(Cat(s.handed[x]) \o s.open[x]) <= 1
NothingHeldBack == s.pc = "stopped" => \A x \in 1..Outs : Cat(s.handed[x]) = s.passed /\ s.open[x] = <<>>
NoEmptyChunk == \A x \in 1..Outs : \A i \in 1..Len(s.handed[x]) : s.handed[x][i] # <<>>
ChunkWithinLimit == \A x \in 1..Outs : Len(s.open[x]) <= MaxChunk /\ \A i \in 1..Len(s.handed[x]) : Len(s.handed[x][i]) <= MaxChunk
Accounted == s.pc = "stopped" => Len(s.passed) + Cardinality(s.dropped) = s.nrec
NothingAfterStopped == [][s.pc = "stopped" => s'.handed = s.handed]_vars
\* once the input is closed the worker stops (no timer needed)
StopTerminates == s.closed ~> s.pc = "stopped"
=============================================================================
