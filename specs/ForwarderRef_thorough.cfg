SPECIFICATION Spec
CONSTANTS
 NChunks = 3
 AckCap = 2
 Faults = 2
 AllowStop = TRUE
 MaxSoft = 1
 AllowSteal = TRUE
 InOrderAck = FALSE
 LiveSoft = FALSE
PROPERTIES Refines
CHECK_DEADLOCK FALSE
