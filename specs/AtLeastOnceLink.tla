-------------------------- MODULE AtLeastOnceLink --------------------------
(***************************************************************************
 What the agent-level specification (Agent.tla, C01) relies on from the
 forwarding client of one pipeline, without sessions, goroutines or channels:
 every chunk the client took from the buffer is, at the end, confirmed to the
 buffer or handed back to it, exactly once; a confirmation is given only for a
 chunk the upstream received completely on the connection in use; the upstream may receive a chunk any
 number of times (at-least-once); nothing happens after the client finished.
 Forwarder implements this specification under the mapping of ForwarderRef.tla.
 ***************************************************************************)
EXTENDS Naturals, FiniteSets
CONSTANT MaxChunk
Chunks == 1..MaxChunk
VARIABLES taken, got, conf, back, fin
lvars == <<taken, got, conf, back, fin>>
LInit == taken = {} /\ got = {} /\ conf = {} /\ back = {} /\ fin = FALSE
Open == taken \ (conf \cup back)
LTake(c)     == ~fin /\ c \notin taken /\ taken' = taken \cup {c} /\ UNCHANGED <<got, conf, back, fin>>
\* a taken chunk that goes back to the input side unseen (the stop callback of the harness steals it) is simply not taken
LUntake(c)   == ~fin /\ c \in Open /\ c \notin got /\ taken' = taken \ {c} /\ UNCHANGED <<got, conf, back, fin>>
LTransmit(c) == ~fin /\ c \in taken /\ got' = got \cup {c} /\ UNCHANGED <<taken, conf, back, fin>>   \* also re-transmissions of resolved chunks' duplicates
LConfirm(c)  == ~fin /\ c \in Open /\ c \in got /\ conf' = conf \cup {c} /\ UNCHANGED <<taken, got, back, fin>>
LHandBack(c) == ~fin /\ c \in Open /\ back' = back \cup {c} /\ UNCHANGED <<taken, got, conf, fin>>
\* a new connection: what counts for a confirmation is what the upstream received on the connection that carries the ACK
LReconnect   == ~fin /\ got' = {} /\ UNCHANGED <<taken, conf, back, fin>>
LFinish      == ~fin /\ Open = {} /\ fin' = TRUE /\ UNCHANGED <<taken, got, conf, back>>
LNext == LFinish \/ LReconnect \/ \E c \in Chunks : LTake(c) \/ LUntake(c) \/ LTransmit(c) \/ LConfirm(c) \/ LHandBack(c)
LSpec == LInit /\ [][LNext]_lvars
=============================================================================
