SPECIFICATION Spec
INVARIANTS TypeOK ReferencesValidatedAtLoad AcceptedInstantiates FatalOnlyEnvironmental ValidIsAccepted
PROPERTIES EveryFileEnds
