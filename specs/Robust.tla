------------------------------- MODULE Robust -------------------------------
(***************************************************************************
 C07 - no input can crash or wedge the agent.

 The agent as a client sees it: a listener, connections, and for every record
 exactly two outcomes - refused and counted, or passed on (and then delivered,
 or dropped by a configured filter).  What a client can do: connect, send a
 well-formed record (a sentinel), send anything else, disconnect (orderly or
 by reset), and exhaust the agent's file descriptors for a while.  There is no
 crash action and no action that stops the listener: Alive and Listening are
 invariants of the design, the code is held to them by RobustTrace.
 ***************************************************************************)
EXTENDS Naturals, FiniteSets
CONSTANTS MaxConn,      \* file-descriptor budget for connections
          MaxSent       \* sentinels per behaviour (bound for model checking)

VARIABLES alive, listening, open, received, refused, passed, sent, delivered
vars == <<alive, listening, open, received, refused, passed, sent, delivered>>

Init == /\ alive = TRUE /\ listening = TRUE /\ open = 0
        /\ received = 0 /\ refused = 0 /\ passed = 0 /\ sent = {} /\ delivered = {}

Connect == listening /\ open < MaxConn /\ open' = open + 1
           /\ UNCHANGED <<alive, listening, received, refused, passed, sent, delivered>>
\* accept() fails while the descriptors are exhausted: the client is turned away, the listener stays (tcplinelistener.go run)
AcceptFails == listening /\ open = MaxConn /\ UNCHANGED vars
\* orderly close or reset, at any point of a record: the connection and its descriptor are released, whatever was
\* complete has been handed on, the partial tail is judged like any other record
Disconnect == open > 0 /\ open' = open - 1
              /\ UNCHANGED <<alive, listening, received, refused, passed, sent, delivered>>
\* a well-formed record
SendGood(id) == /\ open > 0 /\ id \notin sent /\ Cardinality(sent) < MaxSent
                /\ sent' = sent \cup {id} /\ received' = received + 1 /\ passed' = passed + 1
                /\ UNCHANGED <<alive, listening, open, refused, delivered>>
\* anything else a client can put on a line: refused and counted (syslogparser.go onMalformed), or taken as a record
\* with whatever fields it yields (over-long parts cut) - it never touches another record
SendBad == /\ open > 0 /\ received < 3 * MaxSent /\ received' = received + 1
           /\ \/ refused' = refused + 1 /\ UNCHANGED passed
              \/ passed' = passed + 1 /\ UNCHANGED refused
           /\ UNCHANGED <<alive, listening, open, sent, delivered>>
Deliver(id) == id \in sent \ delivered /\ delivered' = delivered \cup {id}
               /\ UNCHANGED <<alive, listening, open, received, refused, passed, sent>>

Next == Connect \/ AcceptFails \/ Disconnect \/ SendBad \/ \E id \in 1..MaxSent : SendGood(id) \/ Deliver(id)
Spec == Init /\ [][Next]_vars /\ \A id \in 1..MaxSent : WF_vars(Deliver(id))

Alive == alive
Listening == listening
EveryRecordCounted == received = refused + passed
NeighboursIntact == delivered \subseteq sent
SentinelsDelivered == \A id \in 1..MaxSent : (id \in sent) ~> (id \in delivered)
AcceptsAgain == []<>(ENABLED Connect \/ open > 0)
=============================================================================
