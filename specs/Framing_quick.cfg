SPECIFICATION Spec
CONSTANTS
 MaxLen = 7
 BufSize = 48
 SoftLimit = 16
 AllowFlush = TRUE
INVARIANTS FragmentationIndependent FlushIndependentForSingleLine NoRecordLostUnderFlush OffsetsSane
CHECK_DEADLOCK FALSE
