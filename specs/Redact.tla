---------------------------- MODULE Redact ----------------------------
(***************************************************************************
 Reference relation for e-mail redaction (transform/tredactemail).  The oracle
 is the RELATION the property demands between a text and its redacted form,
 not a second implementation, and it is one-sided wherever the statement
 leaves a choice open (so over-redaction of borderline candidates is no alarm):

   Preserving(in, out): out is in with disjoint spans replaced by "REDACTED";
       every replaced span consists of address characters around exactly one '@'
       which has a letter or digit on both sides in the input;
   Complete(out): with every REDACTED token masked, no '@' of out is the centre of
       an address that is unambiguously of the supported shape.

 Texts are sequences of byte values; inputs are lower case, so REDACTED tokens
 in the output are identifiable.
 ***************************************************************************)
EXTENDS Integers, Sequences, TLC

Letter(c) == (c >= 97 /\ c <= 122) \/ (c >= 65 /\ c <= 90)
Digit(c)  == c >= 48 /\ c <= 57
Word(c)   == Letter(c) \/ Digit(c)
Addr(c)   == Word(c) \/ c = 46 \/ c = 45 \/ c = 95          \* . - _
AT == 64
SLASH == 47
TOKEN == <<82, 69, 68, 65, 67, 84, 69, 68>>                  \* "REDACTED"

StartsWith(t, j, w) == j + Len(w) - 1 <= Len(t) /\ \A i \in 1..Len(w) : t[j + i - 1] = w[i]

\* span in[a..b] is Addr* '@' Addr* and its '@' has a letter/digit on both sides in the input
SpanOk(in, a, b) ==
  \E q \in a..b :
     /\ in[q] = AT /\ q > 1 /\ q < Len(in) /\ Word(in[q - 1]) /\ Word(in[q + 1])
     /\ \A i \in a..b : i # q => Addr(in[i])

\* Preserving: the pair <<Len(in)+1, Len(out)+1>> is reachable from <<1, 1>> where <<i, j>> means "out[1..j-1] is in[1..i-1]
\* with disjoint spans replaced by the token" (closure over pairs: polynomial, whatever the number of decompositions)
Succ(in, out, p) ==
  LET i == p[1]
      j == p[2]
  IN (IF i <= Len(in) /\ j <= Len(out) /\ in[i] = out[j] THEN {<<i + 1, j + 1>>} ELSE {})
     \cup (IF StartsWith(out, j, TOKEN)
            THEN {<<k + 1, j + 8>> : k \in {x \in i..Len(in) : (\A y \in i..x : Addr(in[y]) \/ in[y] = AT) /\ SpanOk(in, i, x)}}
            ELSE {})
RECURSIVE Close(_, _, _, _)
Close(in, out, frontier, seen) ==
  IF frontier = {} THEN seen
  ELSE LET nxt == (UNION {Succ(in, out, p) : p \in frontier}) \ seen
       IN Close(in, out, nxt, seen \cup nxt)
Preserving(in, out) == <<Len(in) + 1, Len(out) + 1>> \in Close(in, out, {<<1, 1>>}, {<<1, 1>>})

\* mask every byte of every token by a non-address symbol
InToken(t, j) == \E a \in (IF j > 7 THEN j - 7 ELSE 1)..j : StartsWith(t, a, TOKEN)
Masked(t) == [j \in 1..Len(t) |-> IF InToken(t, j) THEN 0 ELSE t[j]]

\* maximal runs of address characters around position q
RECURSIVE RunStart(_, _)
RunStart(t, i) == IF i >= 1 /\ Addr(t[i]) THEN RunStart(t, i - 1) ELSE i + 1
RECURSIVE RunEnd(_, _)
RunEnd(t, i) == IF i <= Len(t) /\ Addr(t[i]) THEN RunEnd(t, i + 1) ELSE i - 1

\* t[a..b] is an unambiguous domain: labels of letters/digits with inner hyphens, separated by single dots, at least two
\* labels or cut by the end of the text, not purely numeric
DomainOk(t, a, b) ==
  /\ \A i \in a..b : Word(t[i]) \/ t[i] = 46 \/ t[i] = 45
  /\ Word(t[a]) /\ Word(t[b])
  /\ \A i \in a..(b - 1) : ~(t[i] = 46 /\ t[i + 1] = 46)
  /\ \A i \in a..b : t[i] = 45 => (i > a /\ i < b /\ Word(t[i - 1]) /\ Word(t[i + 1]))
  /\ \A i \in a..b : t[i] = 46 => (Word(t[i - 1]) /\ Word(t[i + 1]))
  /\ ((\E i \in a..b : t[i] = 46) \/ b = Len(t))
  /\ \E i \in a..b : Letter(t[i])

\* an address that unambiguously has the supported shape is centred at the '@' at position q of t
AddressAt(t, q) ==
  /\ t[q] = AT /\ q > 1 /\ q < Len(t) /\ Word(t[q - 1]) /\ Word(t[q + 1])
  /\ LET ls == RunStart(t, q - 1)
         de == RunEnd(t, q + 1)
     IN /\ ~(ls > 1 /\ t[ls - 1] = SLASH)
        /\ Word(t[ls])
        /\ DomainOk(t, q + 1, de)
Complete(out) == LET m == Masked(out) IN \A q \in 1..Len(m) : m[q] = AT => ~AddressAt(m, q)

Check(e) ==
  /\ e.res # "panic"
  /\ Preserving(e.in, e.out)
  /\ Complete(e.out)
  /\ e.counted = (e.in # e.out)
=============================================================================
