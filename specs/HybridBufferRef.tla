--------------------------- MODULE HybridBufferRef ---------------------------
(* refinement: HybridBuffer (impl-shaped) implements DurableFifo (what Agent.tla assumes of a pipeline's buffer) *)
EXTENDS HybridBuffer
DF == INSTANCE DurableFifo WITH MaxId <- N * MaxGen + N,
        acc <- Accepted, conf <- s.confirmed, drop <- s.droppedSet, disk <- s.disk
Refines == DF!DSpec
FilesOfAcceptedImpl == DF!FilesOfAccepted
=============================================================================
