SPECIFICATION TSpec
CONSTANTS
 NChunks = 8
 AckCap = 2
 Faults = 100000
 AllowStop = TRUE
 MaxSoft = 100000
 AllowSteal = TRUE
 InOrderAck = FALSE
 LiveSoft = FALSE
 MaxSilent = 10
 TraceFile = "trace.ndjson"
CONSTRAINT HWM
INVARIANTS AckBeforeConfirm ResolvedAtMostOnce ResolvedExactlyOnce TrackedSomewhere NoCallbackAfterFinish OldestFirst LeftoversSorted MetricsBalance
POSTCONDITION Accepted
CHECK_DEADLOCK FALSE
