SPECIFICATION Spec
CONSTANTS
 Alphabet <- AlphabetDef
 NKeys = 1
INVARIANTS Injective Reattach
CHECK_DEADLOCK FALSE
