---------------------------- MODULE ListenerTrace ----------------------------
(***************************************************************************
 Observer for runs of the real TCP line listener with several scripted clients
 and a stop request (drv/ls).  The invariants of Listener.tla as they show at
 the receiver:
   OneUserPerNumber      NewSink never comes for a client number whose sink is still open
   UseOnlyOpen           Accept / Flush / Close only on an open sink; Close once
   StoppedMeansAllEnded  when Stopped is signalled every sink is closed, within the bound; nothing happens after it,
                         and the listening socket is gone
   NothingInvented       every delivered line was written by a client, and is delivered once
   OrderlyClientsServed  every line of a client that closed its connection at least 10 ms before the stop request is
                         delivered (a connection still in the kernel's backlog at the stop is turned away unread)
 ***************************************************************************)
EXTENDS Integers, Sequences, FiniteSets, TLC, Json
CONSTANTS TraceFile, StopBoundMs
Trace == ndJsonDeserialize(TraceFile)
VARIABLES l, o
E == Trace[l]
O0 == [open |-> {}, wrote |-> {}, got |-> {}, closedAt |-> {}, served |-> {}, stopping |-> FALSE, stopped |-> FALSE]
TInit == l = 1 /\ o = O0 /\ TLCSet(1, 1)
TNext ==
  /\ l <= Len(Trace) /\ l' = l + 1
  /\ CASE E.ev = "History" -> o' = O0
       [] E.ev = "NewSink" -> E.num \notin o.open /\ ~o.stopped /\ o' = [o EXCEPT !.open = @ \cup {E.num}]
       [] E.ev = "Accept" -> /\ E.num \in o.open /\ ~o.stopped /\ E.line \notin o.got
                             /\ o' = [o EXCEPT !.got = @ \cup {E.line}]
       [] E.ev = "Flush" -> E.num \in o.open /\ ~o.stopped /\ UNCHANGED o
       [] E.ev = "Close" -> E.num \in o.open /\ ~o.stopped /\ o' = [o EXCEPT !.open = @ \ {E.num}]
       [] E.ev = "ClientConnected" -> UNCHANGED o
       [] E.ev = "ClientRefused" -> o.stopping /\ UNCHANGED o          \* only once the stop was requested
       [] E.ev = "ClientWrote" -> o' = [o EXCEPT !.wrote = @ \cup {<<E.c, E.line>>}]
       [] E.ev = "ClientClosed" ->
            o' = [o EXCEPT !.closedAt = IF E.how = "close" /\ ~o.stopping THEN @ \cup {<<E.c, E.t>>} ELSE @]
       [] E.ev = "StopBegin" -> o' = [o EXCEPT !.stopping = TRUE, !.served = {p[1] : p \in {q \in o.closedAt : q[2] + 10000 <= E.t}}]
       [] E.ev = "Stopped" -> o.stopping /\ o.open = {} /\ E.ms <= StopBoundMs /\ o' = [o EXCEPT !.stopped = TRUE]
       [] E.ev = "End" ->
            /\ o.stopped
            /\ o.got \subseteq {w[2] : w \in o.wrote}
            /\ {w[2] : w \in {x \in o.wrote : x[1] \in o.served}} \subseteq o.got
            /\ UNCHANGED o
       [] E.ev = "RESET" -> o' = O0
       [] OTHER -> FALSE     \* HUNG, AcceptsAfterStop, HarnessError
TSpec == TInit /\ [][TNext]_<<l, o>>
HWM == IF l > TLCGet(1) THEN TLCSet(1, l) ELSE TRUE
Accepted_ == IF TLCGet(1) = Len(Trace) + 1 THEN TRUE
             ELSE PrintT(<<"HWM", TLCGet(1), Trace[TLCGet(1)]>>) /\ FALSE
=============================================================================
