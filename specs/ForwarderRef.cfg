SPECIFICATION Spec
CONSTANTS
 NChunks = 2
 AckCap = 1
 Faults = 1
 AllowStop = TRUE
 MaxSoft = 1
 AllowSteal = TRUE
 InOrderAck = FALSE
 LiveSoft = FALSE
PROPERTIES Refines
CHECK_DEADLOCK FALSE
