------------------------------ MODULE Listener ------------------------------
(***************************************************************************
 input/tcplistener/tcplinelistener.go: the accept loop, one reader goroutine
 and one closer goroutine per connection, the stop request.  The client number
 handed to the receiver is the socket's descriptor number, which the kernel
 hands out again as soon as the socket is closed - so the order "close the sink,
 then let the closer release the socket" is what keeps two live sinks from
 sharing a number (C17), and "every reader ends, then Stopped" is what makes the
 stop wait for the connection tasks (C18).

   Connect(c)        a client connects (kernel backlog)
   Accept(c)         accept() before the stop request: lowest free descriptor; NewSink(number); reader + closer start
   AcceptDuringStop  accept() after the stop request: the connection is closed at once, no sink
   ClientEnd(c)      the client closes or resets
   ReaderEOF(c)      the reader sees the end
   ReaderCloseSink   flush + close the sink              (runConnection, end of the read loop)
   ReaderSignal      connAborter.Signal(), task done
   CloserClose(c)    the closer releases the socket (after the signal, or on the stop request)
   ReaderSeesClosed  the reader's read fails because the closer closed the socket on a stop: flush, close sink, task done
   StopRequest, ListenerClose (accept loop ends), AllDone (Stopped is signalled)
 ***************************************************************************)
EXTENDS Naturals, FiniteSets
CONSTANTS NClients, NFd, SinkBeforeSignal     \* SinkBeforeSignal = TRUE is the code; FALSE is the order it had before the repair
Clients == 1..NClients
Fds == 1..NFd
VARIABLES lsn, stopReq, cst, fd, sock, slot, rd, aborted, clientEnded, tasks, stopped, dupSink
vars == <<lsn, stopReq, cst, fd, sock, slot, rd, aborted, clientEnded, tasks, stopped, dupSink>>
Init == /\ lsn = "open" /\ stopReq = FALSE /\ cst = [c \in Clients |-> "none"] /\ fd = [c \in Clients |-> 0]
        /\ sock = [c \in Clients |-> "none"] /\ slot = [f \in Fds |-> FALSE] /\ rd = [c \in Clients |-> "none"]
        /\ aborted = [c \in Clients |-> FALSE] /\ clientEnded = [c \in Clients |-> FALSE]
        /\ tasks = 1 /\ stopped = FALSE /\ dupSink = FALSE
InUse(f) == \E c \in Clients : fd[c] = f /\ sock[c] = "open"
Connect(c) == lsn = "open" /\ cst[c] = "none" /\ cst' = [cst EXCEPT ![c] = "pending"]
              /\ UNCHANGED <<lsn, stopReq, fd, sock, slot, rd, aborted, clientEnded, tasks, stopped, dupSink>>
\* a connection that comes out of accept() after the stop request is closed at once, without a sink: the closers are
\* releasing sockets whose numbers it would get while the sinks of their owners are still open (found by TLC on the first
\* version of this module, which had no such guard, and reproduced on the real listener; repaired in the code)
AcceptDuringStop(c) == /\ lsn = "open" /\ cst[c] = "pending" /\ stopReq /\ cst' = [cst EXCEPT ![c] = "turnedAway"]
                       /\ UNCHANGED <<lsn, stopReq, fd, sock, slot, rd, aborted, clientEnded, tasks, stopped, dupSink>>
Accept(c) == /\ lsn = "open" /\ cst[c] = "pending" /\ ~stopReq /\ \E f \in Fds : ~InUse(f)
             /\ LET f == CHOOSE x \in Fds : ~InUse(x) /\ \A y \in Fds : ~InUse(y) => x <= y IN
                /\ fd' = [fd EXCEPT ![c] = f] /\ sock' = [sock EXCEPT ![c] = "open"]
                /\ dupSink' = (dupSink \/ slot[f])          \* NewSink for a number whose sink is still registered
                /\ slot' = [slot EXCEPT ![f] = TRUE]
             /\ cst' = [cst EXCEPT ![c] = "accepted"] /\ rd' = [rd EXCEPT ![c] = "run"] /\ tasks' = tasks + 1
             /\ UNCHANGED <<lsn, stopReq, aborted, clientEnded, stopped>>
ClientEnd(c) == cst[c] = "accepted" /\ ~clientEnded[c] /\ clientEnded' = [clientEnded EXCEPT ![c] = TRUE]
                /\ UNCHANGED <<lsn, stopReq, cst, fd, sock, slot, rd, aborted, tasks, stopped, dupSink>>
ReaderEOF(c) == rd[c] = "run" /\ clientEnded[c] /\ sock[c] = "open" /\ rd' = [rd EXCEPT ![c] = "eof"]
                /\ UNCHANGED <<lsn, stopReq, cst, fd, sock, slot, aborted, clientEnded, tasks, stopped, dupSink>>
\* the two steps of the end of the read loop, in the order of the code (SinkBeforeSignal) or in the old order
ReaderCloseSink(c) == /\ rd[c] = (IF SinkBeforeSignal THEN "eof" ELSE "signalled")
                      /\ slot' = [slot EXCEPT ![fd[c]] = FALSE]
                      /\ rd' = [rd EXCEPT ![c] = IF SinkBeforeSignal THEN "sinkclosed" ELSE "done"]
                      /\ tasks' = IF SinkBeforeSignal THEN tasks ELSE tasks - 1
                      /\ UNCHANGED <<lsn, stopReq, cst, fd, sock, aborted, clientEnded, stopped, dupSink>>
ReaderSignal(c) == /\ rd[c] = (IF SinkBeforeSignal THEN "sinkclosed" ELSE "eof")
                   /\ aborted' = [aborted EXCEPT ![c] = TRUE]
                   /\ rd' = [rd EXCEPT ![c] = IF SinkBeforeSignal THEN "done" ELSE "signalled"]
                   /\ tasks' = IF SinkBeforeSignal THEN tasks - 1 ELSE tasks
                   /\ UNCHANGED <<lsn, stopReq, cst, fd, sock, slot, clientEnded, stopped, dupSink>>
CloserClose(c) == sock[c] = "open" /\ (aborted[c] \/ stopReq) /\ sock' = [sock EXCEPT ![c] = "closed"]
                  /\ UNCHANGED <<lsn, stopReq, cst, fd, slot, rd, aborted, clientEnded, tasks, stopped, dupSink>>
ReaderSeesClosed(c) == /\ rd[c] = "run" /\ sock[c] = "closed"
                       /\ slot' = [slot EXCEPT ![fd[c]] = FALSE] /\ rd' = [rd EXCEPT ![c] = "done"] /\ tasks' = tasks - 1
                       /\ UNCHANGED <<lsn, stopReq, cst, fd, sock, aborted, clientEnded, stopped, dupSink>>
StopRequest == ~stopReq /\ stopReq' = TRUE
               /\ UNCHANGED <<lsn, cst, fd, sock, slot, rd, aborted, clientEnded, tasks, stopped, dupSink>>
ListenerClose == stopReq /\ lsn = "open" /\ lsn' = "closed" /\ tasks' = tasks - 1
                 /\ UNCHANGED <<stopReq, cst, fd, sock, slot, rd, aborted, clientEnded, stopped, dupSink>>
AllDone == tasks = 0 /\ ~stopped /\ stopped' = TRUE
           /\ UNCHANGED <<lsn, stopReq, cst, fd, sock, slot, rd, aborted, clientEnded, tasks, dupSink>>
Next == StopRequest \/ ListenerClose \/ AllDone
        \/ \E c \in Clients : Connect(c) \/ Accept(c) \/ AcceptDuringStop(c) \/ ClientEnd(c) \/ ReaderEOF(c) \/ ReaderCloseSink(c) \/ ReaderSignal(c)
                               \/ CloserClose(c) \/ ReaderSeesClosed(c)
Code == ListenerClose \/ AllDone \/ \E c \in Clients : Accept(c) \/ AcceptDuringStop(c) \/ ReaderEOF(c) \/ ReaderCloseSink(c) \/ ReaderSignal(c) \/ CloserClose(c) \/ ReaderSeesClosed(c)
Spec == Init /\ [][Next]_vars /\ WF_vars(Code)

OneUserPerNumber == ~dupSink
StoppedMeansAllEnded == stopped => /\ lsn = "closed" /\ \A f \in Fds : ~slot[f]
                                   /\ \A c \in Clients : rd[c] \in {"none", "done"}
StopCompletes == stopReq ~> stopped
=============================================================================
