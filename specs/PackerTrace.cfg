SPECIFICATION TSpec
CONSTANTS
 Mode = "ff"
 MaxBytes = 40
 MaxRecords = 3
 Sizes = {1}
 MaxInput = 1
 Tag = "76657269662e746167"
 TraceFile = "trace.ndjson"
CONSTRAINT HWM
POSTCONDITION Accepted_
CHECK_DEADLOCK FALSE
