SPECIFICATION TSpec
CONSTANTS
 Mode = "ff"
 MaxBytes = 40
 MaxRecords = 3
 Sizes = {1}
 MaxInput = 1
 Tag = "verif.tag"
 TraceFile = "trace.ndjson"
CONSTRAINT HWM
POSTCONDITION Accepted_
CHECK_DEADLOCK FALSE
