SPECIFICATION Spec
CONSTANTS
 Alphabet <- AlphabetDef
 NKeys = 3
INVARIANTS Injective Reattach
CHECK_DEADLOCK FALSE
