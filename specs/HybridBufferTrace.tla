---------------------------- MODULE HybridBufferTrace ----------------------------
(***************************************************************************
 Trace validation for HybridBuffer: events recorded from the real bufferer
 (harness-owned acceptor and consumer, verif hooks in the feeder, in Accept and
 in UnloadChunk, directory listings and the metric registry at quiescence).
 Channel hand-offs, the three steps of UnloadChunk and everything else the
 goroutines do between two log lines are silent steps.
 ***************************************************************************)
EXTENDS HybridBuffer, Json

CONSTANTS MaxSilent, TraceFile

Trace == ndJsonDeserialize(TraceFile)

VARIABLES l, sil
tvars == <<s, l, sil>>

E == Trace[l]
IsEv(name) == l <= Len(Trace) /\ Trace[l].ev = name
Consume == l' = l + 1 /\ sil' = 0
Silent  == l' = l /\ sil < MaxSilent /\ sil' = sil + 1

TInit == s = S0 /\ l = 1 /\ sil = 0 /\ TLCSet(1, 1)

TSilent == /\ Silent
           /\ \/ (\E p \in Procs : UlCheck(p) \/ UlWrite(p) \/ UlWriteFails(p) \/ UlGauge(p))
              \/ AccDecideDo \/ AccUnloaded \/ AccEnqDo
              \/ DestroyWaited \/ DestroyClose \/ DestroySignal
              \/ FPopDo \/ FPushDo \/ FCloseOutDo \/ FSaveLastSkip \/ FSaveOutDo \/ FSaveOutDone \/ FSaved
              \/ TakeDo \/ ConfirmUnlink \/ ConfirmGauge \/ HandBackFin
              \/ RestartScan \/ StartFeeder

TAcceptBegin  == IsEv("AcceptBegin") /\ E.id = s.nextId /\ AcceptStart(E.size) /\ Consume
TAcceptDecide == IsEv("AcceptDecide") /\ E.id = s.ahand.id /\ s.apc = "decided" /\ s.aspill = E.spill /\ AccDecided /\ Consume
TUnload == /\ IsEv("Unload") /\ Consume
           /\ \E p \in Procs : s.ul[p].c.id = E.id /\ s.ul[p].res = E.res /\ UlReturn(p)
TAcceptEnq == IsEv("AcceptEnq") /\ E.id = s.ahand.id /\ (s.apc = "enqok") = E.ok /\ AccEnq /\ Consume
TAcceptEnd == IsEv("AcceptEnd") /\ AcceptEnd /\ Consume
TDestroyBegin == IsEv("DestroyBegin") /\ DestroyBegin /\ Consume
TDestroyEnd   == IsEv("DestroyEnd") /\ DestroyEnd /\ Consume

TFeederPop  == IsEv("FeederPop") /\ s.hand.id = E.id /\ s.hand.loaded = E.loaded /\ FPop /\ Consume
TFeederEnd  == IsEv("FeederEnd") /\ E.why = "closed" /\ FPopClosed /\ Consume
TFeederLoad == IsEv("FeederLoad") /\ s.hand.id = E.id /\ FLoad(E.res) /\ Consume
TFeederPush == /\ IsEv("FeederPush") /\ s.hand.id = E.id /\ Consume
               /\ \/ E.branch = "ok" /\ FPush
                  \/ E.branch = "abort" /\ FPushAbort
TFeederCloseOut == IsEv("FeederCloseOut") /\ FCloseOut /\ Consume
TFeederSave == /\ IsEv("FeederSave") /\ Consume
               /\ \/ E.phase = "in" /\ s.inq # <<>> /\ Head(s.inq).id = E.id /\ FSaveIn
                  \/ E.phase = "last" /\ s.lastc.id = E.id /\ FSaveLast
                  \/ E.phase = "out" /\ s.hand.id = E.id /\ FSaveOut
TFeederSaveDone == IsEv("FeederSaveDone") /\ FSaveInDone /\ Consume
TFeederConsDone == IsEv("FeederConsDone") /\ FConsDone /\ Consume
TFeederStopped  == IsEv("FeederStopped") /\ FStopped /\ Consume

TTakeBegin == IsEv("TakeBegin") /\ TakeBegin /\ Consume
\* the chunk the consumer received must be the model's, unchanged byte for byte (the harness compares the content)
TTakeEnd == /\ IsEv("TakeEnd") /\ Consume
            /\ \/ E.res = "chunk" /\ s.cpc = "took" /\ s.cur.id = E.id /\ s.cur.saved = E.saved
                  /\ E.len = s.size[E.id] /\ E.intact /\ TakeEnd
               \/ E.res = "closed" /\ s.cpc = "tookclosed" /\ TakeEnd
               \/ E.res = "none" /\ s.cpc = "tooknone" /\ TakeEnd
TConfirmBegin == IsEv("ConfirmBegin") /\ (\E c \in s.held : c.id = E.id /\ ConfirmBegin(c)) /\ Consume
TConfirmEnd   == IsEv("ConfirmEnd") /\ s.cur.id = E.id /\ ConfirmEnd /\ Consume
THandBackBegin == IsEv("HandBackBegin") /\ (\E c \in s.held : c.id = E.id /\ HandBackBegin(c)) /\ Consume
THandBackEnd   == IsEv("HandBackEnd") /\ s.cur.id = E.id /\ HandBackEnd /\ Consume
TConsFinish == IsEv("ConsFinish") /\ ConsFinish /\ Consume

TGeneration == IsEv("Generation") /\ NewGeneration /\ E.gen = s'.gen /\ Consume
TRecover  == IsEv("Recover") /\ s.rec # <<>> /\ Head(s.rec) = E.id /\ (Len(s.inq) < Q) = E.ok /\ Recover /\ Consume
TStartEnd == IsEv("StartEnd") /\ StartEnd /\ Consume

\* the queue directory, listed by the harness when nothing is running: names, sizes and contents
TDisk == /\ IsEv("Disk") /\ Consume /\ UNCHANGED s
         /\ s.dpc = "done"
         /\ {<<f[1], f[2]>> : f \in {E.files[i] : i \in 1..Len(E.files)}} = {<<i, s.size[i]>> : i \in s.disk}
         /\ E.intact
\* the metric registry when nothing is running
TMetrics == /\ IsEv("Metrics") /\ Consume /\ UNCHANGED s
            /\ s.dpc = "done"
            /\ E.pending = s.pending /\ E.persistentChunks = s.gChunks /\ E.persistentBytes = s.gBytes
            /\ E.inTransient = s.cInT /\ E.inPersistent = s.cInP /\ E.consumed = s.cCons /\ E.leftover = s.cLeft
            /\ E.dropped = s.cDrop /\ E.ioErrors = s.cIo /\ E.queuedTransient = s.qT /\ E.queuedPersistent = s.qP
\* the consumer noticed the InputClosed signal (logged by the harness consumer; the feeder's own FeederCloseOut event may
\* come before or after it): nothing changes, what the consumer does next is constrained by its own actions
TConsSawClosed == IsEv("ConsSawClosed") /\ Consume /\ UNCHANGED s
TReset == IsEv("RESET") /\ s.dpc = "done" /\ s' = S0 /\ Consume

TNext ==
  \/ TSilent
  \/ TAcceptBegin \/ TAcceptDecide \/ TUnload \/ TAcceptEnq \/ TAcceptEnd \/ TDestroyBegin \/ TDestroyEnd
  \/ TFeederPop \/ TFeederEnd \/ TFeederLoad \/ TFeederPush \/ TFeederCloseOut \/ TFeederSave \/ TFeederSaveDone
  \/ TFeederConsDone \/ TFeederStopped
  \/ TTakeBegin \/ TTakeEnd \/ TConfirmBegin \/ TConfirmEnd \/ THandBackBegin \/ THandBackEnd \/ TConsFinish
  \/ TConsSawClosed \/ TGeneration \/ TRecover \/ TStartEnd \/ TDisk \/ TMetrics \/ TReset

TSpec == TInit /\ [][TNext]_tvars

HWM == IF l > TLCGet(1) THEN TLCSet(1, l) ELSE TRUE
Accepted_ == IF TLCGet(1) = Len(Trace) + 1 THEN TRUE
             ELSE PrintT(<<"HWM", TLCGet(1), Trace[TLCGet(1)]>>) /\ FALSE
=============================================================================
