SPECIFICATION Spec
CONSTANTS
 NClients = 3
 NFd = 2
 SinkBeforeSignal = TRUE
INVARIANTS OneUserPerNumber StoppedMeansAllEnded
PROPERTIES StopCompletes
CHECK_DEADLOCK FALSE
