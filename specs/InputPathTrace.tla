---------------------------- MODULE InputPathTrace ----------------------------
(***************************************************************************
 Lock-step replay of listener calls on the real input path (drv/ip): every
 event is one call - a line the parser passes / refuses, Flush, Flush + Close,
 a pause of one flush interval - followed by everything that has arrived on
 the pipeline channels so far (batches of record ids per key set, batch
 boundaries included) and the pipelines created so far.  The model is
 deterministic, so the logged state has to equal the model's after the same
 call; the invariants of InputPath are evaluated in every state on the way.
 ***************************************************************************)
EXTENDS InputPath, Json
CONSTANTS TraceFile
Trace == ndJsonDeserialize(TraceFile)
VARIABLE l
E == Trace[l]
IsEv(n) == l <= Len(Trace) /\ Trace[l].ev = n
OutIds(st) == [k \in Keys |-> [i \in 1..Len(st.out[k]) |-> IdsOf(st.out[k][i])]]
Same == OutIds(s') = E.out /\ s'.pipes = E.pipes

TInit == s = S0 /\ l = 1 /\ TLCSet(1, 1)
TNext ==
  /\ l <= Len(Trace) /\ l' = l + 1
  /\ CASE E.ev = "Accept"  -> Accept(E.c, E.k, E.sz) /\ Same
       [] E.ev = "Refused" -> AcceptRefused(E.c) /\ Same
       [] E.ev = "Flush"   -> Flush(E.c) /\ Same
       [] E.ev = "Close"   -> Close(E.c) /\ Same
       [] E.ev = "Advance" -> Advance /\ Same
       [] E.ev = "Timing"  -> E.valid /\ UNCHANGED s
       [] E.ev = "RESET"   -> s' = S0
       [] OTHER -> FALSE        \* Panic, ...: no action explains it
TSpec == TInit /\ [][TNext]_<<l, s>>
HWM == IF l > TLCGet(1) THEN TLCSet(1, l) ELSE TRUE
Accepted_ == IF TLCGet(1) = Len(Trace) + 1 THEN TRUE
             ELSE PrintT(<<"HWM", TLCGet(1), Trace[TLCGet(1)]>>) /\ FALSE
=============================================================================
