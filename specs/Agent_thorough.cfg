SPECIFICATION Spec
CONSTANTS
 NConn = 2
 NRec = 2
 Keys = {1}
 MaxGen = 2
 Faults = 1
 ChunkMax = 2
INVARIANTS NoLoss Monitors
CHECK_DEADLOCK FALSE
