---------------------------- MODULE ChunkIdTrace ----------------------------
(* the real generator under a scripted clock (drv/idg): every id must be the one ChunkId!Gen makes for that reading *)
EXTENDS ChunkId, TLC, Json
CONSTANTS TraceFile
Trace == ndJsonDeserialize(TraceFile)
VARIABLES l
E == Trace[l]
TInit == l = 1 /\ Init /\ TLCSet(1, 1)
TNext == /\ l <= Len(Trace) /\ l' = l + 1
         /\ CASE E.ev = "New" -> epoch' = 0 /\ seq' = 0 /\ ids' = <<>>
              [] E.ev = "Gen" -> Gen(E.clock) /\ E.ts = epoch' /\ E.seq = seq' /\ E.wellFormed
              [] OTHER -> FALSE
TSpec == TInit /\ [][TNext]_<<l, vars>>
HWM == IF l > TLCGet(1) THEN TLCSet(1, l) ELSE TRUE
Accepted_ == IF TLCGet(1) = Len(Trace) + 1 THEN TRUE
             ELSE PrintT(<<"HWM", TLCGet(1), Trace[TLCGet(1)]>>) /\ FALSE
=============================================================================
