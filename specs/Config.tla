------------------------------- MODULE Config -------------------------------
(***************************************************************************
 C16 - accepted configurations always instantiate; rejected ones fail cleanly.

 A configuration is a valid base file plus a substitution of one kind of value
 at one or two reference sites (run/config.go ParseConfigFile and every
 VerifyConfig / constructor behind it).  The life of one configuration in the
 agent:

   Choose(class, kind)     the file is written
   LoadReject              ParseConfigFile returns an error value
   LoadAccept              ParseConfigFile returns a configuration - not enabled for the kinds that
                           name something that does not exist (ReferencesValidatedAtLoad)
   Instantiate             NewLoaderFromConfigFile, StartOrchestrator, LaunchInputs
   FatalExit               the launch reports an environmental failure (address cannot be bound, path cannot be
                           used) by a fatal log line and exit - only for sites that name such a resource
   Process(sent, acc)      records reaching every branch are received; pipelines, transforms, rewriters,
                           serializers and buffers are built lazily here; then shutdown
   Reload(ok|refused)      the same file as the target of a reload of an agent running the base file
   End

 There is no crash action: a panic at load, at instantiation, on a record or in
 a reload is a step the specification does not have (RejectedIsErrorValue,
 AcceptedInstantiates).
 ***************************************************************************)
EXTENDS Naturals, FiniteSets

\* site classes and the kinds of value the catalogue substitutes (drv/cfg kindsOf; DESIGN.md section 5.17)
Classes == {"BASE", "FR", "SF", "TY", "TP", "TT", "PH", "PT", "RX", "RR", "RC", "MV", "NP", "NL", "NM", "SZ", "DU", "RT", "TX",
            "AD", "UR", "ON", "MM", "LM", "RP", "LS", "ED", "PAIR", "RANDOM"}
\* the kinds that reference something that does not exist: a schema field, a template variable, a named capture, a step type
MustRejectKinds == {"unknownField", "unknownNumeric", "dollar", "unknownType", "unknownVar", "unknownBraced", "unknownSliced",
                    "unknownCapture", "unknownSecond"}
\* sites that name an environmental resource: failing to acquire it at launch is reported by a fatal exit, not verified at load
EnvironmentalClasses == {"AD", "RP", "PAIR"}
Verdicts == {"reject", "free", "accept"}
Phases == {"idle", "chosen", "rejected", "accepted", "instantiated", "fatal", "processed", "reloaded", "ended"}

VARIABLE c
vars == <<c>>
C0 == [phase |-> "idle", class |-> "BASE", must |-> "free", sent |-> 0, acc |-> 0, reload |-> "none"]
TypeOK == c.phase \in Phases /\ c.class \in Classes /\ c.must \in Verdicts /\ c.reload \in {"none", "ok", "refused"}

Init == c = C0
Choose(cl, must) == c.phase \in {"idle", "ended"} /\ c' = [C0 EXCEPT !.phase = "chosen", !.class = cl, !.must = must]
LoadReject == c.phase = "chosen" /\ c.must # "accept" /\ c' = [c EXCEPT !.phase = "rejected"]
LoadAccept == c.phase = "chosen" /\ c.must # "reject" /\ c' = [c EXCEPT !.phase = "accepted"]
Instantiate == c.phase = "accepted" /\ c' = [c EXCEPT !.phase = "instantiated"]
FatalExit == c.phase = "accepted" /\ c.class \in EnvironmentalClasses /\ c' = [c EXCEPT !.phase = "fatal"]
Process(sent, acc) == c.phase = "instantiated" /\ acc = sent /\ c' = [c EXCEPT !.phase = "processed", !.sent = sent, !.acc = acc]
Reload(res, sent, acc) == c.phase = "processed" /\ res \in {"ok", "refused"} /\ acc = sent
                          /\ c' = [c EXCEPT !.phase = "reloaded", !.reload = res]
End == c.phase \in {"rejected", "fatal", "processed", "reloaded"} /\ c' = [c EXCEPT !.phase = "ended"]

MaxRecords == 2
Next == \/ \E cl \in Classes, m \in Verdicts : Choose(cl, m)
        \/ LoadReject \/ LoadAccept \/ Instantiate \/ FatalExit
        \/ \E n \in 0..MaxRecords : Process(n, n)
        \/ \E r \in {"ok", "refused"}, n \in 0..MaxRecords : Reload(r, n, n)
        \/ End
Spec == Init /\ [][Next]_vars /\ WF_vars(Next)

\* --- properties -------------------------------------------------------------------------------------------------
ReferencesValidatedAtLoad == c.must = "reject" => c.phase \in {"chosen", "rejected", "ended"}
AcceptedInstantiates == c.phase \in {"processed", "reloaded"} => c.acc = c.sent
FatalOnlyEnvironmental == c.phase = "fatal" => c.class \in EnvironmentalClasses
ValidIsAccepted == c.must = "accept" => c.phase # "rejected"
EveryFileEnds == (c.phase = "chosen") ~> (c.phase = "ended")
=============================================================================
