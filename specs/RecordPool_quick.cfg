SPECIFICATION Spec
CONSTANTS
 Objs = {o1, o2}
 MaxRecs = 4
 Outputs = 2
INVARIANTS TypeOK RefcountSane NoForeignProvenance PooledIsClean LeakedNeverReused
CHECK_DEADLOCK FALSE
