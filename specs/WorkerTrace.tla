---------------------------- MODULE WorkerTrace ----------------------------
(***************************************************************************
 Trace validation for Worker: the real LogProcessingWorker (drv/wk) with the
 harness as the sender on its input channel and as the receiver of the chunks
 (AcceptChunk of each output: the chunk decoded to record ids).  Logged:
   Send   before the batch is sent into the channel (ids, which ones the transforms will drop)
   Close  before the channel is closed
   Age    at the creation of the worker (the ticker's first tick cannot come before the worker is one interval old)
   Chunk  output, ids - logged on the worker's goroutine inside AcceptChunk
   Stopped  after the worker's stop signal
 Everything the worker does between two chunks is silent.  A Send is logged
 before the send completes, so the batch in the sender's hands counts as in the
 channel: Cap here is the channel's capacity + 1.
 ***************************************************************************)
EXTENDS Worker, Json
CONSTANTS MaxSilent, TraceFile
Trace == ndJsonDeserialize(TraceFile)
VARIABLES l, sil
tvars == <<s, l, sil>>
E == Trace[l]
IsEv(name) == l <= Len(Trace) /\ Trace[l].ev = name
Consume == l' = l + 1 /\ sil' = 0
Silent  == l' = l /\ sil < MaxSilent /\ sil' = sil + 1
Last(q) == q[Len(q)]

TInit == s = S0 /\ l = 1 /\ sil = 0 /\ TLCSet(1, 1)
TSilent == /\ Silent
           /\ \/ Pop \/ Transform \/ SeesClosed
              \/ (\E x \in 1..Outs : WriteTo(x, FALSE) \/ FlushOut(x, FALSE))
              \/ (TickFires /\ \E x \in 1..Outs : s.open[x] # <<>>)       \* a tick with nothing open changes nothing
TSend == /\ IsEv("Send") /\ Consume /\ Send(E.drops)
         /\ E.ids = [i \in 1..Len(E.drops) |-> s.nrec + i]
TClose == IsEv("Close") /\ CloseInput /\ Consume
TAge == IsEv("Age") /\ Age /\ Consume
\* a chunk reaches the output's buffer: either the write that filled it, or a flush; its content is what the model closes
TChunk == /\ IsEv("Chunk") /\ Consume
          /\ (WriteTo(E.o, TRUE) \/ FlushOut(E.o, TRUE))
          /\ Last(s'.handed[E.o]) = E.ids
TStopped == IsEv("Stopped") /\ s.pc = "stopped" /\ UNCHANGED s /\ Consume
TReset == IsEv("RESET") /\ s.pc = "stopped" /\ s' = S0 /\ Consume
TNext == TSilent \/ TSend \/ TClose \/ TAge \/ TChunk \/ TStopped \/ TReset
TSpec == TInit /\ [][TNext]_tvars
HWM == IF l > TLCGet(1) THEN TLCSet(1, l) ELSE TRUE
Accepted_ == IF TLCGet(1) = Len(Trace) + 1 THEN TRUE
             ELSE PrintT(<<"HWM", TLCGet(1), Trace[TLCGet(1)]>>) /\ FALSE
=============================================================================
