---------------------------- MODULE HybridBuffer ----------------------------
(***************************************************************************
 The hybrid memory/disk chunk queue of slog-agent: buffer/hybridbuffer
 bufferer.go (Accept, Destroy, recoverExistingChunks), outputfeeder.go (Run,
 loadToOutput, saveEverything), chunkmanager.go (callbacks and accounting)
 and chunkoperator.go (UnloadChunk, LoadChunk, RemoveChunk), written at the
 grain of the code's critical sections so that HybridBufferTrace can bind
 recorded events of the real bufferer to these very actions.

 Processes:
   acc    the goroutine calling Accept and later Destroy (the pipeline worker / orchestrator)      (apc, dpc)
   feed   outputFeeder.Run                                                                         (fpc)
   cons   the chunk consumer: takes from the output channel, confirms or hands back, finishes     (cpc)
 chunkOperator.UnloadChunk is run by all three (Accept spill, saveEverything, OnChunkLeftover);
 it is three steps (read the byte gauge, write the file, add to the gauges) in ul[p].

 Chunk ids are 1..N in acceptance order (= chunk-id order = file-name order).  The whole state is one record `s`.
 ***************************************************************************)
EXTENDS Integers, Sequences, FiniteSets, TLC

CONSTANTS N,          \* chunks that may be accepted in total (over all generations)
          Q, M,       \* defs.BufferMaxNumChunksInQueue, defs.BufferMaxNumChunksInMemory
          MaxBytes,   \* Config.MaxBufSize
          Sizes,      \* possible chunk sizes
          MaxGen,     \* generations (Destroy + new bufferer on the same directory)
          DirUsable,  \* FALSE: the queue directory cannot be opened (chunk saving disabled, sendAllAtEnd)
          IoFaults,   \* budget of read errors
          WriteFaults, \* budget of write errors (util.WriteFileAt fails: full disk, file-size limit, I/O error)
          EarlyHandBack  \* may the consumer hand chunks back before the output channel is closed?

NOCHUNK == [id |-> 0, loaded |-> FALSE, saved |-> FALSE]
U0 == [st |-> "none", c |-> NOCHUNK, res |-> "none"]
Procs == {"acc", "feed", "cons"}

VARIABLE s
vars == <<s>>

RECURSIVE SortedSeq(_)
SortedSeq(S) == IF S = {} THEN <<>>
                ELSE LET m == CHOOSE x \in S : \A y \in S : x <= y IN <<m>> \o SortedSeq(S \ {m})
RECURSIVE SumSize(_, _)
SumSize(sz, S) == IF S = {} THEN 0 ELSE LET x == CHOOSE y \in S : TRUE IN sz[x] + SumSize(sz, S \ {x})
Ids(q) == {q[i].id : i \in 1..Len(q)}

Volatile0 == [
  inq |-> <<>>, outq |-> <<>>, inClosed |-> FALSE, inSig |-> FALSE, outClosed |-> FALSE,
  fpc |-> "off", hand |-> NOCHUNK, lastc |-> NOCHUNK,
  apc |-> "idle", ahand |-> NOCHUNK, aspill |-> FALSE, dpc |-> "idle",
  cpc |-> "idle", cur |-> NOCHUNK, held |-> {}, consFinished |-> FALSE,
  ul |-> [p \in Procs |-> U0],
  rpc |-> "recover", rec |-> <<>>,
  \* gauges and counters (chunkmanager.go, chunkoperator.go, bufferer.go); a new generation starts from zero
  gBytes |-> 0, gChunks |-> 0, pending |-> 0, qT |-> 0, qP |-> 0,
  cInT |-> 0, cInP |-> 0, cCons |-> 0, cLeft |-> 0, cDrop |-> 0, cIo |-> 0,
  delivered |-> <<>>, savedAtStop |-> {}, skipped |-> {} ]

S0 == Volatile0 @@ [
  gen |-> 1, nextId |-> 1, size |-> [i \in 1..N |-> 0], disk |-> {}, zero |-> {}, io |-> IoFaults, wio |-> WriteFaults,
  \* history over all generations
  confirmed |-> {}, droppedSet |-> {}, lost |-> {}, everOnDisk |-> {}, slack |-> 0,
  fifoViol |-> FALSE, dblConfirm |-> FALSE, redeliverViol |-> FALSE, contentViol |-> FALSE ]

Init == s = S0

(***************************** chunkOperator.UnloadChunk *****************************)
UlBegin(t, p, c) == [t EXCEPT !.ul[p] = [st |-> "check", c |-> c, res |-> "none"]]
\* if Saved: true; if Data == nil: BUG; if no dir: false; if gauge + len > max: false   (reads the gauge)
UlCheck(p) ==
  /\ s.ul[p].st = "check"
  /\ LET c == s.ul[p].c
         r == CASE c.saved -> "already"
                [] ~c.loaded -> "nil"
                [] ~DirUsable -> "nodir"
                [] s.gBytes + s.size[c.id] > MaxBytes -> "quota"
                [] OTHER -> "write"
         overlap == \E q \in Procs \ {p} : s.ul[q].st \in {"write", "gauge"}
     IN s' = [s EXCEPT !.ul[p].st = IF r = "write" THEN "write" ELSE "ret", !.ul[p].res = r,
                       \* a save decided while another one is between its check and its gauge update may overshoot
                       !.slack = IF r = "write" /\ overlap THEN @ + s.size[c.id] ELSE @]
\* util.WriteFileAt
UlWrite(p) ==
  /\ s.ul[p].st = "write"
  /\ s' = [s EXCEPT !.ul[p].st = "gauge", !.disk = @ \cup {s.ul[p].c.id}, !.everOnDisk = @ \cup {s.ul[p].c.id}]
\* ... or fails: ioErrorsTotal.Inc(), no file under the chunk's name (the temporary file is removed), UnloadChunk returns false
UlWriteFails(p) ==
  /\ s.ul[p].st = "write" /\ s.wio > 0
  /\ s' = [s EXCEPT !.ul[p].st = "ret", !.ul[p].res = "ioerr", !.wio = @ - 1, !.cIo = @ + 1]
\* persistentChunks.Inc(); persistentChunkBytes.Add(len); chunk.Data = nil; chunk.Saved = true
UlGauge(p) ==
  /\ s.ul[p].st = "gauge"
  /\ s' = [s EXCEPT !.ul[p].st = "ret", !.ul[p].res = "saved",
                    !.ul[p].c = [id |-> s.ul[p].c.id, loaded |-> FALSE, saved |-> TRUE],
                    !.gChunks = @ + 1, !.gBytes = @ + s.size[s.ul[p].c.id]]
\* return (the hook event is logged here)
UlReturn(p) == s.ul[p].st = "ret" /\ s' = [s EXCEPT !.ul[p].st = "done"]
UlOk(p) == s.ul[p].res \in {"saved", "already"}

(***************************** acc: bufferer.Accept *****************************)
AcceptStart(sz) ==
  /\ s.rpc = "run" /\ s.apc = "idle" /\ s.dpc = "idle" /\ s.nextId <= N
  /\ s' = [s EXCEPT !.apc = "decide", !.ahand = [id |-> s.nextId, loaded |-> TRUE, saved |-> FALSE],
                    !.size[s.nextId] = sz, !.nextId = @ + 1]
\* if buf.feeder.NumOutput() >= defs.BufferMaxNumChunksInMemory/2     (reads the channel length)
AccDecideDo ==
  /\ s.apc = "decide"
  /\ s' = [s EXCEPT !.apc = "decided", !.aspill = (Len(s.outq) >= M \div 2)]
\*   spill: OnChunkInput(false); UnloadOrDropChunk      no spill: OnChunkInput(true)
AccDecided ==
  /\ s.apc = "decided"
  /\ s' = IF s.aspill
            THEN UlBegin([s EXCEPT !.apc = "unload", !.pending = @ + 1, !.cInP = @ + 1], "acc", s.ahand)
            ELSE [s EXCEPT !.apc = "enq", !.pending = @ + 1, !.cInT = @ + 1]
\*   UnloadOrDropChunk returned
AccUnloaded ==
  /\ s.apc = "unload" /\ s.ul["acc"].st = "done"
  /\ s' = IF UlOk("acc")
            THEN [s EXCEPT !.apc = "enq", !.ahand = s.ul["acc"].c, !.ul["acc"] = U0]
            ELSE \* OnChunkDropped of an unsaved chunk: pending--, dropped++ ; Accept returns
                 [s EXCEPT !.apc = "end", !.ul["acc"] = U0, !.pending = @ - 1, !.cDrop = @ + 1,
                           !.droppedSet = @ \cup {s.ahand.id}, !.ahand = NOCHUNK]
\* select { case buf.inputChannel <- chunk:   default: }     (the push itself; confirmed by AccEnq)
AccEnqDo ==
  /\ s.apc = "enq"
  /\ s' = IF Len(s.inq) < Q THEN [s EXCEPT !.apc = "enqok", !.inq = Append(@, s.ahand)]
                            ELSE [s EXCEPT !.apc = "enqfull"]
AccEnq ==
  /\ s.apc \in {"enqok", "enqfull"}
  /\ s' = IF s.apc = "enqok"
            THEN [s EXCEPT !.apc = "end", !.ahand = NOCHUNK,
                           !.qT = IF s.ahand.loaded THEN @ + 1 ELSE @, !.qP = IF s.ahand.loaded THEN @ ELSE @ + 1]
            ELSE \* queue overflow: OnChunkDropped: for a saved chunk persistentChunks--, bytes -= len(nil); the file stays
                 [s EXCEPT !.apc = "end", !.ahand = NOCHUNK, !.pending = @ - 1, !.cDrop = @ + 1,
                           !.droppedSet = @ \cup {s.ahand.id},
                           !.gChunks = IF s.ahand.saved THEN @ - 1 ELSE @]
AcceptEnd == s.apc = "end" /\ s' = [s EXCEPT !.apc = "idle"]

(***************************** acc: bufferer.Destroy *****************************)
DestroyBegin == s.rpc = "run" /\ s.apc = "idle" /\ s.dpc = "idle" /\ s' = [s EXCEPT !.dpc = "begin"]
\* chunkMan.WaitPendingChunks(): only with sendAllAtEnd (= no usable directory): wait for pending = 0 or a timeout
DestroyWaited == s.dpc = "begin" /\ s' = [s EXCEPT !.dpc = "waited"]
\* close(buf.inputChannel)
DestroyClose == s.dpc = "waited" /\ s' = [s EXCEPT !.dpc = "closed", !.inClosed = TRUE]
\* buf.inputClosed.Signal()
DestroySignal == s.dpc = "closed" /\ s' = [s EXCEPT !.dpc = "wait", !.inSig = TRUE]
\* buf.feeder.Stopped().Wait(runTimeout)
DestroyEnd == s.dpc = "wait" /\ s.fpc = "stopped" /\ s' = [s EXCEPT !.dpc = "done"]

(***************************** feed: outputFeeder.Run *****************************)
\* chunk, ok := <-feeder.inputChannel       (the receive itself; confirmed by FPop)
FPopDo ==
  /\ s.fpc = "pop" /\ s.inq # <<>>
  /\ s' = [s EXCEPT !.fpc = "popped", !.hand = Head(s.inq), !.inq = Tail(@)]
FPop ==
  /\ s.fpc = "popped"
  /\ s' = [s EXCEPT !.fpc = "load", !.qT = IF s.hand.loaded THEN @ - 1 ELSE @, !.qP = IF s.hand.loaded THEN @ ELSE @ - 1]
FPopClosed == s.fpc = "pop" /\ s.inq = <<>> /\ s.inClosed /\ s' = [s EXCEPT !.fpc = "closeout", !.hand = NOCHUNK]
\* loadToOutput: LoadOrDropChunk; zero-length check
FLoad(res) ==
  /\ s.fpc = "load"
  /\ CASE res = "ok" ->
            /\ (s.hand.loaded \/ (s.hand.id \in s.disk /\ s.hand.id \notin s.zero))
            /\ s' = [s EXCEPT !.fpc = "push"]
       [] res = "err" ->      \* read error: OnChunkDropped(saved, Data nil): persistentChunks--, bytes -= 0; the file stays
            /\ ~s.hand.loaded /\ s.io > 0
            /\ s' = [s EXCEPT !.fpc = "pop", !.io = @ - 1, !.cIo = @ + 1, !.gChunks = @ - 1, !.pending = @ - 1,
                              !.cDrop = @ + 1, !.droppedSet = @ \cup {s.hand.id}, !.hand = NOCHUNK]
       [] res = "corrupt" ->  \* zero-length file: OnChunkCorrupted: unlink, persistentChunks--, pending--, dropped++
            /\ ~s.hand.loaded /\ s.hand.id \in s.zero
            /\ s' = [s EXCEPT !.fpc = "pop", !.disk = @ \ {s.hand.id}, !.zero = @ \ {s.hand.id}, !.gChunks = @ - 1,
                              !.pending = @ - 1, !.cDrop = @ + 1, !.droppedSet = @ \cup {s.hand.id}, !.hand = NOCHUNK]
\* select { case feeder.outputChannel <- chunk:     (the push itself; confirmed by FPush)
FPushDo ==
  /\ s.fpc = "push" /\ Len(s.outq) < M
  /\ s' = [s EXCEPT !.fpc = "pushed", !.outq = Append(@, [id |-> s.hand.id, loaded |-> TRUE, saved |-> s.hand.saved])]
FPush == s.fpc = "pushed" /\ s' = [s EXCEPT !.fpc = "pop", !.hand = NOCHUNK]
\*          case <-feeder.inputClosed.Channel(): return false }  -> lastInputChunk = chunk (as popped, not as loaded)
FPushAbort == s.fpc = "push" /\ s.inSig /\ s' = [s EXCEPT !.fpc = "closeout", !.lastc = s.hand, !.hand = NOCHUNK]
\* close(feeder.outputChannel); feeder.outputClosed.Signal()     (visible to the consumer before the feeder reports it)
FCloseOutDo == s.fpc = "closeout" /\ s' = [s EXCEPT !.fpc = "closedout", !.outClosed = TRUE]
FCloseOut   == s.fpc = "closedout" /\ s' = [s EXCEPT !.fpc = "savein"]
\* saveEverything: for chunk := range feeder.inputChannel { UnloadOrDropChunk }
FSaveIn ==
  /\ s.fpc = "savein" /\ s.inq # <<>> /\ s.ul["feed"].st = "none"
  /\ s' = UlBegin([s EXCEPT !.inq = Tail(@), !.hand = Head(s.inq)], "feed", Head(s.inq))
FSaveInDone == s.fpc = "savein" /\ s.inq = <<>> /\ s.ul["feed"].st = "none" /\ s' = [s EXCEPT !.fpc = "savelast"]
\*                 if lastInputChunk.ID != "" { UnloadOrDropChunk }
FSaveLast ==
  /\ s.fpc = "savelast" /\ s.lastc # NOCHUNK /\ s.ul["feed"].st = "none"
  /\ s' = UlBegin([s EXCEPT !.hand = s.lastc, !.lastc = NOCHUNK], "feed", s.lastc)
FSaveLastSkip == s.fpc = "savelast" /\ s.lastc = NOCHUNK /\ s.ul["feed"].st = "none" /\ s' = [s EXCEPT !.fpc = "saveout"]
\*                 for chunk := range feeder.outputChannel { UnloadOrDropChunk }   (the consumer may still be receiving too)
FSaveOutDo ==
  /\ s.fpc = "saveout" /\ s.outq # <<>> /\ s.ul["feed"].st = "none"
  /\ s' = [s EXCEPT !.fpc = "saveoutpopped", !.outq = Tail(@), !.hand = Head(s.outq)]
FSaveOut == s.fpc = "saveoutpopped" /\ s' = UlBegin([s EXCEPT !.fpc = "saveout"], "feed", s.hand)
FSaveOutDone == s.fpc = "saveout" /\ s.outq = <<>> /\ s.ul["feed"].st = "none" /\ s' = [s EXCEPT !.fpc = "waitcons"]
\*   UnloadOrDropChunk returned inside one of the three loops
FSaved ==
  /\ s.fpc \in {"savein", "savelast", "saveout"} /\ s.ul["feed"].st = "done"
  /\ s' = IF UlOk("feed")
            THEN [s EXCEPT !.ul["feed"] = U0, !.savedAtStop = @ \cup {s.hand.id}, !.hand = NOCHUNK,
                           !.fpc = IF s.fpc = "savelast" THEN "saveout" ELSE s.fpc]
            ELSE [s EXCEPT !.ul["feed"] = U0, !.pending = @ - 1, !.cDrop = @ + 1, !.droppedSet = @ \cup {s.hand.id},
                           !.hand = NOCHUNK, !.fpc = IF s.fpc = "savelast" THEN "saveout" ELSE s.fpc]
\* feeder.consumerCounter.Wait()
FConsDone == s.fpc = "waitcons" /\ s.consFinished /\ s' = [s EXCEPT !.fpc = "closing"]
\* feeder.chunkMan.Close(); feeder.stopped.Signal()
FStopped == s.fpc = "closing" /\ s' = [s EXCEPT !.fpc = "stopped"]

(***************************** cons: the chunk consumer (environment) *****************************)
TakeBegin == s.rpc = "run" /\ s.cpc = "idle" /\ ~s.consFinished /\ s' = [s EXCEPT !.cpc = "taking"]
\*   the receive itself
TakeDo ==
  /\ s.cpc = "taking"
  /\ \/ /\ s.outq # <<>>
        /\ s' = [s EXCEPT !.cpc = "took", !.cur = Head(s.outq), !.outq = Tail(@)]
     \/ /\ s.outq = <<>> /\ s.outClosed
        /\ s' = [s EXCEPT !.cpc = "tookclosed"]
     \/ s' = [s EXCEPT !.cpc = "tooknone"]      \* the consumer gave up waiting
TakeEnd ==
  /\ s.cpc \in {"took", "tookclosed", "tooknone"}
  /\ s' = IF s.cpc = "took"
            THEN LET id == s.cur.id
                     lastId == IF s.delivered = <<>> THEN 0 ELSE s.delivered[Len(s.delivered)]
                 IN [s EXCEPT !.cpc = "idle", !.held = @ \cup {s.cur}, !.cur = NOCHUNK, !.delivered = Append(@, id),
                              !.fifoViol = @ \/ id <= lastId,
                              !.redeliverViol = @ \/ id \in s.confirmed]
            ELSE [s EXCEPT !.cpc = "idle"]
\* OnChunkConsumed(c): RemoveChunk (unlink, then gauges), pending--, consumed++
ConfirmBegin(c) == s.cpc = "idle" /\ c \in s.held /\ s' = [s EXCEPT !.cpc = "confirm1", !.cur = c]
ConfirmUnlink ==
  /\ s.cpc = "confirm1"
  /\ s' = [s EXCEPT !.cpc = "confirm2", !.disk = IF s.cur.saved THEN @ \ {s.cur.id} ELSE @]
ConfirmGauge ==
  /\ s.cpc = "confirm2"
  /\ s' = [s EXCEPT !.cpc = "confirmed", !.pending = @ - 1, !.cCons = @ + 1,
                    !.gChunks = IF s.cur.saved THEN @ - 1 ELSE @,
                    !.gBytes = IF s.cur.saved THEN @ - s.size[s.cur.id] ELSE @,
                    !.dblConfirm = @ \/ s.cur.id \in s.confirmed,
                    !.confirmed = @ \cup {s.cur.id}]
ConfirmEnd == s.cpc = "confirmed" /\ s' = [s EXCEPT !.cpc = "idle", !.held = @ \ {s.cur}, !.cur = NOCHUNK]
\* OnChunkLeftover(c): UnloadChunk, pending--, leftover++ (or dropped++ when it could not be saved)
HandBackBegin(c) ==
  /\ s.cpc = "idle" /\ c \in s.held /\ (EarlyHandBack \/ s.outClosed)
  /\ s' = UlBegin([s EXCEPT !.cpc = "hb", !.cur = c], "cons", c)
HandBackFin ==
  /\ s.cpc = "hb" /\ s.ul["cons"].st = "done"
  /\ s' = IF UlOk("cons")
            THEN [s EXCEPT !.cpc = "hbdone", !.ul["cons"] = U0, !.pending = @ - 1, !.cLeft = @ + 1]
            ELSE \* cannot be kept for the next start: OnChunkDropped (since fix: commit; before, it was counted as leftover)
                 [s EXCEPT !.cpc = "hbdone", !.ul["cons"] = U0, !.pending = @ - 1, !.cDrop = @ + 1,
                           !.droppedSet = @ \cup {s.cur.id}]
HandBackEnd == s.cpc = "hbdone" /\ s' = [s EXCEPT !.cpc = "idle", !.held = @ \ {s.cur}, !.cur = NOCHUNK]
\* OnFinished()
ConsFinish == s.rpc = "run" /\ s.cpc = "idle" /\ s.held = {} /\ ~s.consFinished /\ s' = [s EXCEPT !.consFinished = TRUE]

(***************************** a new generation on the same directory *****************************)
\* NewBufferer + Start: recoverExistingChunks scans the directory (sorted by name) before the feeder is started
RestartScan ==
  /\ s.rpc = "recover"
  /\ s' = [s EXCEPT !.rpc = "recovering", !.rec = IF DirUsable THEN SortedSeq(s.disk) ELSE <<>>,
                    !.cIo = IF DirUsable THEN 0 ELSE 1]    \* newChunkOperator: os.Open(path) failed
\* select { case buf.inputChannel <- chunk: OnChunkInputRecovered ...  default: break RECOVERY_LOOP }
Recover ==
  /\ s.rpc = "recovering" /\ s.rec # <<>>
  /\ LET id == Head(s.rec) IN
       IF Len(s.inq) < Q
         THEN s' = [s EXCEPT !.rec = Tail(@), !.inq = Append(@, [id |-> id, loaded |-> FALSE, saved |-> TRUE]),
                             !.pending = @ + 1, !.cInP = @ + 1, !.gChunks = @ + 1, !.gBytes = @ + s.size[id], !.qP = @ + 1]
         ELSE s' = [s EXCEPT !.rec = <<>>, !.skipped = {s.rec[i] : i \in 1..Len(s.rec)}]
\* go buf.feeder.Run()      (the feeder may act before Start returns to its caller)
StartFeeder ==
  /\ s.rpc = "recovering" /\ s.rec = <<>>
  /\ s' = [s EXCEPT !.rpc = "started", !.fpc = "pop"]
\* Start returns
StartEnd == s.rpc = "started" /\ s' = [s EXCEPT !.rpc = "run"]

(***************************** next-state relation *****************************)
UlNext   == \E p \in Procs : UlCheck(p) \/ UlWrite(p) \/ UlWriteFails(p) \/ UlGauge(p) \/ UlReturn(p)
AccNext  == (\E sz \in Sizes : AcceptStart(sz)) \/ AccDecideDo \/ AccDecided \/ AccUnloaded \/ AccEnqDo \/ AccEnq \/ AcceptEnd
            \/ DestroyBegin \/ DestroyWaited \/ DestroyClose \/ DestroySignal \/ DestroyEnd
FeedNext == FPopDo \/ FPop \/ FPopClosed \/ (\E r \in {"ok", "err", "corrupt"} : FLoad(r)) \/ FPushDo \/ FPush \/ FPushAbort
            \/ FCloseOutDo \/ FCloseOut \/ FSaveIn \/ FSaveInDone \/ FSaveLast \/ FSaveLastSkip \/ FSaveOutDo \/ FSaveOut
            \/ FSaveOutDone \/ FSaved \/ FConsDone \/ FStopped
ConfirmAny  == \E c \in s.held : ConfirmBegin(c)
HandBackAny == \E c \in s.held : HandBackBegin(c)
ConsNext == TakeBegin \/ TakeDo \/ TakeEnd \/ ConfirmAny \/ HandBackAny
            \/ ConfirmUnlink \/ ConfirmGauge \/ ConfirmEnd \/ HandBackFin \/ HandBackEnd \/ ConsFinish
NewGeneration ==
  /\ s.dpc = "done" /\ s.gen < MaxGen
  /\ s' = [f \in DOMAIN s |-> CASE f \in DOMAIN Volatile0 -> Volatile0[f]
                                  [] f = "gen" -> s.gen + 1
                                  [] f = "slack" -> LET d == SumSize(s.size, s.disk) IN IF d > MaxBytes THEN d - MaxBytes ELSE 0
                                  [] OTHER -> s[f]]

Next == UlNext \/ AccNext \/ FeedNext \/ ConsNext \/ NewGeneration \/ RestartScan \/ Recover \/ StartFeeder \/ StartEnd

Spec == Init /\ [][Next]_vars
\* fairness for C18: every step of the code and a consumer that keeps taking, resolves what it holds and finishes
FairSpec == Spec /\ WF_vars(UlNext) /\ WF_vars(FeedNext)
                 /\ WF_vars(DestroyWaited \/ DestroyClose \/ DestroySignal \/ DestroyEnd)
                 /\ WF_vars(TakeDo \/ TakeEnd \/ ConfirmUnlink \/ ConfirmGauge \/ ConfirmEnd \/ HandBackFin \/ HandBackEnd)
                 /\ SF_vars(\E c \in s.held : s.outClosed /\ HandBackBegin(c))
                 /\ SF_vars(s.outClosed /\ ConsFinish)

(***************************** properties *****************************)
Accepted == 1..(s.nextId - 1)
InUl == {s.ul[p].c.id : p \in {q \in Procs : s.ul[q].st # "none"}}
InFlight == (Ids(s.inq) \cup Ids(s.outq) \cup {c.id : c \in s.held} \cup {s.hand.id, s.lastc.id, s.ahand.id, s.cur.id} \cup InUl) \ {0}

\* every accepted chunk is in flight, confirmed, on disk, or counted as dropped
NoSilentLoss      == \A i \in Accepted : i \in InFlight \/ i \in s.confirmed \/ i \in s.disk \/ i \in s.droppedSet
\* ... the same, but tolerating the hand-back that cannot be saved (known finding C03/lost-handback)
NoSilentLossKnown == \A i \in Accepted : i \in InFlight \/ i \in s.confirmed \/ i \in s.disk \/ i \in s.droppedSet \/ i \in s.lost
NothingLost       == s.lost = {}
ConfirmedGone  == \A i \in s.confirmed : i \notin s.disk
ConfirmedOnce  == ~s.dblConfirm /\ ~s.redeliverViol
Fifo           == ~s.fifoViol
\* files the queue accounts for stay within the limit, plus what is being written concurrently
InProgress     == {s.ul[p].c.id : p \in {q \in Procs : s.ul[q].st \in {"write", "gauge"}}}
DiskWithinLimit == SumSize(s.size, s.disk \ s.skipped) <= MaxBytes + s.slack
\* ... and without a consumer that hands back before the shutdown, nothing overshoots before the shutdown
NoOvershootBeforeStop == (~EarlyHandBack /\ s.dpc = "idle") => s.slack = (IF s.gen = 1 THEN 0 ELSE s.slack)
\* the byte gauge never under-counts the files the queue owns (so the limit check errs on the safe side)
GaugeCoversDisk == s.rpc \in {"started", "run"} => SumSize(s.size, (s.disk \ s.skipped) \ InProgress) <= s.gBytes
\* chunk accounting (C19): accepted + recovered = consumed + leftover + dropped + still pending
ChunkBalance   == s.cInT + s.cInP = s.cCons + s.cLeft + s.cDrop + s.pending
PendingMatches == (s.apc = "idle" /\ s.cpc = "idle" /\ s.ul["feed"].st = "none" /\ s.fpc \notin {"popped"})
                    => s.pending = Cardinality(InFlight) + Cardinality(s.savedAtStop)
\* after a completed shutdown with a usable directory nothing is only in memory (C18)
AllPersisted   == (s.dpc = "done" /\ DirUsable) => \A i \in Accepted : i \in s.confirmed \/ i \in s.disk \/ i \in s.droppedSet \/ i \in s.lost
TypeOK == s.pending \in Int /\ s.gBytes \in Int /\ s.gChunks \in Int /\ s.qT \in Int /\ s.qP \in Int

DestroyTerminates == (s.dpc = "begin") ~> (s.dpc = "done")
=============================================================================
