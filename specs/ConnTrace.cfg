SPECIFICATION TSpec
CONSTANTS
 TraceFile = "trace.ndjson"
 Tol = 150
CONSTRAINT HWM
POSTCONDITION Accepted_
CHECK_DEADLOCK FALSE
