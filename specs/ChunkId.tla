------------------------------- MODULE ChunkId -------------------------------
(***************************************************************************
 output/shared/chunkidgen.go: chunk ids are "<epoch>-<sequence><suffix>"; the
 epoch is the latest wall-clock reading that moved forward, the sequence counts
 the ids made since.  The id is the chunk's storage name (C11: unique), and the
 order of the names is the order in which a restarted agent takes the chunks
 back (C03, C05: creation order) - for every behaviour of the wall clock,
 including readings that repeat or step backwards.
 ***************************************************************************)
EXTENDS Integers, Sequences
CONSTANTS Clock, MaxIds          \* clock readings the environment may give; ids per behaviour
VARIABLES epoch, seq, ids        \* ids: the ids made so far, as <<epoch, sequence>>
vars == <<epoch, seq, ids>>
Init == epoch = 0 /\ seq = 0 /\ ids = <<>>
Gen(t) == /\ Len(ids) < MaxIds
          /\ IF t > epoch THEN epoch' = t /\ seq' = 0 ELSE epoch' = epoch /\ seq' = seq + 1
          /\ ids' = Append(ids, <<epoch', seq'>>)
Next == \E t \in Clock : Gen(t)
Spec == Init /\ [][Next]_vars
Less(a, b) == a[1] < b[1] \/ (a[1] = b[1] /\ a[2] < b[2])
Unique == \A i, j \in 1..Len(ids) : i # j => ids[i] # ids[j]
CreationOrder == \A i \in 1..(Len(ids) - 1) : Less(ids[i], ids[i + 1])
=============================================================================
