---------------------------- MODULE ConnTrace ----------------------------
(***************************************************************************
 Observer for the real Forward connection (output/fluentdforward
 forwardConnection, plain TCP and TLS) driven against a scripted peer by
 drv/fc.  Every operation's end (event Ret: result, elapsed ms, when Close was
 called) has to be one of the ends Connection.tla allows for the peer's
 behaviour - "ok", "peer", "deadline", "closed" - at the time the model
 allows it, within Tol ms:
   ok        only with the id the peer really wrote (also a wrong one: the connection reports, the session judges),
             not after the deadline
   peer      the peer closed, reset or wrote something that is no ACK: an error at once
   deadline  an error at the deadline, not earlier and not more than Tol later
   closed    an error when Close was called, not more than Tol later; after Close every operation fails at once
 and where the peer's behaviour leaves no choice the end is prescribed (a peer
 that acknowledges in time -> ok; a silent peer -> never ok; a peer that does
 not read a chunk larger than the socket buffers -> never ok).  An operation
 that has not ended 2 s after its deadline is reported by the driver as hung;
 no end explains it.  Opening: with a shared key the handshake succeeds with a
 peer holding the same key, fails at once when the peer holds another key or
 refuses the login, and fails at the handshake timeout when the peer never
 sends HELO.
 ***************************************************************************)
EXTENDS Integers, Sequences, FiniteSets, TLC, Json
CONSTANTS TraceFile, Tol
Trace == ndJsonDeserialize(TraceFile)
VARIABLES l, o
E == Trace[l]
O0 == [peer |-> "acks", k |-> 0, op |-> "none", lateMs |-> 0, closeAtMs |-> -1, sendSize |-> 0,
       lastSent |-> "", peerWrote |-> {}, closed |-> FALSE, finalSeen |-> FALSE, opened |-> FALSE]

Min(a, b) == IF a < b THEN a ELSE b
\* the bound of the operation: its deadline, or the moment Close was called if that came first
Bound(e) == IF e.closedAtMs >= 0 THEN Min(e.deadlineMs, e.closedAtMs) ELSE e.deadlineMs

\* the ends Connection.tla allows for this operation, given what the scripted peer does
Allowed(e) ==
  IF e.phase = "afterClose" THEN {"closed"}
  ELSE IF e.phase = "prelude" THEN {"ok"}
  ELSE (IF o.closeAtMs >= 0 THEN {"closed"} ELSE {}) \cup
       (CASE e.op = "ack" ->
               CASE o.peer \in {"acks", "wrong"} -> {"ok"}
                 [] o.peer \in {"silent", "noread"} -> {"deadline"}
                 [] o.peer \in {"closes", "resets", "garbage"} -> {"peer"}
                 [] o.peer = "late" -> (IF o.lateMs - 30 <= Bound(e) THEN {"ok"} ELSE {}) \cup (IF o.lateMs + 60 >= e.deadlineMs THEN {"deadline"} ELSE {})
                 [] OTHER -> {}
          [] e.op = "send" -> IF o.peer = "noread" /\ o.sendSize >= 16000000 THEN {"deadline"} ELSE {"ok"}
          [] e.op = "ping" -> {"ok"}
          [] OTHER -> {})

Fits(how, e) ==
  CASE how = "ok" -> /\ e.ok /\ e.ms <= e.deadlineMs + 2
                     /\ (e.op = "ack" => /\ e.id \in o.peerWrote             \* only what the peer really wrote
                                         /\ e.id = (IF o.peer = "wrong" /\ e.phase = "final" THEN "not-" \o o.lastSent ELSE o.lastSent))
                     /\ (e.op = "ack" /\ o.peer = "late" /\ e.phase = "final" => e.ms >= o.lateMs - 2)
    [] how = "peer" -> ~e.ok /\ e.ms <= Tol
    [] how = "deadline" -> ~e.ok /\ e.ms >= e.deadlineMs - 2 /\ e.ms <= e.deadlineMs + Tol
    [] how = "closed" -> /\ ~e.ok
                         /\ IF e.phase = "afterClose" THEN o.closed /\ e.ms <= Tol
                            ELSE e.closedAtMs >= 0 /\ e.ms >= e.closedAtMs - 2 /\ e.ms <= e.closedAtMs + Tol
    [] OTHER -> FALSE

TInit == l = 1 /\ o = O0 /\ TLCSet(1, 1)
TNext ==
  /\ l <= Len(Trace) /\ l' = l + 1
  /\ CASE E.ev = "Case" -> o' = [O0 EXCEPT !.peer = E.peer, !.k = E.k, !.op = E.op, !.lateMs = E.lateMs, !.closeAtMs = E.closeAtMs, !.sendSize = E.sendSize]
       [] E.ev = "OpenRet" ->          \* opening, with the shared-key handshake if a secret is configured
            /\ CASE E.secret \in {"", "right"} -> E.ok
                 [] E.secret \in {"wrongkey", "reject"} -> ~E.ok /\ E.ms <= Tol                  \* refused: an error at once
                 [] E.secret = "mute" -> ~E.ok /\ E.ms >= E.hsTimeoutMs - 2 /\ E.ms <= E.hsTimeoutMs + Tol   \* no HELO: an error at the handshake timeout
                 [] E.secret = "tlsmute" -> ~E.ok /\ E.ms >= E.connTimeoutMs - 2 /\ E.ms <= E.connTimeoutMs + Tol   \* no TLS handshake: an error at the connection timeout
                 [] OTHER -> FALSE
            /\ o' = [o EXCEPT !.opened = E.ok]
       [] E.ev = "PeerGot" -> UNCHANGED o
       [] E.ev = "PeerGotPing" -> UNCHANGED o
       [] E.ev = "PeerAcks" -> o' = [o EXCEPT !.peerWrote = @ \cup {E.id}]
       [] E.ev = "Ret" ->
            /\ ~E.hung /\ o.opened
            /\ IF \E how \in Allowed(E) : Fits(how, E) THEN TRUE ELSE FALSE        \* (IF: one successor, whichever explanation fits)
            /\ o' = [o EXCEPT !.lastSent = IF E.op = "send" /\ E.phase # "afterClose" THEN E.id ELSE @,
                              !.finalSeen = @ \/ E.phase = "final"]
       [] E.ev = "Closed" -> o.finalSeen /\ o' = [o EXCEPT !.closed = TRUE]
       [] E.ev = "End" -> (o.closed \/ ~o.opened) /\ UNCHANGED o
       [] E.ev = "RESET" -> o' = O0
       [] OTHER -> FALSE      \* HarnessError
TSpec == TInit /\ [][TNext]_<<l, o>>
HWM == IF l > TLCGet(1) THEN TLCSet(1, l) ELSE TRUE
Accepted_ == IF TLCGet(1) = Len(Trace) + 1 THEN TRUE
             ELSE PrintT(<<"HWM", TLCGet(1), Trace[TLCGet(1)]>>) /\ FALSE
=============================================================================
