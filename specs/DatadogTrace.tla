---------------------------- MODULE DatadogTrace ----------------------------
(***************************************************************************
 Observer for the second output: the real Datadog client (the shared
 baseoutput client over an HTTP "connection": synchronous request, status >= 300
 or a transport error is a failed send, anonymous immediate acknowledgement,
 Close cancels the request in flight) against a scripted intake (drv/dd).  The clauses of C02 / C01
 / C05 / C18 as they read for this connection type:
   ConfirmOnlyAfterSuccess   a chunk is confirmed to the buffer only after the intake answered 2xx to it
   ResolvedOnce              every chunk the client took is confirmed or handed back, exactly once; nothing after OnFinished
   OldestFirst               a chunk reaches the intake for the first time only when every older one was answered 2xx
   StopBounded               OnFinished follows the stop within a bound that does not depend on httpTimeout (Close ends a
                             request the intake never answers)
   EventuallyDelivered       with an intake that answers 2xx from some point on, every chunk is confirmed
 ***************************************************************************)
EXTENDS Integers, Sequences, FiniteSets, TLC, Json
CONSTANTS TraceFile, StopBoundMs
Trace == ndJsonDeserialize(TraceFile)
VARIABLES l, o
E == Trace[l]
O0 == [n |-> 0, pushed |-> {}, seen |-> {}, ok |-> {}, consumed |-> {}, left |-> {}, stopped |-> FALSE, finished |-> FALSE, drained |-> FALSE]
SeqToSet(q) == {q[i] : i \in 1..Len(q)}
TInit == l = 1 /\ o = O0 /\ TLCSet(1, 1)
TNext ==
  /\ l <= Len(Trace) /\ l' = l + 1
  /\ CASE E.ev = "History" -> o' = [O0 EXCEPT !.n = E.n]
       [] E.ev = "Push" -> E.id = Cardinality(o.pushed) + 1 /\ ~o.stopped /\ o' = [o EXCEPT !.pushed = @ \cup {E.id}]
       [] E.ev = "ServerGot" ->
            /\ E.id \in o.pushed /\ ~o.finished
            /\ (E.id \notin o.seen => \A j \in 1..(E.id - 1) : j \in o.ok)                  \* OldestFirst
            /\ o' = [o EXCEPT !.seen = @ \cup {E.id},
                              !.ok = IF E.how = "answer" /\ E.status < 300 THEN @ \cup {E.id} ELSE @]   \* success as the client defines it (clientworker.go SendChunk)
       [] E.ev = "Consumed" ->
            /\ E.id \in o.ok                                                                 \* ConfirmOnlyAfterSuccess
            /\ E.id \notin o.consumed /\ E.id \notin o.left /\ ~o.finished                  \* ResolvedOnce
            /\ o' = [o EXCEPT !.consumed = @ \cup {E.id}]
       [] E.ev = "Leftover" ->
            /\ o.stopped /\ E.id \in o.pushed /\ E.id \notin o.consumed /\ E.id \notin o.left /\ ~o.finished
            /\ o' = [o EXCEPT !.left = @ \cup {E.id}]
       [] E.ev = "DrainWaited" -> o.consumed = o.pushed /\ o' = [o EXCEPT !.drained = TRUE]      \* EventuallyDelivered
       [] E.ev = "Stop" -> ~o.stopped /\ o' = [o EXCEPT !.stopped = TRUE]
       [] E.ev = "Finished" -> o.stopped /\ ~o.finished /\ o' = [o EXCEPT !.finished = TRUE]
       [] E.ev = "Stopped" -> o.finished /\ E.ms <= StopBoundMs /\ UNCHANGED o                   \* StopBounded
       [] E.ev = "Untaken" ->
            /\ o.finished
            /\ LET u == SeqToSet(E.ids) IN
               /\ o.pushed = o.consumed \cup o.left \cup u                                      \* every chunk is accounted for
               /\ o.consumed \cap o.left = {} /\ u \cap (o.consumed \cup o.left) = {}
               /\ \A i \in u, j \in o.consumed \cup o.left : j < i                               \* the untaken ones are the newest
            /\ UNCHANGED o
       [] E.ev = "RESET" -> o' = O0
       [] OTHER -> FALSE      \* HUNG, HarnessError
TSpec == TInit /\ [][TNext]_<<l, o>>
HWM == IF l > TLCGet(1) THEN TLCSet(1, l) ELSE TRUE
Accepted_ == IF TLCGet(1) = Len(Trace) + 1 THEN TRUE
             ELSE PrintT(<<"HWM", TLCGet(1), Trace[TLCGet(1)]>>) /\ FALSE
=============================================================================
