SPECIFICATION Spec
CONSTANTS
 Objs = {o1, o2, o3}
 MaxRecs = 6
 Outputs = 2
INVARIANTS TypeOK RefcountSane NoForeignProvenance PooledIsClean LeakedNeverReused
CHECK_DEADLOCK FALSE
