---------------------------- MODULE Syslog ----------------------------
(***************************************************************************
 Reference definition for the RFC 5424 header parser (input/syslogparser):
 which lines are well-formed, the fields a well-formed line must yield, the
 UTF-8-safe cut of over-long messages, and the accounting of every message.
 Lines, tokens and messages are sequences of byte values; facility and level
 names are TLA+ strings.
 ***************************************************************************)
EXTENDS Integers, Sequences, TLC

CONSTANTS MaxMsg,   \* defs.InputLogMaxMessageBytes in the run that produced the trace
          MaxRec,   \* defs.InputLogMaxRecordBytes: header fields + kept message never exceed it
          MinLen    \* minimal supported line length (32)

FacilityNames == <<"kern", "user", "mail", "daemon", "auth", "syslog", "lpr", "news", "uucp", "cron", "authpriv", "ftp",
                   "ntp", "audit", "alert", "clock", "local0", "local1", "local2", "local3", "local4", "local5", "local6", "local7">>

Digit(c) == c >= 48 /\ c <= 57
SP == 32

\* positions of the first n spaces of s at or after position i (as a sequence; shorter if there are fewer)
RECURSIVE Spaces(_, _, _)
Spaces(s, i, n) == IF n = 0 \/ i > Len(s) THEN <<>>
                   ELSE IF s[i] = SP THEN <<i>> \o Spaces(s, i + 1, n - 1) ELSE Spaces(s, i + 1, n)

RECURSIVE Num(_, _, _)
Num(s, a, b) == IF a > b THEN 0 ELSE Num(s, a, b - 1) * 10 + (s[b] - 48)

\* <PRI>1 with PRI in canonical decimal 0..191; the first token ends at position e (before the first space)
PriOk(s, e) ==
  /\ e >= 4 /\ e <= 6 /\ s[1] = 60 /\ s[e - 1] = 62 /\ s[e] = 49
  /\ \A i \in 2..(e - 2) : Digit(s[i])
  /\ (e - 2 > 2 => s[2] # 48)
  /\ Num(s, 2, e - 2) <= 191
Pri(s, e) == Num(s, 2, e - 2)

\* a well-formed line: long enough, canonical PRI + version 1, six non-empty tokens, then the message (possibly empty)
WellFormed(s) ==
  /\ Len(s) >= MinLen
  /\ LET sp == Spaces(s, 1, 7) IN
       /\ Len(sp) = 7
       /\ PriOk(s, sp[1] - 1)
       /\ \A k \in 1..6 : sp[k + 1] > sp[k] + 1

Token(s, k) == LET sp == Spaces(s, 1, 7) IN SubSeq(s, sp[k] + 1, sp[k + 1] - 1)      \* k = 1..6
Message(s)  == LET sp == Spaces(s, 1, 7) IN SubSeq(s, sp[7] + 1, Len(s))

(* ---- UTF-8 ---- *)
Cont(c) == c >= 128 /\ c <= 191
Need(c) == CASE c <= 127 -> 1 [] c >= 194 /\ c <= 223 -> 2 [] c >= 224 /\ c <= 239 -> 3 [] c >= 240 /\ c <= 244 -> 4 [] OTHER -> 0
\* s is a concatenation of well-formed sequences (structure only: lead byte + the right number of continuation bytes)
RECURSIVE ValidFrom(_, _)
ValidFrom(s, i) == IF i > Len(s) THEN TRUE
                   ELSE LET n == Need(s[i]) IN
                        n >= 1 /\ i + n - 1 <= Len(s) /\ (\A j \in (i + 1)..(i + n - 1) : Cont(s[j])) /\ ValidFrom(s, i + n)
Valid(s) == ValidFrom(s, 1)
\* the longest prefix of s[1..n] that ends on a character boundary (s valid UTF-8): drop the trailing incomplete sequence
RECURSIVE BoundaryAtOrBefore(_, _)
BoundaryAtOrBefore(s, n) == IF n = 0 THEN 0
                            ELSE IF n = Len(s) \/ ~Cont(s[n + 1]) THEN n ELSE BoundaryAtOrBefore(s, n - 1)
\* the header (everything up to and including the seventh space) is kept as it is; the message is cut so that both
\* fit in the maximum record length (the listener's limit is soft); a header that alone exceeds it is refused
HeaderLen(s) == Spaces(s, 1, 7)[7]
MsgLimit(s) == IF HeaderLen(s) + MaxMsg > MaxRec THEN MaxRec - HeaderLen(s) ELSE MaxMsg
CutMessageTo(m, lim) == IF Len(m) <= lim THEN m ELSE SubSeq(m, 1, BoundaryAtOrBefore(m, lim))

HasNewline(m) == \E i \in 1..Len(m) : m[i] = 10

\* input/syslogprotocol TestRecordStart: the test by which the listener tells the first line of a record from a
\* continuation line: at least MinLen bytes, "<", one to three digits, ">1 "
RecordStart(s) == /\ Len(s) >= MinLen /\ s[1] = 60
                  /\ \E k \in 1..3 : /\ \A j \in 2..(k + 1) : Digit(s[j])
                                     /\ s[k + 2] = 62 /\ s[k + 3] = 49 /\ s[k + 4] = SP

\* event e recorded from one call of the real parser on line e.in
Check(e) ==
  LET s == e.in IN
  /\ e.res # "panic"
  \* the listener's record-start test is the reference one, and it recognises the first line of every well-formed record
  \* (otherwise the record would be glued to the one before it)
  /\ e.start = RecordStart(s)
  /\ (WellFormed(s) /\ ~HasNewline(s)) => e.start
  \* every message is counted exactly once, with its byte length, as passed or dropped
  /\ (e.res = "record" => e.dPass = 1 /\ e.dPassB = Len(s) /\ e.dDrop = 0 /\ e.dDropB = 0)
  /\ (e.res = "drop"   => e.dDrop = 1 /\ e.dDropB = Len(s) /\ e.dPass = 0 /\ e.dPassB = 0)
  \* a well-formed line whose header fits yields a record with exactly its fields; an oversized header is refused
  /\ (WellFormed(s) /\ HeaderLen(s) > MaxRec) => e.res = "drop"
  /\ (WellFormed(s) /\ HeaderLen(s) <= MaxRec) =>
       /\ e.res = "record"
       /\ LET sp  == Spaces(s, 1, 7)
              pri == Pri(s, sp[1] - 1)
              m   == Message(s)
              lim == MsgLimit(s)
          IN /\ e.facility = FacilityNames[(pri \div 8) + 1]
             /\ e.level = e.mapping[(pri % 8) + 1]
             /\ \A k \in 1..6 : e.tokens[k] = Token(s, k)
             /\ (Valid(m) => e.msg = CutMessageTo(m, lim))
             /\ (Len(m) > lim => (e.dOvf = 1 /\ e.dOvfB = Len(s) /\ Len(e.msg) <= lim))
             /\ (Len(m) <= lim => e.dOvf = 0)
             /\ e.unescaped = HasNewline(e.msg)
=============================================================================
