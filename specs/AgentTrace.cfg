SPECIFICATION TSpec
CONSTANTS
 TraceFile = "trace.ndjson"
 StopBoundMs = 4000
 P01 = TRUE
 P05 = TRUE
 P17 = TRUE
 P18 = TRUE
 P19 = TRUE
CONSTRAINT HWM
POSTCONDITION Accepted_
CHECK_DEADLOCK FALSE
