SPECIFICATION TSpec
CONSTANTS
 TraceFile = "trace.ndjson"
 Conns = {1, 2, 3}
 Keys = {"a", "b", "c"}
 Sizes = {1, 2, 5}
 MaxLogs = 3
 MaxBytes = 8
 MaxRecs = 100000
 MaxAdv = 100000
 MaxRefused = 100000
CONSTRAINT HWM
INVARIANTS Conservation OrderPerConnKey RightChannel NoEmptyBatch NothingLeftAfterClose Bounded PipesOk
POSTCONDITION Accepted_
CHECK_DEADLOCK FALSE
