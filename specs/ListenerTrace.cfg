SPECIFICATION TSpec
CONSTANTS
 TraceFile = "trace.ndjson"
 StopBoundMs = 1500
CONSTRAINT HWM
POSTCONDITION Accepted_
CHECK_DEADLOCK FALSE
