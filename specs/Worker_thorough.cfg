SPECIFICATION LiveSpec
CONSTANTS
 Outs = 2
 MaxChunk = 3
 Cap = 2
 MaxRecs = 6
 MaxBatch = 3
 MaxTicks = 3
INVARIANTS InOrderOnce NothingHeldBack NoEmptyChunk ChunkWithinLimit Accounted
PROPERTIES NothingAfterStopped StopTerminates
CHECK_DEADLOCK FALSE
