---------------------------- MODULE ConfigTrace ----------------------------
(***************************************************************************
 Trace validation of the real loader against Config.tla: the events of drv/cfg
 (one child process per batch of files; a panic or exit of the child is the
 event "Crashed", which no action explains).
 ***************************************************************************)
EXTENDS Config, Sequences, TLC, Json
CONSTANTS TraceFile
Trace == ndJsonDeserialize(TraceFile)
VARIABLES l, id
E == Trace[l]
\* the verdict of a kind is re-derived here from the catalogue of Config.tla (the driver's own "must" field is only compared)
MustOf(e) == IF e.class \in {"BASE", "RANDOM"} THEN "accept"
             ELSE IF e.class = "PAIR" THEN e.must
             ELSE IF e.kind \in MustRejectKinds THEN "reject" ELSE "free"

TInit == l = 1 /\ id = 0 /\ c = C0 /\ TLCSet(1, 1)
TNext ==
  /\ l <= Len(Trace) /\ l' = l + 1
  /\ CASE E.ev = "Begin" -> /\ E.class \in Classes /\ E.must = MustOf(E)
                            /\ Choose(E.class, MustOf(E)) /\ id' = E.id
       [] E.ev = "Loaded" -> /\ E.id = id /\ id' = id
                             /\ IF E.res = "accepted" THEN LoadAccept ELSE E.res = "rejected" /\ LoadReject
       [] E.ev = "Instantiated" -> E.id = id /\ id' = id /\ Instantiate
       [] E.ev = "Processed" -> E.id = id /\ id' = id /\ E.feedError = "" /\ Process(E.sent, E.accounted)
                                /\ E.procPassed + E.procDropped = E.inPassed   \* every record the input passed was processed by a pipeline
       [] E.ev = "Reloaded" -> /\ E.id = id /\ id' = id /\ E.success + E.failure = 1
                               /\ Reload(IF E.success = 1 THEN "ok" ELSE "refused", E.sent, E.accounted)
       [] E.ev = "Crashed" /\ E.how = "fatal" /\ E.stage = "instantiate" -> E.id = id /\ id' = id /\ FatalExit
       [] E.ev = "End" -> E.id = id /\ id' = id /\ End
       [] OTHER -> FALSE      \* Crashed (panic / exit at load, instantiation, processing, reload), HarnessError
TSpec == TInit /\ [][TNext]_<<l, id, c>>
HWM == IF l > TLCGet(1) THEN TLCSet(1, l) ELSE TRUE
Accepted_ == IF TLCGet(1) = Len(Trace) + 1 THEN TRUE
             ELSE PrintT(<<"HWM", TLCGet(1), Trace[TLCGet(1)]>>) /\ FALSE
=============================================================================
