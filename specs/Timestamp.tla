---------------------------- MODULE Timestamp ----------------------------
(***************************************************************************
 Reference definition for the parseTime transform (transform/tparsetime):
 which strings are valid RFC 3339 timestamps, the instant each denotes - in
 integer arithmetic, as <<days since 1970-01-01, second of the day, nanosecond>>
 in UTC - and which strings are "not even shaped like a date-time".
 Strings are sequences of byte values.
 ***************************************************************************)
EXTENDS Integers, Sequences, TLC

Digit(c) == c >= 48 /\ c <= 57
Dg(s, i) == s[i] - 48
N2(s, i) == Dg(s, i) * 10 + Dg(s, i + 1)
N4(s, i) == Dg(s, i) * 1000 + Dg(s, i + 1) * 100 + Dg(s, i + 2) * 10 + Dg(s, i + 3)
AllDigits(s, a, b) == \A i \in a..b : Digit(s[i])

\* "shaped like a date-time": long enough and the five separators are where they belong
Shaped(s) == Len(s) >= 19 /\ s[5] = 45 /\ s[8] = 45 /\ s[11] = 84 /\ s[14] = 58 /\ s[17] = 58

Leap(y) == (y % 4 = 0 /\ y % 100 # 0) \/ y % 400 = 0
DaysIn(y, m) == CASE m \in {1, 3, 5, 7, 8, 10, 12} -> 31
                  [] m \in {4, 6, 9, 11} -> 30
                  [] OTHER -> IF Leap(y) THEN 29 ELSE 28

\* position after the fraction: 20 if there is none, else after the digits following the dot at 20
RECURSIVE DigitsEnd(_, _)
DigitsEnd(s, i) == IF i <= Len(s) /\ Digit(s[i]) THEN DigitsEnd(s, i + 1) ELSE i
FracEnd(s) == IF Len(s) >= 20 /\ s[20] = 46 THEN DigitsEnd(s, 21) ELSE 20
FracLen(s) == IF FracEnd(s) = 20 THEN 0 ELSE FracEnd(s) - 21

\* the trailer after the seconds is shaped like [.digits][zone]: an optional dot with at least one digit, then nothing or
\* something that has the form of a zone designator (Z | sign dd:dd | sign dddd, d any digit)
ZoneShaped(s, z) ==
  LET n == Len(s) - z + 1 IN
  \/ n = 0
  \/ n = 1 /\ s[z] = 90
  \/ n = 6 /\ s[z] \in {43, 45} /\ AllDigits(s, z + 1, z + 2) /\ s[z + 3] = 58 /\ AllDigits(s, z + 4, z + 5)
  \/ n = 5 /\ s[z] \in {43, 45} /\ AllDigits(s, z + 1, z + 4)
TrailerShaped(s) == (Len(s) >= 20 /\ s[20] = 46 => FracLen(s) >= 1) /\ ZoneShaped(s, FracEnd(s))
\* "shaped like a date-time" as a whole: truncated or wrongly separated trailers (".", "+03:0", " UTC", "+") are not
ShapedWhole(s) == Shaped(s) /\ TrailerShaped(s)

\* the zone designator starting at position z: Z | (+|-)hh:mm | (+|-)hhmm ; returns <<ok, offset seconds>>
Zone(s, z) ==
  LET n == Len(s) - z + 1 IN
  IF n = 1 /\ s[z] = 90 THEN <<TRUE, 0>>
  ELSE IF n = 6 /\ s[z] \in {43, 45} /\ AllDigits(s, z + 1, z + 2) /\ s[z + 3] = 58 /\ AllDigits(s, z + 4, z + 5)
            /\ N2(s, z + 1) <= 23 /\ N2(s, z + 4) <= 59
         THEN <<TRUE, (IF s[z] = 45 THEN -1 ELSE 1) * (N2(s, z + 1) * 3600 + N2(s, z + 4) * 60)>>
  ELSE IF n = 5 /\ s[z] \in {43, 45} /\ AllDigits(s, z + 1, z + 4) /\ N2(s, z + 1) <= 23 /\ N2(s, z + 3) <= 59
         THEN <<TRUE, (IF s[z] = 45 THEN -1 ELSE 1) * (N2(s, z + 1) * 3600 + N2(s, z + 3) * 60)>>
  ELSE <<FALSE, 0>>

\* a valid RFC 3339 timestamp with up to nine fractional digits and a numeric offset or Z
Valid(s) ==
  /\ Shaped(s)
  /\ AllDigits(s, 1, 4) /\ AllDigits(s, 6, 7) /\ AllDigits(s, 9, 10) /\ AllDigits(s, 12, 13) /\ AllDigits(s, 15, 16)
  /\ AllDigits(s, 18, 19)
  /\ N2(s, 6) \in 1..12 /\ N2(s, 9) >= 1 /\ N2(s, 9) <= DaysIn(N4(s, 1), N2(s, 6))
  /\ N2(s, 12) <= 23 /\ N2(s, 15) <= 59 /\ N2(s, 18) <= 59
  /\ (Len(s) >= 20 /\ s[20] = 46 => FracLen(s) \in 1..9)
  /\ FracEnd(s) <= Len(s) /\ Zone(s, FracEnd(s))[1]

\* days from civil date (proleptic Gregorian), integer arithmetic
DaysFromCivil(y, m, d) ==
  LET yy  == IF m <= 2 THEN y - 1 ELSE y
      era == yy \div 400
      yoe == yy - era * 400
      mp  == (m + 9) % 12
      doy == (153 * mp + 2) \div 5 + d - 1
      doe == yoe * 365 + yoe \div 4 - yoe \div 100 + doy
  IN era * 146097 + doe - 719468

RECURSIVE Pow10(_)
Pow10(n) == IF n = 0 THEN 1 ELSE 10 * Pow10(n - 1)
RECURSIVE NumFrom(_, _, _)
NumFrom(s, a, b) == IF a > b THEN 0 ELSE NumFrom(s, a, b - 1) * 10 + Dg(s, b)

\* the instant denoted by a valid timestamp
Instant(s) ==
  LET days == DaysFromCivil(N4(s, 1), N2(s, 6), N2(s, 9))
      secs == N2(s, 12) * 3600 + N2(s, 15) * 60 + N2(s, 18) - Zone(s, FracEnd(s))[2]
      dd   == secs \div 86400          \* floor: -1, 0 or 1
      ns   == IF FracLen(s) = 0 THEN 0 ELSE NumFrom(s, 21, FracEnd(s) - 1) * Pow10(9 - FracLen(s))
  IN <<days + dd, secs - dd * 86400, ns>>

\* what the transform must do with value s of the time field (event e recorded from the real transform)
Check(e) ==
  LET s == e.in IN
  /\ e.res # "panic"
  /\ ~ShapedWhole(s) => (e.res = "err" /\ e.counted /\ e.kept)
  /\ Valid(s) => (e.res = "ok" /\ ~e.counted /\ <<e.days, e.sod, e.ns>> = Instant(s))
  /\ e.res = "err" => (e.counted /\ e.kept)
  /\ e.res = "ok" => ~e.counted

\* anchors that guard the reference definition itself (evaluated by TLC at start-up)
ASSUME /\ DaysFromCivil(1970, 1, 1) = 0 /\ DaysFromCivil(1969, 12, 31) = -1 /\ DaysFromCivil(2000, 3, 1) = 11017
       /\ DaysFromCivil(2038, 1, 19) = 24855 /\ DaysFromCivil(2024, 2, 29) = 19782 /\ DaysFromCivil(1, 1, 1) = -719162
       /\ DaysIn(1900, 2) = 28 /\ DaysIn(2000, 2) = 29 /\ Pow10(9) = 1000000000
=============================================================================
