-------------------------- MODULE RecordPoolTrace --------------------------
(***************************************************************************
 Trace validation for C12 (drv/rp): the allocator events of the real
 LogAllocator replay the allocator actions of RecordPool (AllocNew /
 AllocRelease / AllocRecycle) with the observed cleanliness of every object
 taken from the pool; the Out events carry, per record and output, the decoded
 output of the long-lived agent, the output of the same record processed alone
 on fresh components, and the provenance tokens found in the long-run output.
 ***************************************************************************)
EXTENDS Integers, Sequences, FiniteSets, TLC, Json
CONSTANTS TraceFile, MaxObj, Outputs
Objs == 1..MaxObj
MaxRecs == 0
VARIABLES l, where, refs
INSTANCE RecordPool WITH owner <- 0, slot <- 0, stage <- 0, done <- 0, next <- 0
Trace == ndJsonDeserialize(TraceFile)
E == Trace[l]
SeqToSet(q) == {q[i] : i \in 1..Len(q)}

TInit == /\ l = 1 /\ where = [o \in Objs |-> "fresh"] /\ refs = [o \in Objs |-> 0] /\ TLCSet(1, 1)
TNext ==
  /\ l <= Len(Trace) /\ l' = l + 1
  /\ CASE E.ev = "alloc.new" ->
            /\ E.obj \in Objs
            /\ (E.fresh <=> where[E.obj] = "fresh")       \* an object seen before comes out of the pool only after its recycling
            /\ AllocNew(E.obj, E.outputs)
            /\ E.refs = refs'[E.obj] /\ E.refs = E.outputs \* RefcountSane: a pooled object has no reference left
            /\ E.stale = 0                                 \* PooledIsClean: every field, the length and the timestamp are empty
       [] E.ev = "alloc.release" -> AllocRelease(E.obj) /\ E.refs = refs'[E.obj]
       [] E.ev = "alloc.recycle" -> AllocRecycle(E.obj)
       [] E.ev = "Out" ->
            /\ E.longCount = E.aloneCount /\ E.longCount <= 1    \* delivered exactly when it is delivered alone, once
            /\ E.long = E.alone /\ E.longTag = E.aloneTag         \* the output depends only on the record and the configuration
            /\ SeqToSet(E.prov) \subseteq {E.n}                   \* NoForeignProvenance: no byte of another record
            /\ UNCHANGED <<where, refs>>
       [] E.ev = "Run" -> /\ E.allAccounted /\ E.decodeErrors = 0 /\ E.badLabels = <<>>
                          /\ E.gatherErrors = 0      \* the metric registry is consistent (no two pipelines / key sets with the same labels)
                          /\ where' = [o \in Objs |-> "fresh"] /\ refs' = [o \in Objs |-> 0] \* the next agent has its own allocator
       [] E.ev = "OutputDone" -> E.unowned = 0 /\ E.reused > 0 /\ UNCHANGED <<where, refs>>
       [] OTHER -> FALSE
TSpec == TInit /\ [][TNext]_<<l, where, refs>>
HWM == IF l > TLCGet(1) THEN TLCSet(1, l) ELSE TRUE
Accepted_ == IF TLCGet(1) = Len(Trace) + 1 THEN TRUE
             ELSE PrintT(<<"HWM", TLCGet(1), Trace[TLCGet(1)]>>) /\ FALSE
=============================================================================
