SPECIFICATION Spec
CONSTANTS
 Mode = "dd"
 MaxBytes = 8
 MaxRecords = 3
 Sizes = {1, 2, 3, 5}
 MaxInput = 6
INVARIANTS Concatenation NoEmptyChunk WithinLimits
CHECK_DEADLOCK FALSE
