SPECIFICATION Spec
CONSTANTS
 Conns = {1, 2}
 Fds = {1, 2}
 MaxReload = 2
 MaxAccept = 2
 FixNewSink = TRUE
 FixCloseOrder = TRUE
INVARIANT Safe
CHECK_DEADLOCK FALSE
