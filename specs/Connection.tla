---------------------------- MODULE Connection ----------------------------
(***************************************************************************
 The contract of a ClosableClientConnection (output/baseoutput/clientprovider.go)
 as Forwarder.tla's environment takes it for granted: an operation on the
 connection - SendChunk, SendPing, ReadChunkAck, each with a deadline - ends
   - with the peer's answer (ReadChunkAck: the id the peer wrote, whatever it is),
   - with an error when the peer has gone or answers something that is no ACK,
   - with an error at its deadline,
   - with an error as soon as Close is called from another goroutine,
 whichever comes first, and after Close every operation fails at once.  Time is
 explicit (a tick counter); a pending operation makes the passing of its deadline
 and a Close urgent: time does not advance past them while it is pending.
 TLC checks NoOperationOutlivesItsBound and OkOnlyWithAnAnswer on this model;
 ConnTrace.tla checks that every operation of the real Forward connection (and
 of the TLS variant) against a scripted peer ended in one of the ways the model
 allows, at the time the model allows.
 ***************************************************************************)
EXTENDS Integers, FiniteSets
CONSTANTS MaxTime,          \* horizon of the bounded model
          Deadlines,        \* deadlines an operation may be called with (ticks from its start)
          Urgent            \* TRUE: the contract; FALSE: a connection whose operations need not end in time (negative control)
Ops == {"send", "ack", "ping"}
Peers == {"acks", "silent", "noread", "gone", "garbage", "late"}
VARIABLES now, open, peer, answerAt, pend, last
vars == <<now, open, peer, answerAt, pend, last>>
None == [op |-> "none", start |-> 0, deadline |-> 0]

Init == /\ now = 0 /\ open = TRUE /\ peer \in Peers /\ answerAt \in 0..MaxTime
        /\ pend = None /\ last = [op |-> "none", how |-> "none", at |-> 0, bound |-> 0]

Call(op, d) == /\ pend.op = "none" /\ now < MaxTime
               /\ pend' = [op |-> op, start |-> now, deadline |-> now + d]
               /\ UNCHANGED <<now, open, peer, answerAt, last>>

\* can the peer's behaviour complete the operation, and from when on
Answers(op) == CASE op = "ack"  -> peer \in {"acks", "late"} /\ now >= (IF peer = "late" THEN answerAt ELSE 0)
                 [] op = "send" -> peer # "noread"        \* (a chunk larger than the socket buffers; smaller ones always fit)
                 [] op = "ping" -> TRUE
                 [] OTHER -> FALSE
PeerFails(op) == op = "ack" /\ peer \in {"gone", "garbage"}

End(how) == /\ pend.op # "none"
            /\ last' = [op |-> pend.op, how |-> how, at |-> now, bound |-> pend.deadline]
            /\ pend' = None
            /\ UNCHANGED <<now, open, peer, answerAt>>
RetOk       == open /\ now <= pend.deadline /\ Answers(pend.op) /\ End("ok")
RetPeer     == open /\ PeerFails(pend.op) /\ End("peer")
RetDeadline == open /\ now >= pend.deadline /\ End("deadline")
RetClosed   == ~open /\ End("closed")
Close == open /\ open' = FALSE /\ UNCHANGED <<now, peer, answerAt, pend, last>>
\* urgency: with an operation pending, time stops at its deadline and at a Close
Tick == /\ now < MaxTime
        /\ (Urgent /\ pend.op # "none") => (open /\ now < pend.deadline /\ ~PeerFails(pend.op) /\ ~(Answers(pend.op) /\ peer # "late"))
        /\ now' = now + 1 /\ UNCHANGED <<open, peer, answerAt, pend, last>>
Next == \/ \E op \in Ops, d \in Deadlines : Call(op, d)
        \/ RetOk \/ RetPeer \/ RetDeadline \/ RetClosed \/ Close \/ Tick
Spec == Init /\ [][Next]_vars

TypeOK == now \in 0..MaxTime /\ open \in BOOLEAN /\ peer \in Peers /\ pend.op \in Ops \cup {"none"}
\* an operation is never pending after its deadline, nor after a Close once time has moved on
NoOperationOutlivesItsBound == pend.op # "none" => now <= pend.deadline
NothingPendsOnAClosedConnectionForLong == [][(pend.op # "none" /\ ~open) => now' = now]_vars
\* a success needs an answering peer and an open connection, within the deadline
OkOnlyWithAnAnswer == last.how = "ok" => last.at <= last.bound
SilentPeerNeverAcks == [][(pend.op = "ack" /\ peer \in {"silent", "noread"}) => (last'.how # "ok" \/ pend' = pend)]_vars
=============================================================================
