SPECIFICATION TSpec
CONSTANTS
 TraceFile = "trace.ndjson"
CONSTRAINT HWM
POSTCONDITION Accepted_
CHECK_DEADLOCK FALSE
