---------------------------- MODULE ChunkFileTrace ----------------------------
(***************************************************************************
 Trace validation for ChunkFile.  The victim child logs what it is about to
 persist and what UnloadChunk returned; the parent logs how the victim ended,
 the directory it left behind (names and lengths), and what the recovering child
 forwarded, declared corrupt or failed to read.  The steps inside WriteFileAt
 are silent; the directory listing pins down where the write stopped.
 ***************************************************************************)
EXTENDS ChunkFile, Json

CONSTANTS MaxSilent, TraceFile
Trace == ndJsonDeserialize(TraceFile)
VARIABLES l, sil
tvars == <<s, l, sil>>

E == Trace[l]
IsEv(name) == l <= Len(Trace) /\ Trace[l].ev = name
Consume == l' = l + 1 /\ sil' = 0
Silent  == l' = l /\ sil < MaxSilent /\ sil' = sil + 1
SetOfSeq(q) == {q[i] : i \in 1..Len(q)}

TInit == s = S0 /\ l = 1 /\ sil = 0 /\ TLCSet(1, 1)

TSilent == /\ Silent
           /\ \/ OpenTemp \/ OpenFails \/ WriteFails \/ CleanupTemp \/ CloseTemp \/ Rename \/ Scan
              \/ (s.wpc = "write" /\ \E k \in 1..(s.n[s.cur] - s.written) : Write(k))

TPersist == IsEv("Persist") /\ Persist(E.id, E.n) /\ Consume
\* UnloadChunk returned: "saved" only if the model renamed a complete file; an error only if the model cleaned up
TUnload == /\ IsEv("Unload") /\ Consume /\ UNCHANGED s /\ s.wpc = "idle"
           /\ \/ E.res \in {"saved", "already"} /\ E.id \in s.saved
              \/ E.res = "ioerr" /\ E.id \in s.failed
\* a process that persisted chunks and ends in an orderly way: its gauges agree with the chunk files in the directory
\* (C19) - a write that failed left no file and is in no gauge
RECURSIVE SumLen(_)
SumLen(S) == IF S = {} THEN 0 ELSE LET i == CHOOSE x \in S : TRUE IN s.file[i] + SumLen(S \ {i})
TVictimGauges == /\ IsEv("VictimGauges") /\ Consume /\ UNCHANGED s /\ s.phase = "victim" /\ s.wpc = "idle"
                 /\ LET have == {i \in 1..K : s.file[i] # NOFILE} IN
                    /\ E.persistentChunks = Cardinality(have)
                    /\ E.unitsExact /\ E.persistentUnits = SumLen(have)
TVictimEnd == IsEv("VictimEnd") /\ (E.killed \/ s.wpc = "idle") /\ Crash /\ Consume
\* the directory the victim left behind: chunk names with lengths, temporary names with lengths
TFiles == /\ IsEv("Files") /\ Consume /\ UNCHANGED s /\ s.phase = "dead"
          /\ E.unitsExact
          /\ {<<f[1], f[2]>> : f \in SetOfSeq(E.files)} = {<<i, s.file[i]>> : i \in {j \in 1..K : s.file[j] # NOFILE}}
          /\ {<<f[1], f[2]>> : f \in SetOfSeq(E.temps)} = {<<i, s.temp[i]>> : i \in {j \in 1..K : s.temp[j] # NOFILE}}
TRespawn == IsEv("Respawn") /\ Respawn /\ Consume
TDamage == /\ IsEv("Damage") /\ Consume
           /\ \/ E.kind = "unreadable" /\ UNCHANGED s
              \/ E.kind = "zero" /\ DamageZero(E.id)
TFeederLoad == /\ IsEv("FeederLoad") /\ Consume
               /\ \/ E.res = "ok" /\ s.rq # <<>> /\ Head(s.rq) = E.id /\ LoadOk
                  \/ E.res = "corrupt" /\ s.rq # <<>> /\ Head(s.rq) = E.id /\ LoadCorrupt
                  \/ E.res = "err" /\ s.rq # <<>> /\ Head(s.rq) = E.id /\ LoadFails
TForward == /\ IsEv("Forward") /\ Consume
            /\ s.lq # <<>> /\ Head(s.lq) = <<E.id, E.len>> /\ E.unitsExact /\ E.intact
            /\ Forward
TRecoveryDone == /\ IsEv("RecoveryDone") /\ Consume /\ RecoveryDone
                 /\ E.dropped = Cardinality(s.corrupt) + Cardinality(s.readFailed)
                 /\ E.consumed = Len(s.forwarded)
                 \* C19: the gauges agree with what is left: every recovered chunk was consumed or dropped, no file stays
                 /\ E.persistentChunks = E.filesLeft /\ E.pending = 0
TReset == IsEv("RESET") /\ s.phase = "done" /\ s' = S0 /\ Consume

TNext == TSilent \/ TRespawn \/ TPersist \/ TUnload \/ TVictimGauges \/ TVictimEnd \/ TFiles \/ TDamage \/ TFeederLoad \/ TForward \/ TRecoveryDone \/ TReset
TSpec == TInit /\ [][TNext]_tvars

HWM == IF l > TLCGet(1) THEN TLCSet(1, l) ELSE TRUE
Accepted_ == IF TLCGet(1) = Len(Trace) + 1 THEN TRUE
             ELSE PrintT(<<"HWM", TLCGet(1), Trace[TLCGet(1)]>>) /\ FALSE
=============================================================================
