SPECIFICATION Spec
CONSTANTS
 K = 3
 Lens = {1, 2, 3}
 MaxLives = 2
INVARIANTS NeverTruncatedUpstream MarkedSavedOnlyIfWhole ChunkNamesAreWhole BadFileDoesNotBlock FailedNotForwarded
CHECK_DEADLOCK FALSE
