---------------------------- MODULE RoutingTrace ----------------------------
EXTENDS Routing, Json
CONSTANTS TraceFile
Trace == ndJsonDeserialize(TraceFile)
VARIABLE l
TInit == t1 = <<>> /\ t2 = <<>> /\ l = 1 /\ TLCSet(1, 1)
TNext == l <= Len(Trace) /\ Check(Trace[l]) /\ l' = l + 1 /\ UNCHANGED <<t1, t2>>
TSpec == TInit /\ [][TNext]_<<l, t1, t2>>
HWM == IF l > TLCGet(1) THEN TLCSet(1, l) ELSE TRUE
Accepted_ == IF TLCGet(1) = Len(Trace) + 1 THEN TRUE
             ELSE PrintT(<<"HWM", TLCGet(1), Trace[TLCGet(1)]>>) /\ FALSE
=============================================================================
