---------------------------- MODULE AgentTrace ----------------------------
(***************************************************************************
 Observer for end-to-end runs of the real agent (drv/ag): it consumes only
 what the outside world saw - records sent per client connection, chunks
 received and acknowledged by the fake upstream on each of its connections,
 the decoded queue directories after every graceful stop, the metric registry
 and the stop durations - and evaluates
   C01  NoLoss: after every stop each record read so far was acknowledged upstream at least once or is in a chunk file;
        at the end of a history whose last generation drains, everything was acknowledged; nothing altered;
   C05  OrderPerStream: per (generation, connection, key) first deliveries appear in sent order;
        NoSkipOnConnection: on one upstream connection a pipeline's chunk is never sent while an older chunk of that
        pipeline, already seen upstream and not acknowledged, has not been sent on this connection;
   C18  every stop completes within the bound derived from the configured timeouts;
   C19  the counters balance with what happened.
 A record is <<generation, connection, sequence, key>>; chunk ids are ranks in creation order.
 ***************************************************************************)
EXTENDS Integers, Sequences, FiniteSets, TLC, Json
CONSTANTS TraceFile, StopBoundMs,
          P01, P05, P17, P18, P19    \* which property's conjuncts this run decides (the others are left to their own checks)
Trace == ndJsonDeserialize(TraceFile)
VARIABLES l, o
E == Trace[l]

O0 == [keys |-> 1, gen |-> 0,
       sent |-> {},            \* <<g, c, n>>: connection c of generation g sent records 1..n
       firstDel |-> {},        \* <<g, c, i>> delivered upstream at least once
       acked |-> {},           \* <<g, c, i>> in a chunk the upstream acknowledged
       seen |-> {},            \* <<tag, id>> received by the upstream at least once
       chunks |-> {},          \* <<id, set of records>> as received
       ackedChunks |-> {},     \* <<tag, id>> acknowledged by the upstream
       onConn |-> {},          \* <<k, tag, id>> received on upstream connection k (of the current generation)
       upChunksGen |-> 0, upAcksGen |-> 0, stopped |-> FALSE, lastDisk |-> {}, drained |-> FALSE, reloadBefore |-> 0]

KeyOf(c, i) == ((c + i) % o.keys) + 1
SetOfSeq(q) == {q[i] : i \in 1..Len(q)}
SentRecs == UNION {{<<s[1], s[2], i>> : i \in 1..s[3]} : s \in o.sent}

\* first deliveries in sent order: record r = <<g,c,i>> may be delivered for the first time only if every earlier record of
\* its stream (same g, c and key) was delivered before or earlier in the same chunk
RECURSIVE OrderOk(_, _, _)
OrderOk(stamps, j, del) ==
  IF j > Len(stamps) THEN TRUE
  ELSE LET r == <<stamps[j][1], stamps[j][2], stamps[j][3]>> IN
       /\ (r \notin del => \A i \in 1..(r[3] - 1) : KeyOf(r[2], i) = KeyOf(r[2], r[3]) => <<r[1], r[2], i>> \in del)
       /\ OrderOk(stamps, j + 1, del \cup {r})

MetricsBalance ==
  /\ E.inputPassed + E.inputDropped = E.lines /\ E.inputDropped = 0
  /\ E.procPassed + E.procDropped = E.inputPassed
  /\ \A p \in SetOfSeq(E.passedByHost) : \E s \in o.sent : s[1] = o.gen /\ s[2] = p[1] /\ s[3] = p[2]
  /\ E.bufIn = E.chunksMade + E.bufRecovered
  /\ E.bufIn = E.bufConsumed + E.bufLeftover + E.bufDropped + E.bufPending
  /\ E.bufDropped = 0
  /\ E.acknowledged = E.bufConsumed /\ E.acknowledged <= o.upAcksGen
  \* (forwarded counts completed sends; a slow upstream may not have read them yet, so only forwarded >= acknowledged)
  /\ E.forwarded >= E.acknowledged
  /\ E.persistentChunks = E.filesOnDisk

TInit == l = 1 /\ o = O0 /\ TLCSet(1, 1)
TNext ==
  /\ l <= Len(Trace) /\ l' = l + 1
  /\ CASE E.ev = "History" -> o' = [O0 EXCEPT !.keys = E.keys]
       [] E.ev = "Start"   -> o' = [o EXCEPT !.gen = E.gen, !.onConn = {}, !.upChunksGen = 0, !.upAcksGen = 0, !.stopped = FALSE]
       [] E.ev = "Sent"    -> o' = [o EXCEPT !.sent = @ \cup {<<E.gen, E.c, E.n>>}]
       [] E.ev = "UpAccept" -> UNCHANGED o
       [] E.ev = "UpChunk" ->
            LET recs == {<<s[1], s[2], s[3]>> : s \in SetOfSeq(E.stamps)} IN
            /\ P01 => E.intact                                                \* nothing altered, right host and app
            /\ P01 => (E.size = Len(E.stamps) /\ Len(E.stamps) > 0)
            /\ P01 => \A s \in SetOfSeq(E.stamps) : s[4] = KeyOf(s[2], s[3]) /\ E.tag = "dev.app" \o ToString(s[4])   \* own tag
            /\ P05 => OrderOk(E.stamps, 1, o.firstDel)                        \* C05 per stream
            /\ P05 => \A p \in o.seen : (p[1] = E.tag /\ p[2] < E.id /\ p \notin o.ackedChunks) => <<E.k, E.tag, p[2]>> \in o.onConn   \* C05 no skip
            /\ o' = [o EXCEPT !.firstDel = @ \cup recs, !.seen = @ \cup {<<E.tag, E.id>>}, !.chunks = @ \cup {<<E.id, recs>>}, !.onConn = @ \cup {<<E.k, E.tag, E.id>>},
                              !.upChunksGen = @ + 1]
       [] E.ev = "UpAck" ->
            /\ \E t \in {p[1] : p \in o.seen} : <<t, E.id>> \in o.seen
            /\ o' = [o EXCEPT !.ackedChunks = @ \cup {p \in o.seen : p[2] = E.id}, !.upAcksGen = @ + 1,
                              !.acked = @ \cup UNION {p[2] : p \in {q \in o.chunks : q[1] = E.id}}]
       [] E.ev \in {"Stop", "ReloadBegin"} -> UNCHANGED o
       [] E.ev = "ReloadEnd" ->
            \* a reload with an invalid or incompatible configuration only moves the failure count; a valid one the success count
            /\ P17 => (E.kind \in {"invalid", "incompatible", "keysdrop", "addoutput"} => E.failure + E.success = E.before + 1 /\ E.failure >= 1 /\ E.success = E.before - (E.failure - 1))
            /\ P17 => (E.kind \in {"same", "transform"} => E.success + E.failure = E.before + 1 /\ E.success >= 1)
            /\ UNCHANGED o
       [] E.ev = "Stopped" -> (P18 => E.ms <= StopBoundMs) /\ o' = [o EXCEPT !.stopped = TRUE]      \* C18
       [] E.ev = "Disk" ->
            LET disk == {<<s[1], s[2], s[3]>> : s \in SetOfSeq(E.stamps)} IN
            /\ (P01 => E.intact) /\ o.stopped
            \* C01 NoLoss (AllPersisted for C18). Written with sets, not as "\A r : acked \/ on disk": inside an action TLC takes
            \* every true disjunct as a branch, 2^k identical successors for k records that are both acknowledged and on disk
            /\ IF P01 \/ P17 \/ P18 THEN (SentRecs \ o.acked) \subseteq disk ELSE TRUE
            /\ o' = [o EXCEPT !.lastDisk = disk]
       [] E.ev = "Metrics" ->                                                  \* C19
            /\ IF P19 /\ ~E.reloaded THEN MetricsBalance ELSE TRUE     \* (IF, not a disjunction: TLC would explore the disjuncts as branches)
            /\ UNCHANGED o
       [] E.ev = "MetricsOld" ->
            /\ E.inputPassed + E.inputDropped = E.lines /\ E.inputDropped = 0
            /\ E.procPassed + E.procDropped = E.inputPassed
            /\ \A p \in SetOfSeq(E.passedByHost) : \E s \in o.sent : s[1] = o.gen /\ s[2] = p[1] /\ s[3] = p[2]
            /\ E.bufIn = E.chunksMade + E.bufRecovered
            /\ E.bufIn = E.bufConsumed + E.bufLeftover + E.bufDropped + E.bufPending
            /\ E.bufDropped = 0
            /\ E.acknowledged = E.bufConsumed /\ E.acknowledged <= o.upAcksGen
  \* (forwarded counts completed sends; a slow upstream may not have read them yet, so only forwarded >= acknowledged)
            /\ E.forwarded >= E.acknowledged
            /\ E.persistentChunks = E.filesOnDisk
            /\ UNCHANGED o
       [] E.ev = "Drained" -> (IF P01 \/ P17 THEN SentRecs \subseteq o.acked ELSE TRUE) /\ UNCHANGED o       \* finally healthy: everything acknowledged
       [] E.ev = "RESET" -> o.stopped /\ o' = O0
       [] OTHER -> FALSE      \* HUNG, Panic, HarnessError, ...: no action explains them
TSpec == TInit /\ [][TNext]_<<l, o>>
HWM == IF l > TLCGet(1) THEN TLCSet(1, l) ELSE TRUE
Accepted_ == IF TLCGet(1) = Len(Trace) + 1 THEN TRUE
             ELSE PrintT(<<"HWM", TLCGet(1), Trace[TLCGet(1)]>>) /\ FALSE
=============================================================================
