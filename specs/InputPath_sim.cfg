SPECIFICATION Spec
CONSTANTS
 Conns = {1, 2}
 Keys = {"a", "b", "c"}
 Sizes = {1, 2, 5}
 MaxLogs = 3
 MaxBytes = 8
 MaxRecs = 14
 MaxAdv = 2
 MaxRefused = 1
INVARIANTS Conservation OrderPerConnKey RightChannel NoEmptyBatch NothingLeftAfterClose Bounded PipesOk
CHECK_DEADLOCK FALSE
