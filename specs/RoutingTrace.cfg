SPECIFICATION TSpec
CONSTANTS
 Alphabet = {}
 NKeys = 2
 TraceFile = "trace.ndjson"
CONSTRAINT HWM
POSTCONDITION Accepted_
CHECK_DEADLOCK FALSE
