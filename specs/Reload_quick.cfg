SPECIFICATION Spec
CONSTANTS
 Conns = {1, 2}
 Fds = {1, 2}
 MaxReload = 1
 MaxAccept = 1
 FixNewSink = TRUE
 FixCloseOrder = TRUE
 FixCloseLock = TRUE
INVARIANT Safe
CHECK_DEADLOCK FALSE
