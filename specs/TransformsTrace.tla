---------------------------- MODULE TransformsTrace ----------------------------
(***************************************************************************
 Validates every (program, record, result) recorded from the real transforms
 built by bsupport.NewTransformsFromConfig against the reference interpreter.
 A "new" event installs a program (fresh drop counters); each "rec" event is one
 record run through the real program instance, in order (sampling is stateful).
 ***************************************************************************)
EXTENDS Transforms, Json
CONSTANTS TraceFile
Trace == ndJsonDeserialize(TraceFile)
VARIABLES l, prog, ds
E == Trace[l]
TInit == l = 1 /\ prog = [steps |-> <<>>, drops |-> <<>>] /\ ds = <<>> /\ TLCSet(1, 1)
TNext ==
  /\ l <= Len(Trace) /\ l' = l + 1
  /\ E.op \in {"new", "rec", "rejected"}          \* loaderror / buildpanic: the loader accepted text it cannot build
  /\ (E.op = "new" => ~E.expectReject) /\ (E.op = "rejected" => E.expectReject)
  /\ IF E.op \in {"new", "rejected"}
       THEN prog' = [steps |-> E.steps, drops |-> E.drops] /\ ds' = [i \in 1..Len(E.drops) |-> <<0, 0>>]
       ELSE LET st0 == [f |-> E.fields, un |-> E.unescaped, res |-> "PASS", ds |-> ds]
                st == Run(prog.steps, 1, st0)
            IN /\ E.res # "panic"
               /\ E.res = st.res
               /\ (st.res = "PASS" => E.out = st.f /\ E.outUnescaped = st.un)
               /\ SamplingOk(prog, st.ds)
               /\ ds' = st.ds /\ UNCHANGED prog
TSpec == TInit /\ [][TNext]_<<l, prog, ds>>
HWM == IF l > TLCGet(1) THEN TLCSet(1, l) ELSE TRUE
Accepted_ == IF TLCGet(1) = Len(Trace) + 1 THEN TRUE
             ELSE PrintT(<<"HWM", TLCGet(1), Trace[TLCGet(1)]>>) /\ FALSE
=============================================================================
