SPECIFICATION Spec
CONSTANTS
 N = 2
 Q = 2
 M = 2
 MaxBytes = 3
 Sizes = {1, 2}
 MaxGen = 2
 DirUsable = TRUE
 IoFaults = 1
 WriteFaults = 0
 EarlyHandBack = TRUE
INVARIANTS FilesOfAcceptedImpl
PROPERTIES Refines
CHECK_DEADLOCK FALSE
