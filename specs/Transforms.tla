---------------------------- MODULE Transforms ----------------------------
(***************************************************************************
 Reference interpreter for transform programs (transform/*, base/bmatch,
 util/stringtemplate, util/stringunescape, util/utf8.go, RunTransforms): the
 documented semantics of addFields (templates with variables and python-style
 slices), delFields, mapValue, if / switch / block, drop (100 % and sampled,
 with its counters as state), extractHead / extractTail (boundaries, '*' or a
 character class, search range, trimming), truncate (UTF-8-safe cut, suffix),
 unescape, and the match operators eq / not / start / end / contain / any /
 len-gt / len-lt.  Field values are sequences of bytes; a record is its field
 sequence plus the Unescaped flag.  Programs are the ASTs the driver logs next
 to the YAML it gives the real loader.  (Go regexp / glob based steps are not
 re-specified.)
 ***************************************************************************)
EXTENDS Integers, Sequences, FiniteSets, TLC

IsPrefix(p, s) == Len(p) <= Len(s) /\ SubSeq(s, 1, Len(p)) = p
IsSuffix(p, s) == Len(p) <= Len(s) /\ SubSeq(s, Len(s) - Len(p) + 1, Len(s)) = p
\* first / last position (1-based) in s[lo..hi] where p occurs completely inside, or 0
RECURSIVE FindFirst(_, _, _, _)
FindFirst(s, p, lo, hi) == IF lo + Len(p) - 1 > hi THEN 0
                           ELSE IF SubSeq(s, lo, lo + Len(p) - 1) = p THEN lo ELSE FindFirst(s, p, lo + 1, hi)
RECURSIVE FindLast(_, _, _, _)
FindLast(s, p, lo, hi) == IF hi - Len(p) + 1 < lo THEN 0
                          ELSE IF SubSeq(s, hi - Len(p) + 1, hi) = p THEN hi - Len(p) + 1 ELSE FindLast(s, p, lo, hi - 1)
Contains(s, p) == FindFirst(s, p, 1, Len(s)) # 0 \/ p = <<>>

(* ---- match operators ---- *)
Match1(m, f) ==
  LET v == f[m[1]]
      op == m[2]
      a == m[3]
  IN CASE op = "eq" -> v = a
       [] op = "not" -> v # a
       [] op = "start" -> IsPrefix(a, v)
       [] op = "end" -> IsSuffix(a, v)
       [] op = "contain" -> Contains(v, a)
       [] op = "any" -> Len(v) > 0
       [] op = "lengt" -> Len(v) > a
       [] op = "lenlt" -> Len(v) < a
       \* the fixed menu of regular expressions and globs (ASCII values): their meaning written out
       [] op = "re_allA"   -> Len(v) > 0 /\ \A i \in 1..Len(v) : v[i] = 97                                       \* !!regex ^a+$
       [] op = "re_bdotc"  -> \E i \in 1..(Len(v) - 2) : v[i] = 98 /\ v[i + 1] # 10 /\ v[i + 2] = 99           \* !!regex b.c
       [] op = "gl_astarb" -> Len(v) >= 2 /\ v[1] = 97 /\ v[Len(v)] = 98                                          \* !!glob a*b
       [] op = "gl_alt"    -> (Len(v) = 3 /\ v[1] = 97 /\ v[2] = 98) \/ (Len(v) = 2 /\ v[1] = 99)               \* !!glob {ab,c}?
MatchAll(ms, f) == \A i \in 1..Len(ms) : Match1(ms[i], f)

(* ---- templates ---- *)
Slice(v, hasA, a0, hasB, b0) ==
  LET n == Len(v)
      a1 == IF ~hasA THEN 0 ELSE IF a0 < 0 THEN a0 + n ELSE a0
      a == IF a1 < 0 THEN 0 ELSE a1
      b1 == IF ~hasB THEN n ELSE IF b0 < 0 THEN b0 + n ELSE b0
      b == IF b1 > n THEN n ELSE b1
  IN IF a >= n \/ b1 < 0 \/ a >= b THEN <<>> ELSE SubSeq(v, a + 1, b)
RECURSIVE Expand(_, _)
Expand(parts, f) ==
  IF parts = <<>> THEN <<>>
  ELSE LET p == Head(parts) IN
       (CASE p[1] = "lit" -> p[2]
          [] p[1] = "var" -> f[p[2]]
          [] p[1] = "slice" -> Slice(f[p[2]], p[3], p[4], p[5], p[6])) \o Expand(Tail(parts), f)

(* ---- unescape: \b \f \n \r \t \\ ; other \x and a trailing lone backslash are kept ---- *)
EscMap(c) == CASE c = 98 -> 8 [] c = 102 -> 12 [] c = 110 -> 10 [] c = 114 -> 13 [] c = 116 -> 9 [] c = 92 -> 92 [] OTHER -> 0
RECURSIVE Unesc(_, _)
Unesc(s, i) == IF i > Len(s) THEN <<>>
               ELSE IF s[i] = 92 /\ i < Len(s)
                      THEN (IF EscMap(s[i + 1]) # 0 THEN <<EscMap(s[i + 1])>> ELSE <<92, s[i + 1]>>) \o Unesc(s, i + 2)
                      ELSE <<s[i]>> \o Unesc(s, i + 1)

(* ---- UTF-8-safe cut of v at n bytes: everything after the last ASCII byte is kept only as far as it is valid ---- *)
Cont(c) == c >= 128 /\ c <= 191
Need(c) == CASE c <= 127 -> 1 [] c >= 194 /\ c <= 223 -> 2 [] c >= 224 /\ c <= 239 -> 3 [] c >= 240 /\ c <= 244 -> 4 [] OTHER -> 0
RECURSIVE LastAscii(_, _)
LastAscii(s, i) == IF i = 0 THEN 0 ELSE IF s[i] <= 127 THEN i ELSE LastAscii(s, i - 1)
\* keep the valid sequences of the non-ASCII tail starting at i, drop every byte that is not part of one
RECURSIVE ValidOnly(_, _)
ValidOnly(s, i) ==
  IF i > Len(s) THEN <<>>
  ELSE LET n == Need(s[i]) IN
       IF n >= 2 /\ i + n - 1 <= Len(s) /\ (\A j \in (i + 1)..(i + n - 1) : Cont(s[j]))
         THEN SubSeq(s, i, i + n - 1) \o ValidOnly(s, i + n)
         ELSE ValidOnly(s, i + 1)
CleanUTF8(s) == LET e == LastAscii(s, Len(s)) IN SubSeq(s, 1, e) \o ValidOnly(s, e + 1)

(* ---- extractHead / extractTail ---- *)
InClass(c, cls) == \* cls = <<negated, set-as-sequence of bytes>>; <<>> = '*'
  IF cls = <<>> THEN TRUE ELSE (cls[1] = (~(\E i \in 1..Len(cls[2]) : cls[2][i] = c)))
RECURSIVE RunFromStart(_, _, _)
RunFromStart(s, i, cls) == IF i <= Len(s) /\ InClass(s[i], cls) THEN RunFromStart(s, i + 1, cls) ELSE i - 1   \* last index of the run
RECURSIVE RunFromEnd(_, _, _)
RunFromEnd(s, i, cls) == IF i >= 1 /\ InClass(s[i], cls) THEN RunFromEnd(s, i - 1, cls) ELSE i + 1          \* first index of the run
RECURSIVE TrimL(_)
TrimL(s) == IF s # <<>> /\ Head(s) <= 32 THEN TrimL(Tail(s)) ELSE s
RECURSIVE TrimR(_)
TrimR(s) == IF s # <<>> /\ s[Len(s)] <= 32 THEN TrimR(SubSeq(s, 1, Len(s) - 1)) ELSE s
Trim(s) == TrimR(TrimL(s))
FAIL == <<FALSE, <<>>, <<>>>>
\* returns <<ok, label, rest>>
ExtractHead(v, left, cls, right, maxLen) ==
  IF ~IsPrefix(left, v) THEN FAIL
  ELSE LET s == SubSeq(v, Len(left) + 1, Len(v)) IN
       IF s # <<>> /\ ~InClass(s[1], cls) THEN FAIL
       ELSE IF right # <<>>
         THEN LET hi == IF Len(s) > maxLen THEN maxLen ELSE Len(s)
                  i == FindFirst(s, right, 1, hi)
              IN IF i = 0 THEN FAIL
                 ELSE LET tag == SubSeq(s, 1, i - 1) IN
                      IF \E j \in 1..Len(tag) : ~InClass(tag[j], cls) THEN FAIL
                      ELSE <<TRUE, Trim(tag), SubSeq(s, i + Len(right), Len(s))>>
         ELSE LET e == RunFromStart(s, 1, cls) IN
              IF e = 0 THEN FAIL ELSE <<TRUE, Trim(SubSeq(s, 1, e)), SubSeq(s, e + 1, Len(s))>>
ExtractTail(v, left, cls, right, maxLen) ==
  IF ~IsSuffix(right, v) THEN FAIL
  ELSE LET s == SubSeq(v, 1, Len(v) - Len(right)) IN
       IF s # <<>> /\ ~InClass(s[Len(s)], cls) THEN FAIL
       ELSE IF left # <<>>
         THEN LET lo == IF Len(s) > maxLen THEN Len(s) - maxLen + 1 ELSE 1
                  i == FindLast(s, left, lo, Len(s))
              IN IF i = 0 THEN FAIL
                 ELSE LET tag == SubSeq(s, i + Len(left), Len(s)) IN
                      IF \E j \in 1..Len(tag) : ~InClass(tag[j], cls) THEN FAIL
                      ELSE <<TRUE, Trim(tag), SubSeq(s, 1, i - 1)>>
         ELSE LET b == RunFromEnd(s, Len(s), cls) IN
              IF b = Len(s) + 1 THEN FAIL ELSE <<TRUE, Trim(SubSeq(s, b, Len(s))), SubSeq(s, 1, b - 1)>>

(* ---- the interpreter.  st = [f |-> fields, un |-> Unescaped flag, res |-> "PASS" | "DROP", ds |-> drop counters] ---- *)
Lookup(pairs, k, dflt) == IF \E i \in 1..Len(pairs) : pairs[i][1] = k
                          THEN pairs[CHOOSE i \in 1..Len(pairs) : pairs[i][1] = k][2] ELSE dflt
(* ---- replace / extract with the fixed menu of regular expressions ---- *)
RECURSIVE DropA(_)
DropA(s) == IF s # <<>> /\ Head(s) = 97 THEN DropA(Tail(s)) ELSE s
RECURSIVE ReplRunsA(_)
ReplRunsA(s) == IF s = <<>> THEN <<>>                                                  \* a+ -> X
                ELSE IF Head(s) = 97 THEN <<88>> \o ReplRunsA(DropA(Tail(s))) ELSE <<Head(s)>> \o ReplRunsA(Tail(s))
DelB(s) == SelectSeq(s, LAMBDA c : c # 98)                                             \* b -> (nothing)
Rot2(s) == IF Len(s) >= 2 /\ \A i \in 1..Len(s) : s[i] # 10                          \* ^(..)(.*)$ -> $2$1
             THEN SubSeq(s, 3, Len(s)) \o SubSeq(s, 1, 2) ELSE s
ReplaceBy(pat, s) == CASE pat = "runsA" -> ReplRunsA(s) [] pat = "delB" -> DelB(s) [] pat = "rot2" -> Rot2(s)
InAC(c) == c >= 97 /\ c <= 99
RECURSIVE RunAC(_, _)
RunAC(s, i) == IF i <= Len(s) /\ InAC(s[i]) THEN RunAC(s, i + 1) ELSE i - 1            \* last index of the run of a-c starting at i
\* ^(?P<f4>[a-c]+)=(?P<f5>[a-c]*) : <<matched, f4, f5>>
ExtractKV(s) == LET e == RunAC(s, 1) IN
                IF e >= 1 /\ e + 1 <= Len(s) /\ s[e + 1] = 61
                  THEN <<TRUE, SubSeq(s, 1, e), SubSeq(s, e + 2, RunAC(s, e + 2))>> ELSE <<FALSE, <<>>, <<>>>>

\* ^(?P<f4>[a-c]+)(?:=(?P<f5>[a-c]+))? : <<matched, f4, f5 takes part, f5>>  -- a group that takes no part in the match leaves its field alone
ExtractOpt(s) == LET e == RunAC(s, 1) IN
                 IF e < 1 THEN <<FALSE, <<>>, FALSE, <<>>>>
                 ELSE IF e + 1 <= Len(s) /\ s[e + 1] = 61 /\ RunAC(s, e + 2) >= e + 2
                        THEN <<TRUE, SubSeq(s, 1, e), TRUE, SubSeq(s, e + 2, RunAC(s, e + 2))>>
                        ELSE <<TRUE, SubSeq(s, 1, e), FALSE, <<>>>>
RECURSIVE RunOf(_, _, _)
RunOf(s, i, c) == IF i <= Len(s) /\ s[i] = c THEN RunOf(s, i + 1, c) ELSE i - 1
\* ^(?:(?P<f4>a+)|(?P<f5>b+)) : <<matched, which group took part (4 or 5), its text>>
ExtractAlt(s) == IF s # <<>> /\ s[1] = 97 THEN <<TRUE, 4, SubSeq(s, 1, RunOf(s, 1, 97))>>
                 ELSE IF s # <<>> /\ s[1] = 98 THEN <<TRUE, 5, SubSeq(s, 1, RunOf(s, 1, 98))>>
                 ELSE <<FALSE, 0, <<>>>>

RECURSIVE Run(_, _, _), Apply(_, _), FirstCase(_, _, _)
Run(ts, k, st) == IF k > Len(ts) \/ st.res = "DROP" THEN st ELSE Run(ts, k + 1, Apply(ts[k], st))
FirstCase(cases, k, st) == IF k > Len(cases) THEN st
                           ELSE IF MatchAll(cases[k].match, st.f) THEN Run(cases[k].then, 1, st) ELSE FirstCase(cases, k + 1, st)
Apply(t, st) ==
  LET f == st.f IN
  CASE t.t = "addFields" ->
         LET v == Expand(t.parts, f) IN IF v = <<>> THEN st ELSE [st EXCEPT !.f[t.dest] = v]
    [] t.t = "delFields" -> [st EXCEPT !.f = [i \in 1..Len(f) |-> IF \E j \in 1..Len(t.keys) : t.keys[j] = i THEN <<>> ELSE f[i]]]
    [] t.t = "mapValue" ->
         IF f[t.key] = <<>> THEN st ELSE [st EXCEPT !.f[t.key] = Lookup(t.mapping, f[t.key], t.default)]
    [] t.t = "if" -> IF MatchAll(t.match, f) THEN Run(t.then, 1, st) ELSE st
    [] t.t = "switch" -> FirstCase(t.cases, 1, st)
    [] t.t = "block" -> Run(t.steps, 1, st)
    [] t.t = "drop" ->
         IF ~MatchAll(t.match, f) THEN st
         ELSE IF t.rate = 100 THEN [st EXCEPT !.res = "DROP"]
         ELSE LET c == st.ds[t.id] IN
              IF c[1] > 0 /\ 100 * c[2] < t.rate * c[1]
                THEN [st EXCEPT !.res = "DROP", !.ds[t.id] = <<c[1] + 1, c[2] + 1>>]
                ELSE [st EXCEPT !.ds[t.id] = <<c[1] + 1, c[2]>>]
    [] t.t \in {"extractHead", "extractTail"} ->
         IF f[t.key] = <<>> THEN st
         ELSE LET r == IF t.t = "extractHead" THEN ExtractHead(f[t.key], t.left, t.cls, t.right, t.maxLen)
                                              ELSE ExtractTail(f[t.key], t.left, t.cls, t.right, t.maxLen)
              IN IF ~r[1] \/ Len(r[3]) = Len(f[t.key]) THEN st
                 ELSE [st EXCEPT !.f = [i \in 1..Len(f) |-> IF i = t.dest THEN r[2] ELSE IF i = t.key THEN r[3] ELSE f[i]]]
    [] t.t = "truncate" ->
         IF Len(f[t.key]) > t.maxLen + Len(t.suffix)
           THEN [st EXCEPT !.f[t.key] = CleanUTF8(SubSeq(f[t.key], 1, t.maxLen)) \o t.suffix]
           ELSE st
    [] t.t = "unescape" ->
         IF st.un THEN st ELSE [st EXCEPT !.un = TRUE, !.f[t.key] = Unesc(f[t.key], 1)]
    [] t.t = "replace" -> IF f[t.key] = <<>> THEN st ELSE [st EXCEPT !.f[t.key] = ReplaceBy(t.pat, f[t.key])]
    [] t.t = "extract" /\ t.pat = "kv" ->
                          LET r == ExtractKV(f[t.key]) IN      \* captures f4 = field 4, f5 = field 5
                          IF r[1] THEN [st EXCEPT !.f[4] = r[2], !.f[5] = r[3]] ELSE st
    [] t.t = "extract" /\ t.pat = "opt" ->
                          LET r == ExtractOpt(f[t.key]) IN
                          IF ~r[1] THEN st ELSE IF r[3] THEN [st EXCEPT !.f[4] = r[2], !.f[5] = r[4]] ELSE [st EXCEPT !.f[4] = r[2]]
    [] t.t = "extract" /\ t.pat = "alt" ->
                          LET r == ExtractAlt(f[t.key]) IN
                          IF ~r[1] THEN st ELSE [st EXCEPT !.f[r[2]] = r[3]]

\* sampled dropping tracks the configured percentage to within one record at every prefix of the matched stream
SamplingOk(prog, ds) ==
  \A id \in DOMAIN ds : LET c == ds[id] IN
     \A k \in 1..Len(prog.drops) : prog.drops[k][1] = id =>
        LET rate == prog.drops[k][2]
            diff == 100 * c[2] - rate * c[1]
        IN diff <= 100 /\ diff >= -100
=============================================================================
