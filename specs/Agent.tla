---------------------------- MODULE Agent ----------------------------
(***************************************************************************
 Coarse end-to-end model of the agent as a composition: client connections ->
 per-(connection, key) sink buffers -> per-pipeline channel -> packer (open
 chunk) -> durable FIFO (abstract HybridBuffer: C03) -> at-least-once link
 (abstract Forwarder: C02) -> upstream; graceful stops (the teardown order of
 run.go / pipelines.go as separate steps) and restarts on the same queue.
 Compact monitors instead of history sequences keep it checkable:
   NoLoss (C01)          evaluated whenever the agent is down
   Monitors (C05)        "order": first deliveries per (connection, key) in read order
                         "skip":  on one upstream connection chunk ids of a pipeline increase
 ***************************************************************************)
EXTENDS Naturals, Sequences, FiniteSets, TLC
CONSTANTS NConn, NRec, Keys, MaxGen, Faults, ChunkMax

Conns == 1..NConn
KeyOf(c, i) == ((c + i) % Cardinality(Keys)) + 1
NoRec == <<>>

VARIABLES gen, phase, read, sink, chn, open, q, link, nextId, P, firstDel, ackedRecs, lastId, bad, allRead, faults
vars == <<gen, phase, read, sink, chn, open, q, link, nextId, P, firstDel, ackedRecs, lastId, bad, allRead, faults>>

Range(s) == {s[i] : i \in 1..Len(s)}
RECURSIVE SortById(_)
SortById(S) == IF S = {} THEN <<>> ELSE LET m == CHOOSE x \in S : \A y \in S : x.id <= y.id IN <<m>> \o SortById(S \ {m})
Link0 == [state |-> "down", conn |-> 0, inflight |-> <<>>, left |-> <<>>]

Init == /\ gen = 1 /\ phase = "up"
        /\ read = [c \in Conns |-> 0]
        /\ sink = [c \in Conns |-> [k \in Keys |-> <<>>]]
        /\ chn = [k \in Keys |-> <<>>] /\ open = [k \in Keys |-> <<>>] /\ q = [k \in Keys |-> <<>>]
        /\ link = [k \in Keys |-> Link0] /\ nextId = 1 /\ P = [k \in Keys |-> {}]
        /\ firstDel = {} /\ ackedRecs = {} /\ lastId = [k \in Keys |-> 0] /\ bad = {} /\ allRead = {} /\ faults = Faults

Read(c) == /\ phase = "up" /\ read[c] < NRec
           /\ LET i == read[c] + 1  r == <<gen, c, i>>  k == KeyOf(c, i) IN
                /\ sink' = [sink EXCEPT ![c][k] = Append(@, r)] /\ allRead' = allRead \cup {r}
           /\ read' = [read EXCEPT ![c] = @ + 1]
           /\ UNCHANGED <<gen, phase, chn, open, q, link, nextId, P, firstDel, ackedRecs, lastId, bad, faults>>
Flush(c, k) == /\ phase \in {"up", "stopInputs"} /\ sink[c][k] # <<>> /\ Len(chn[k]) < 1
               /\ chn' = [chn EXCEPT ![k] = Append(@, sink[c][k])] /\ sink' = [sink EXCEPT ![c][k] = <<>>]
               /\ UNCHANGED <<gen, phase, read, open, q, link, nextId, P, firstDel, ackedRecs, lastId, bad, allRead, faults>>
Work(k) == /\ phase # "down" /\ chn[k] # <<>>
           /\ open' = [open EXCEPT ![k] = @ \o Head(chn[k])] /\ chn' = [chn EXCEPT ![k] = Tail(@)]
           /\ UNCHANGED <<gen, phase, read, sink, q, link, nextId, P, firstDel, ackedRecs, lastId, bad, allRead, faults>>
Emit(k) == /\ phase # "down" /\ open[k] # <<>>
           /\ LET n == IF Len(open[k]) < ChunkMax THEN Len(open[k]) ELSE ChunkMax IN
                /\ q' = [q EXCEPT ![k] = Append(@, [id |-> nextId, recs |-> SubSeq(open[k], 1, n)])]
                /\ open' = [open EXCEPT ![k] = SubSeq(@, n + 1, Len(@))]
           /\ nextId' = nextId + 1
           /\ UNCHANGED <<gen, phase, read, sink, chn, link, P, firstDel, ackedRecs, lastId, bad, allRead, faults>>
Connect(k) == /\ phase # "down" /\ link[k].state = "down"
              /\ link' = [link EXCEPT ![k].state = "up", ![k].conn = @ + 1] /\ lastId' = [lastId EXCEPT ![k] = 0]
              /\ UNCHANGED <<gen, phase, read, sink, chn, open, q, nextId, P, firstDel, ackedRecs, bad, allRead, faults>>
Deliver(k, ch) ==   \* monitors updated when chunk ch is transmitted on pipeline k
  LET recs == Range(ch.recs)
      \* order: a record is first-delivered while an earlier record of the same connection+key is neither delivered before nor earlier in this chunk
      viol == \E r2 \in recs \ firstDel : \E r1 \in allRead :
                 /\ r1[1] = r2[1] /\ r1[2] = r2[2] /\ r1[3] < r2[3] /\ KeyOf(r1[2], r1[3]) = KeyOf(r2[2], r2[3])
                 /\ r1 \notin firstDel
                 /\ ~(\E a, b \in 1..Len(ch.recs) : a < b /\ ch.recs[a] = r1 /\ ch.recs[b] = r2)
  IN /\ firstDel' = firstDel \cup recs
     /\ bad' = bad \cup (IF viol THEN {"order"} ELSE {}) \cup (IF ch.id <= lastId[k] THEN {"skip"} ELSE {})
     /\ lastId' = [lastId EXCEPT ![k] = ch.id]
Transmit(k) == /\ phase # "down" /\ link[k].state = "up"
               /\ \/ /\ link[k].left # <<>>
                     /\ link' = [link EXCEPT ![k].inflight = Append(@, Head(link[k].left)), ![k].left = Tail(@)]
                     /\ Deliver(k, Head(link[k].left))
                     /\ UNCHANGED q
                  \/ /\ link[k].left = <<>> /\ q[k] # <<>>
                     /\ link' = [link EXCEPT ![k].inflight = Append(@, Head(q[k]))] /\ q' = [q EXCEPT ![k] = Tail(@)]
                     /\ Deliver(k, Head(q[k]))
               /\ UNCHANGED <<gen, phase, read, sink, chn, open, nextId, P, ackedRecs, allRead, faults>>
Ack(k, j) == /\ phase # "down" /\ link[k].state = "up" /\ j \in 1..Len(link[k].inflight)
             /\ ackedRecs' = ackedRecs \cup Range(link[k].inflight[j].recs)
             /\ link' = [link EXCEPT ![k].inflight = SubSeq(@, 1, j - 1) \o SubSeq(@, j + 1, Len(@))]
             /\ UNCHANGED <<gen, phase, read, sink, chn, open, q, nextId, P, firstDel, lastId, bad, allRead, faults>>
Break(k) == /\ phase # "down" /\ link[k].state = "up" /\ faults > 0 /\ faults' = faults - 1
            /\ link' = [link EXCEPT ![k].state = "down", ![k].inflight = <<>>,
                                    ![k].left = SortById(Range(link[k].left) \cup Range(link[k].inflight))]
            /\ UNCHANGED <<gen, phase, read, sink, chn, open, q, nextId, P, firstDel, ackedRecs, lastId, bad, allRead>>
StopInputs == phase = "up" /\ phase' = "stopInputs"
              /\ UNCHANGED <<gen, read, sink, chn, open, q, link, nextId, P, firstDel, ackedRecs, lastId, bad, allRead, faults>>
InputsStopped == /\ phase = "stopInputs" /\ \A c \in Conns, k \in Keys : sink[c][k] = <<>> /\ phase' = "stopPipes"
                 /\ UNCHANGED <<gen, read, sink, chn, open, q, link, nextId, P, firstDel, ackedRecs, lastId, bad, allRead, faults>>
PipesStopped == /\ phase = "stopPipes" /\ \A k \in Keys : chn[k] = <<>> /\ open[k] = <<>>
                /\ P' = [k \in Keys |-> Range(q[k]) \cup Range(link[k].inflight) \cup Range(link[k].left)]
                /\ q' = [k \in Keys |-> <<>>] /\ link' = [k \in Keys |-> Link0] /\ phase' = "down"
                /\ UNCHANGED <<gen, read, sink, chn, open, nextId, firstDel, ackedRecs, lastId, bad, allRead, faults>>
Start == /\ phase = "down" /\ gen < MaxGen /\ gen' = gen + 1 /\ phase' = "up"
         /\ q' = [k \in Keys |-> SortById(P[k])] /\ P' = [k \in Keys |-> {}]
         /\ read' = [c \in Conns |-> 0]
         /\ UNCHANGED <<sink, chn, open, link, nextId, firstDel, ackedRecs, lastId, bad, allRead, faults>>

Next == \/ \E c \in Conns : Read(c) \/ \E k \in Keys : Flush(c, k)
        \/ \E k \in Keys : Work(k) \/ Emit(k) \/ Connect(k) \/ Transmit(k) \/ Break(k) \/ \E j \in 1..3 : Ack(k, j)
        \/ StopInputs \/ InputsStopped \/ PipesStopped \/ Start
Spec == Init /\ [][Next]_vars

(* properties *)
InSeq(r, sq) == \E i \in 1..Len(sq) : sq[i] = r
Persisted(r) == \E k \in Keys : \E ch \in P[k] : InSeq(r, ch.recs)
NoLoss == phase = "down" => \A r \in allRead : r \in ackedRecs \/ Persisted(r)
Monitors == bad = {}
=============================================================================
