SPECIFICATION TSpec
CONSTANTS
 TraceFile = "trace.ndjson"
CONSTRAINT HWM
INVARIANTS ReferencesValidatedAtLoad AcceptedInstantiates FatalOnlyEnvironmental
POSTCONDITION Accepted_
CHECK_DEADLOCK FALSE
