---------------------------- MODULE LabelsTrace ----------------------------
(***************************************************************************
 C19, attribution clause: "labelled counters are attributed to the label values
 of the records that caused them".  The driver (drv/rb LabelsMain) builds
 programs of labelled transforms on the real LogProcessCounterSet - drop by
 level, redactEmail, parseTime, in every order, with label names shared between
 transforms - and logs the program, every record with the facts that decide
 which transforms it hits, and the labelled counters read back per label and
 metric key.  The expected counters are computed here, by interpreting the
 program on the records.
 ***************************************************************************)
EXTENDS Integers, Sequences, FiniteSets, TLC, Json
CONSTANTS TraceFile
Trace == ndJsonDeserialize(TraceFile)
VARIABLES l, prog, exp, xd, xb, tb, xl     \* xd: records dropped by the extraction transforms of the input; exp: set of <<label, host, count, bytes>> kept as a function (label, host) -> <<count, bytes>>
E == Trace[l]
\* the labels a record books, in program order, until a drop takes it out
RECURSIVE Hits(_, _, _)
Hits(steps, i, r) ==
  IF i > Len(steps) THEN <<>>
  ELSE LET kind == steps[i][1]
           lab == steps[i][2] IN
       IF kind = "dropDebug" /\ r.level = "debug" THEN <<lab>>
       ELSE IF kind = "dropInfo" /\ r.level = "info" THEN <<lab>>
       ELSE IF kind = "redact" /\ r.email THEN <<lab>> \o Hits(steps, i + 1, r)
       ELSE IF kind = "time" /\ r.badtime THEN <<lab>> \o Hits(steps, i + 1, r)
       ELSE Hits(steps, i + 1, r)
Dropped(steps, r) == \E i \in 1..Len(steps) : (steps[i][1] = "dropDebug" /\ r.level = "debug")
                                               \/ (steps[i][1] = "dropInfo" /\ r.level = "info")
RECURSIVE Book(_, _, _, _)
Book(f, labs, host, n) == IF labs = <<>> THEN f
                          ELSE LET k == <<labs[1], host>>
                                   old == IF k \in DOMAIN f THEN f[k] ELSE <<0, 0>>
                                   g == [x \in DOMAIN f \cup {k} |-> IF x = k THEN <<old[1] + 1, old[2] + n>> ELSE f[x]]
                               IN Book(g, Tail(labs), host, n)
Expected == UNION {{<<k[1], k[2], "count", exp[k][1]>>, <<k[1], k[2], "bytes", exp[k][2]>>} : k \in DOMAIN exp}
Observed(e) == {<<e.observed[i][1], e.observed[i][2], e.observed[i][3], e.observed[i][4]>> : i \in 1..Len(e.observed)}

TInit == l = 1 /\ prog = <<>> /\ exp = <<>> /\ xd = 0 /\ xb = 0 /\ tb = 0 /\ xl = <<>> /\ TLCSet(1, 1)
TNext ==
  /\ l <= Len(Trace) /\ l' = l + 1
  /\ CASE E.ev = "Program" -> prog' = E.steps /\ exp' = <<>> /\ xd' = 0 /\ xb' = 0 /\ tb' = 0 /\ xl' = <<>>
       [] E.ev = "LRec" /\ E.xdrop -> E.res = "rejected" /\ xd' = xd + 1 /\ xb' = xb + E.len /\ tb' = tb + E.len
                                     \* the labelled counter of the input's drop step that took it (two steps share the label lx)
                                     /\ xl' = (IF E.xlabel = "" THEN xl ELSE Book(xl, <<E.xlabel>>, "in", E.len))
                                     /\ UNCHANGED <<prog, exp>>   \* taken out by the input's own drop step
       [] E.ev = "LRec" /\ ~E.xdrop ->
                           /\ (E.res = "dropped") = Dropped(prog, E) /\ E.res \in {"dropped", "passed"}
                           /\ exp' = Book(exp, Hits(prog, 1, E), E.host, E.len) /\ tb' = tb + E.len /\ UNCHANGED <<prog, xd, xb, xl>>
       [] E.ev = "Labels" -> Observed(E) = Expected /\ UNCHANGED <<prog, exp, xd, xb, tb, xl>>
       \* input passed + dropped = messages received; pipeline passed + dropped = input passed (also with drops inside the input)
       [] E.ev = "Balance" -> /\ E.inPassed + E.inDropped = E.lines /\ E.inDropped = xd
                              /\ E.procPassed + E.procDropped = E.inPassed
                              \* ... each with its byte length, on the side it was counted
                              /\ E.inDroppedBytes = xb /\ E.inPassedBytes = tb - xb
                              /\ {<<E.inLabelled[i][1], E.inLabelled[i][2], E.inLabelled[i][3]>> : i \in 1..Len(E.inLabelled)}
                                   = {<<k[1], xl[k][1], xl[k][2]>> : k \in DOMAIN xl}
                              /\ UNCHANGED <<prog, exp, xd, xb, tb, xl>>
       [] OTHER -> FALSE
TSpec == TInit /\ [][TNext]_<<l, prog, exp, xd, xb, tb, xl>>
HWM == IF l > TLCGet(1) THEN TLCSet(1, l) ELSE TRUE
Accepted_ == IF TLCGet(1) = Len(Trace) + 1 THEN TRUE
             ELSE PrintT(<<"HWM", TLCGet(1), Trace[TLCGet(1)]>>) /\ FALSE
=============================================================================
