---------------------------- MODULE EventCodecTrace ----------------------------
EXTENDS EventCodec, Json
CONSTANTS TraceFile
Trace == ndJsonDeserialize(TraceFile)
VARIABLE l
Init == l = 1 /\ TLCSet(1, 1)
Next == l <= Len(Trace) /\ Check(Trace[l]) /\ l' = l + 1
Spec == Init /\ [][Next]_l
HWM == IF l > TLCGet(1) THEN TLCSet(1, l) ELSE TRUE
Accepted_ == IF TLCGet(1) = Len(Trace) + 1 THEN TRUE
             ELSE PrintT(<<"HWM", TLCGet(1), Trace[TLCGet(1)]>>) /\ FALSE
=============================================================================
