SPECIFICATION Spec
CONSTANTS
 Conns = {1, 2}
 Keys = {"a", "b"}
 Sizes = {1, 4}
 MaxLogs = 2
 MaxBytes = 6
 MaxRecs = 5
 MaxAdv = 1
 MaxRefused = 1
INVARIANTS Conservation OrderPerConnKey RightChannel NoEmptyBatch NothingLeftAfterClose Bounded PipesOk
PROPERTY FreshAfterFlush
CHECK_DEADLOCK FALSE
