SPECIFICATION Spec
CONSTANTS
 Conns = {1, 2}
 Keys = {"a", "b"}
 Sizes = {1, 4}
 MaxLogs = 3
 MaxBytes = 7
 MaxRecs = 5
 MaxAdv = 2
 MaxRefused = 1
INVARIANTS Conservation OrderPerConnKey RightChannel NoEmptyBatch NothingLeftAfterClose Bounded PipesOk
PROPERTY FreshAfterFlush
CHECK_DEADLOCK FALSE
