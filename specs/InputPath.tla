---------------------------- MODULE InputPath ----------------------------
(***************************************************************************
 The input side between a client connection and the pipeline channels:
   base/bsupport/logparsingreceiver.go   logParsingReceiverSink  Accept / Flush / Close / sendBuffer
   orchestrate/obykeyset/orchestrator.go byKeySetOrchestratorSink Accept / Tick / Close / flushAllLocalBuffers
   orchestrate/obykeyset/channelinputbuffer.go  Append / Flush
   util/localcachedmap                   one buffer per (connection, key set)
 A connection's records are parsed one by one (the parser may refuse a line),
 collected in the receiver's buffer, handed over in one call when the buffer
 reaches MaxLogs records or MaxBytes bytes or when the listener asks for a
 flush, sorted into one buffer per key set, and sent to the key set's pipeline
 channel as a batch when that buffer reaches the same thresholds, when a tick
 finds it older than the flush interval, or when the connection is closed.
 The listener's contract is part of the model: it calls Flush before Close.

 Time: the code compares wall-clock differences with the flush interval.  The
 model counts whole intervals: Advance is a pause at least one interval long;
 everything else takes no time.  (The replay driver sleeps for Advance and
 refuses to judge a run in which the other steps took a noticeable part of an
 interval.)

 What C01 and C05 rely on from this part:
   Conservation   every record the parser passed is in the receiver's buffer, in its key set's buffer, or delivered - once
   OrderPerConnKey  delivered ++ buffered records of one (connection, key set) are in arrival order
   NothingLeftAfterClose   a closed connection holds nothing back
   Bounded        the buffers never exceed the thresholds after a call returns
   FreshAfterFlush  after the listener's flush nothing older than one interval waits in a buffer
 ***************************************************************************)
EXTENDS Integers, Sequences, FiniteSets, FiniteSetsExt, TLC

CONSTANTS Conns, Keys, Sizes,  \* connections, key sets, record sizes
          MaxLogs, MaxBytes,   \* defs.IntermediateBufferMaxNumLogs / MaxTotalBytes
          MaxRecs, MaxAdv, MaxRefused  \* MC bounds: records accepted in total, pauses, refused lines

VARIABLES s
vars == <<s>>

\* a record: [id, c, k, sz]
Bytes(q) == LET RECURSIVE B(_) B(x) == IF x = <<>> THEN 0 ELSE Head(x).sz + B(Tail(x)) IN B(q)
Full(q) == Len(q) >= MaxLogs \/ Bytes(q) >= MaxBytes

S0 == [ rbuf  |-> [c \in Conns |-> <<>>],                     \* logParsingReceiverSink.bufferedLogs
        cache |-> [c \in Conns |-> [k \in Keys |-> <<>>]],    \* channelInputBuffer.PendingLogs of the connection's local map
        made  |-> [c \in Conns |-> {}],                       \* key sets for which the connection has a buffer (GetOrCreate)
        last  |-> [c \in Conns |-> [k \in Keys |-> 0]],       \* LastFlushTime in whole intervals
        now   |-> 0,
        open  |-> [c \in Conns |-> TRUE],
        pipes |-> <<>>,                                        \* key sets in order of pipeline creation
        out   |-> [k \in Keys |-> <<>>],                      \* batches sent to the pipeline channel of k, in order
        nrec  |-> 0, nadv |-> 0, refused |-> 0 ]
Init == s = S0

\* channelInputBuffer.Flush: the whole buffer becomes one batch on the channel
FlushKey(st, c, k) ==
  [st EXCEPT !.out[k] = Append(@, st.cache[c][k]), !.cache[c][k] = <<>>, !.last[c][k] = st.now]

\* byKeySetOrchestratorSink.Accept(buffer): record by record - GetOrCreate, Append, Flush when the thresholds are reached
RECURSIVE Sort(_, _, _)
Sort(st, c, q) ==
  IF q = <<>> THEN st
  ELSE LET r == Head(q)
           k == r.k
           st1 == IF k \in st.made[c] THEN st
                  ELSE [st EXCEPT !.made[c] = @ \cup {k}, !.last[c][k] = st.now,       \* new buffer: LastFlushTime = now
                                  !.pipes = IF \E i \in 1..Len(@) : @[i] = k THEN @ ELSE Append(@, k)]
           st2 == [st1 EXCEPT !.cache[c][k] = Append(@, r)]
           st3 == IF Full(st2.cache[c][k]) THEN FlushKey(st2, c, k) ELSE st2
       IN Sort(st3, c, Tail(q))
\* logParsingReceiverSink.sendBuffer
SendBuffer(st, c) == [Sort(st, c, st.rbuf[c]) EXCEPT !.rbuf[c] = <<>>]

\* flushAllLocalBuffers(forceAll)
RECURSIVE FlushSet(_, _, _)
FlushSet(st, c, K) == IF K = {} THEN st ELSE LET k == CHOOSE x \in K : TRUE IN FlushSet(FlushKey(st, c, k), c, K \ {k})
Due(st, c, force) == {k \in st.made[c] : st.cache[c][k] # <<>> /\ (force \/ st.now - st.last[c][k] >= 1)}

\* ---- the calls of one connection ----
Accept(c, k, sz) ==      \* a line the parser passes
  /\ s.open[c] /\ s.nrec < MaxRecs
  /\ LET r == [id |-> s.nrec + 1, c |-> c, k |-> k, sz |-> sz]
         st1 == [s EXCEPT !.rbuf[c] = Append(@, r), !.nrec = @ + 1]
     IN s' = IF Full(st1.rbuf[c]) THEN SendBuffer(st1, c) ELSE st1
AcceptRefused(c) ==      \* a line the parser refuses: nothing is buffered
  /\ s.open[c] /\ s.refused < MaxRefused /\ s' = [s EXCEPT !.refused = @ + 1]
Flush(c) ==              \* logParsingReceiverSink.Flush: send what is buffered, then Tick
  /\ s.open[c]
  /\ LET st1 == IF s.rbuf[c] # <<>> THEN SendBuffer(s, c) ELSE s
     IN s' = FlushSet(st1, c, Due(st1, c, FALSE))
Close(c) ==              \* the listener's end of a connection: Flush, then Close (everything goes)
  /\ s.open[c]
  /\ LET st1 == IF s.rbuf[c] # <<>> THEN SendBuffer(s, c) ELSE s
         st2 == FlushSet(st1, c, Due(st1, c, FALSE))
         st3 == FlushSet(st2, c, Due(st2, c, TRUE))
     IN s' = [st3 EXCEPT !.open[c] = FALSE]
Advance == s.nadv < MaxAdv /\ s' = [s EXCEPT !.now = @ + 1, !.nadv = @ + 1]

Next == \/ \E c \in Conns : (\E k \in Keys, sz \in Sizes : Accept(c, k, sz)) \/ AcceptRefused(c) \/ Flush(c) \/ Close(c)
        \/ Advance
Spec == Init /\ [][Next]_vars

\* ---- properties ----
RECURSIVE Cat(_)
Cat(bs) == IF bs = <<>> THEN <<>> ELSE Head(bs) \o Cat(Tail(bs))
SetOf(q) == {q[i] : i \in 1..Len(q)}
Sel(q, c, k) == SelectSeq(q, LAMBDA r : r.c = c /\ r.k = k)
IdsOf(q) == [i \in 1..Len(q) |-> q[i].id]
Everything == UNION ({SetOf(Cat(s.out[k])) : k \in Keys} \cup {SetOf(s.rbuf[c]) : c \in Conns}
                     \cup {SetOf(s.cache[c][k]) : c \in Conns, k \in Keys})
SumOver(S, f(_)) == MapThenSumSet(f, S)
Delivered(k) == Len(Cat(s.out[k]))
HeldBy(c) == Len(s.rbuf[c]) + SumOver(Keys, LAMBDA k : Len(s.cache[c][k]))
\* every record passed by the parser is in exactly one place (ids are unique, so the set and the count together say "once")
Conservation ==
  /\ {r.id : r \in Everything} = 1..s.nrec
  /\ SumOver(Keys, Delivered) + SumOver(Conns, HeldBy) = s.nrec
Increasing(q) == \A i, j \in 1..Len(q) : i < j => q[i] < q[j]
OrderPerConnKey ==
  \A c \in Conns, k \in Keys :
     Increasing(IdsOf(Sel(Cat(s.out[k]), c, k) \o s.cache[c][k] \o Sel(s.rbuf[c], c, k)))
RightChannel == \A k \in Keys : \A r \in SetOf(Cat(s.out[k])) : r.k = k
NoEmptyBatch == \A k \in Keys : \A i \in 1..Len(s.out[k]) : s.out[k][i] # <<>>
NothingLeftAfterClose == \A c \in Conns : ~s.open[c] => s.rbuf[c] = <<>> /\ \A k \in Keys : s.cache[c][k] = <<>>
Bounded == \A c \in Conns : ~Full(s.rbuf[c]) /\ \A k \in Keys : ~Full(s.cache[c][k])
\* a pipeline exists exactly for the key sets that had a record sorted into a buffer, in order of first arrival there
PipesOk == SetOf(s.pipes) = UNION {s.made[c] : c \in Conns} /\ Len(s.pipes) = Cardinality(SetOf(s.pipes))
\* action property: right after the listener's flush of c nothing of c has waited for a whole interval
FreshAfterFlush ==
  [][\A c \in Conns : Flush(c) => \A k \in Keys : s'.cache[c][k] # <<>> => s'.now - s'.last[c][k] < 1]_vars
=============================================================================
