---------------------------- MODULE FramingTrace ----------------------------
(***************************************************************************
 Step-by-step validation of the real multiLineReader against Framing: every
 Read / Flush / FlushAll of the real reader is logged with the bytes it was
 given, the records it handed to the consumer and both offsets afterwards;
 the model applies the same step to its own state and everything must agree.
 At the end of each schedule the valid records are compared with Ref(stream).
 ***************************************************************************)
EXTENDS Framing, Json
CONSTANTS TraceFile
Trace == ndJsonDeserialize(TraceFile)
VARIABLES l, tbuf, tsearch, tall, tflushed
tvars == <<l, tbuf, tsearch, tall, tflushed>>
E == Trace[l]

TInit == stream = <<>> /\ pos = 0 /\ buf = <<>> /\ search = 0 /\ emitted = <<>> /\ flushed = FALSE /\ done = FALSE
         /\ l = 1 /\ tbuf = <<>> /\ tsearch = 0 /\ tall = <<>> /\ tflushed = FALSE /\ TLCSet(1, 1)
Apply(r) == /\ r.out = E.out /\ r.search = E.search /\ Len(r.buf) = E.append
            /\ tbuf' = r.buf /\ tsearch' = r.search /\ tall' = tall \o r.out
TNext ==
  /\ l <= Len(Trace) /\ l' = l + 1 /\ UNCHANGED vars
  /\ CASE E.op = "new"      -> tbuf' = <<>> /\ tsearch' = 0 /\ tall' = <<>> /\ tflushed' = FALSE
       [] E.op = "read"     -> Apply(ReadStep(tbuf, tsearch, E.data)) /\ UNCHANGED tflushed
       [] E.op = "flush"    -> Apply(FlushStep(tbuf, tsearch)) /\ tflushed' = TRUE
       [] E.op = "flushall" -> Apply(FlushAllStep(tbuf, tsearch)) /\ UNCHANGED tflushed
       [] E.op = "end" ->
            /\ UNCHANGED <<tbuf, tsearch, tall, tflushed>>
            /\ LET v == ValidOnly(tall)
                   r == Ref(E.stream)
               IN /\ (~tflushed => v = r)
                  /\ (SingleLineOnly(E.stream) => v = r)
                  /\ Len(v) = Len(r) /\ \A i \in 1..Len(v) : FirstLine(v[i]) = FirstLine(r[i]) /\ IsPrefix(v[i], r[i])
TSpec == TInit /\ [][TNext]_<<tvars, vars>>
HWM == IF l > TLCGet(1) THEN TLCSet(1, l) ELSE TRUE
Accepted_ == IF TLCGet(1) = Len(Trace) + 1 THEN TRUE
             ELSE PrintT(<<"HWM", TLCGet(1), Trace[TLCGet(1)]>>) /\ FALSE
=============================================================================
