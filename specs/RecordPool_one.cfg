SPECIFICATION Spec
CONSTANTS
 Objs = {o1, o2, o3}
 MaxRecs = 5
 Outputs = 1
INVARIANTS TypeOK RefcountSane NoForeignProvenance PooledIsClean
CHECK_DEADLOCK FALSE
