SPECIFICATION TSpec
CONSTANTS
 TraceFile = "trace.ndjson"
 Clock = {1}
 MaxIds = 1000000
CONSTRAINT HWM
INVARIANTS Unique CreationOrder
POSTCONDITION Accepted_
CHECK_DEADLOCK FALSE
