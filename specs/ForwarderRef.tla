----------------------------- MODULE ForwarderRef -----------------------------
(* refinement: Forwarder (impl-shaped) implements AtLeastOnceLink (what Agent.tla assumes of a pipeline's forwarding client) *)
EXTENDS Forwarder
L == INSTANCE AtLeastOnceLink WITH MaxChunk <- NChunks,
       taken <- Taken, got <- s.sentOk, conf <- Range(s.consumed), back <- Range(s.handed), fin <- s.finished
Refines == L!LSpec
=============================================================================
