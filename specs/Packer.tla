---------------------------- MODULE Packer ----------------------------
(***************************************************************************
 Packing of serialized records into chunks: output/shared/messagepacker.go
 (WriteStream / FlushBuffer), fluentdforward/chunk.go and datadog/chunk.go
 (Write, CanAppendData, FinalizeChunk and their byte accounting).  A record
 is <<stamp, size>>; a chunk is the sequence of its records.
   Mode "ff": accounted bytes = sum of sizes.
   Mode "dd": JSON array: "[" is accounted when the chunk is opened, every record adds its size + 1 for the delimiter
              (also the first one), and CanAppendData reserves 1 for "]"; the body really is 2 + sum + (n - 1) bytes.
 ***************************************************************************)
EXTENDS Integers, Sequences, FiniteSets, TLC

CONSTANTS Mode, MaxBytes, MaxRecords,   \* limits (0 = no limit)
          Sizes, MaxInput               \* MC: record sizes, number of writes

NOCHUNK == <<>>
RECURSIVE Sum(_)
Sum(recs) == IF recs = <<>> THEN 0 ELSE Head(recs)[2] + Sum(Tail(recs))
Accounted(recs) == IF Mode = "dd" THEN 1 + Sum(recs) + Len(recs) ELSE Sum(recs)
BodySize(recs)  == IF Mode = "dd" THEN 2 + Sum(recs) + (Len(recs) - 1) ELSE Sum(recs)
CanAppend(recs, sz) ==
  /\ ~(MaxRecords > 0 /\ Len(recs) >= MaxRecords)
  /\ ~(MaxBytes > 0 /\ Accounted(recs) + sz + (IF Mode = "dd" THEN 1 ELSE 0) > MaxBytes)

\* WriteStream: returns [open |-> new open chunk, out |-> finalized chunk or NOCHUNK]
WriteStep(open, rec) ==
  IF open # <<>> /\ ~CanAppend(open, rec[2]) THEN [open |-> <<rec>>, out |-> open]
  ELSE [open |-> Append(open, rec), out |-> NOCHUNK]
\* FlushBuffer
FlushStep(open) == [open |-> <<>>, out |-> open]

VARIABLES input, open, emitted
vars == <<input, open, emitted>>
Init == input = <<>> /\ open = <<>> /\ emitted = <<>>
Emit(r) == IF r.out = NOCHUNK THEN emitted ELSE Append(emitted, r.out)
Write(sz) ==
  LET rec == <<Len(input) + 1, sz>>
      r == WriteStep(open, rec)
  IN /\ Len(input) < MaxInput
     /\ open' = r.open
     /\ emitted' = Emit(r)
     /\ input' = Append(input, rec)
Flush ==
  LET r == FlushStep(open)
  IN /\ open' = r.open
     /\ emitted' = Emit(r)
     /\ UNCHANGED input
Next == (\E sz \in Sizes : Write(sz)) \/ Flush
Spec == Init /\ [][Next]_vars

RECURSIVE Flatten(_)
Flatten(cs) == IF cs = <<>> THEN <<>> ELSE Head(cs) \o Flatten(Tail(cs))
\* nothing lost, duplicated or reordered at chunk boundaries or flushes
Concatenation == Flatten(emitted) \o open = input
NoEmptyChunk == \A i \in 1..Len(emitted) : emitted[i] # <<>>
\* no chunk exceeds the limits unless a single record alone does
WithinLimits == \A i \in 1..Len(emitted) :
                  \/ Len(emitted[i]) = 1
                  \/ /\ (MaxRecords > 0 => Len(emitted[i]) <= MaxRecords)
                     /\ (MaxBytes > 0 => BodySize(emitted[i]) <= MaxBytes)
\* a chunk is closed only when the next record would not fit (chunks are as full as the limits allow)
=============================================================================
