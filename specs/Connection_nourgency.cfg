SPECIFICATION Spec
CONSTANTS
 MaxTime = 6
 Deadlines = {1, 3}
 Urgent = FALSE
INVARIANTS TypeOK NoOperationOutlivesItsBound OkOnlyWithAnAnswer
PROPERTIES NothingPendsOnAClosedConnectionForLong SilentPeerNeverAcks
CHECK_DEADLOCK FALSE
