SPECIFICATION Spec
CONSTANTS
 N = 3
 Q = 2
 M = 2
 MaxBytes = 3
 Sizes = {1, 2}
 MaxGen = 2
 DirUsable = FALSE
 IoFaults = 0
 WriteFaults = 0
 EarlyHandBack = TRUE
INVARIANTS NothingLost NoSilentLoss TypeOK ConfirmedGone ConfirmedOnce Fifo DiskWithinLimit GaugeCoversDisk ChunkBalance
CHECK_DEADLOCK FALSE
