SPECIFICATION TSpec
CONSTANTS
 Outs = 2
 MaxChunk = 3
 Cap = 3
 MaxRecs = 100000
 MaxBatch = 6
 MaxTicks = 100000
 MaxSilent = 40
 TraceFile = "trace.ndjson"
CONSTRAINT HWM
INVARIANTS InOrderOnce NothingHeldBack NoEmptyChunk ChunkWithinLimit Accounted
POSTCONDITION Accepted_
CHECK_DEADLOCK FALSE
