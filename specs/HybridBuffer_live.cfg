SPECIFICATION FairSpec
CONSTANTS
 N = 2
 Q = 2
 M = 2
 MaxBytes = 3
 Sizes = {1, 2}
 MaxGen = 1
 DirUsable = TRUE
 IoFaults = 0
 WriteFaults = 1
 EarlyHandBack = FALSE
INVARIANTS TypeOK
PROPERTIES DestroyTerminates
CHECK_DEADLOCK FALSE
