---------------------------- MODULE EventCodec ----------------------------
(***************************************************************************
 Reference definition of what a serialized Fluentd event must decode to
 (output/fluentdforward/eventserializer.go, rewrite/rinline, runescape, rcopy,
 util/stringunescape): the record's timestamp, exactly its non-empty,
 non-hidden, non-environment fields in schema order with the rewrite result
 where a rewriter chain is configured, and the nested environment map with
 every configured field (empty included).
 A value is a triple [p, n, s] = bytes p, then n times the byte 'a', then bytes
 s (n > 0 only for long values, whose p does not end in a backslash or 'a' and
 whose s does not start with 'a'); names are byte sequences.
 ***************************************************************************)
EXTENDS Integers, Sequences, TLC

BS == 92
Map(c) == CASE c = 98 -> 8 [] c = 102 -> 12 [] c = 110 -> 10 [] c = 114 -> 13 [] c = 116 -> 9 [] c = 92 -> 92 [] OTHER -> 0
\* unescape \b \f \n \r \t \\ ; any other \x and a trailing lone backslash are kept
RECURSIVE U(_, _)
U(s, i) == IF i > Len(s) THEN <<>>
           ELSE IF s[i] = BS /\ i < Len(s)
                  THEN (IF Map(s[i + 1]) # 0 THEN <<Map(s[i + 1])>> ELSE <<BS, s[i + 1]>>) \o U(s, i + 2)
                  ELSE <<s[i]>> \o U(s, i + 1)
Unesc(s) == U(s, 1)

TLen(v) == Len(v.p) + v.n + Len(v.s)
UnescT(v) == [p |-> Unesc(v.p), n |-> v.n, s |-> Unesc(v.s)]
Cat(bytes, v) == [p |-> bytes \o v.p, n |-> v.n, s |-> v.s]
\* canonical form: a short value keeps everything in p
Canon(v) == IF v.n = 0 THEN [p |-> v.p \o v.s, n |-> 0, s |-> <<>>] ELSE v

Index(seq, x) == IF \E i \in 1..Len(seq) : seq[i] = x THEN CHOOSE i \in 1..Len(seq) : seq[i] = x ELSE 0

\* the value a rewriter chain writes for field value v of record e (chain items: <<"inline", name>>, <<"unescape">>, <<"copy">>)
RECURSIVE Rw(_, _, _, _)
Rw(e, chain, k, v) ==
  LET item == chain[k] IN
  CASE item[1] = "copy" -> v
    [] item[1] = "unescape" -> IF e.unescaped THEN v ELSE UnescT(v)
    [] item[1] = "inline" ->
         LET fv == e.values[Index(e.schema, item[2])] IN
         IF TLen(fv) > 0 THEN Cat(item[2] \o <<61>> \o fv.p \o <<32>>, Rw(e, chain, k + 1, v))
         ELSE Rw(e, chain, k + 1, v)

ChainOf(e, name) == LET i == Index([j \in 1..Len(e.rewrite) |-> e.rewrite[j][1]], name) IN IF i = 0 THEN <<>> ELSE e.rewrite[i][2]
Masked(e, name) == Index(e.env, name) # 0 \/ Index(e.hidden, name) # 0

RECURSIVE VisibleFrom(_, _)
VisibleFrom(e, i) ==
  IF i > Len(e.schema) THEN <<>>
  ELSE LET name == e.schema[i]
           v == e.values[i]
       IN IF Masked(e, name) \/ TLen(v) = 0 THEN VisibleFrom(e, i + 1)
          ELSE <<<<name, Canon(IF ChainOf(e, name) = <<>> THEN v ELSE Rw(e, ChainOf(e, name), 1, v))>>>> \o VisibleFrom(e, i + 1)
Visible(e) == VisibleFrom(e, 1)
EnvMap(e) == [j \in 1..Len(e.env) |-> <<e.env[j], Canon(e.values[Index(e.schema, e.env[j])])>>]

Decodes(e, d) ==
  /\ d.ok                                   \* well-formed MessagePack, every byte consumed, nothing else
  /\ d.time = e.time
  /\ d.fields = Visible(e)
  /\ d.env = EnvMap(e)
\* the first output's event and the event a second output produces from the very same record afterwards
Check(e) == e.res # "panic" /\ Decodes(e, e.decoded) /\ Decodes(e, e.second)
=============================================================================
