SPECIFICATION LiveSpec
CONSTANTS
 Outs = 2
 MaxChunk = 2
 Cap = 1
 MaxRecs = 4
 MaxBatch = 2
 MaxTicks = 2
INVARIANTS InOrderOnce NothingHeldBack NoEmptyChunk ChunkWithinLimit Accounted
PROPERTIES NothingAfterStopped StopTerminates
CHECK_DEADLOCK FALSE
