SPECIFICATION TSpec
CONSTANTS
 N = 12
 Q = 2
 M = 2
 MaxBytes = 3
 Sizes = {1, 2, 3}
 MaxGen = 100
 DirUsable = TRUE
 IoFaults = 100
 WriteFaults = 100
 EarlyHandBack = TRUE
 MaxSilent = 12
 TraceFile = "trace.ndjson"
CONSTRAINT HWM
INVARIANTS NothingLost NoSilentLoss TypeOK ConfirmedGone ConfirmedOnce Fifo DiskWithinLimit GaugeCoversDisk ChunkBalance AllPersisted
POSTCONDITION Accepted_
CHECK_DEADLOCK FALSE
