SPECIFICATION TSpec
CONSTANTS
 K = 6
 Lens = {1, 2, 3}
 MaxLives = 3
 MaxSilent = 8
 TraceFile = "trace.ndjson"
CONSTRAINT HWM
INVARIANTS NeverTruncatedUpstream MarkedSavedOnlyIfWhole ChunkNamesAreWhole BadFileDoesNotBlock FailedNotForwarded
POSTCONDITION Accepted_
CHECK_DEADLOCK FALSE
