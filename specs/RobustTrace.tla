---------------------------- MODULE RobustTrace ----------------------------
(***************************************************************************
 Trace validation for C07.  Record level (drv/rb): every byte string presented
 as a record to the real parse -> extract -> transform -> serialize -> pack path
 has one of the outcomes of Robust (refused / passed on, then delivered or
 dropped by a filter) - "panic" and "undecodable" are outcomes no action has -
 the two sentinel records around it come out unchanged, and every batch of
 cases is accounted for by the input counters.  Stream level (drv/rbs): after
 every script played against the agent process it is alive, accepts a new
 connection, has delivered every sentinel, and has released the connections'
 file descriptors.
 ***************************************************************************)
EXTENDS Integers, Sequences, TLC, Json
CONSTANTS TraceFile
Trace == ndJsonDeserialize(TraceFile)
VARIABLES l, alive, listening, refused, passed
E == Trace[l]
TInit == l = 1 /\ alive = TRUE /\ listening = TRUE /\ refused = 0 /\ passed = 0 /\ TLCSet(1, 1)
TNext ==
  /\ l <= Len(Trace) /\ l' = l + 1
  /\ CASE E.ev = "Rec" ->
            /\ E.res \in {"rejected", "passed", "dropped"}       \* SendBad / SendGood: refused, or passed on
            /\ E.sentinels                                         \* NeighboursIntact
            /\ refused' = refused + (IF E.res = "rejected" THEN 1 ELSE 0)
            /\ passed' = passed + (IF E.res = "rejected" THEN 0 ELSE 1)
            /\ UNCHANGED <<alive, listening>>
       [] E.ev = "Batch" ->
            /\ E.rejected = refused /\ E.parsed = passed          \* the driver's own tally is the one replayed above
            /\ E.dDropped = refused /\ E.dPassed = passed         \* EveryRecordCounted, by the agent's input counters
            /\ refused' = 0 /\ passed' = 0 /\ UNCHANGED <<alive, listening>>
       [] E.ev = "Config" -> refused' = 0 /\ passed' = 0 /\ UNCHANGED <<alive, listening>>
       [] E.ev = "Stream" ->
            /\ alive' = E.alive /\ listening' = E.acceptsAfter
            /\ alive' /\ listening'                               \* Alive, Listening
            /\ E.sentinelsDelivered = E.sentinelsSent             \* SentinelsDelivered
            /\ E.undecodable = 0
            /\ (E.fdBound >= 0 => E.fdAfter - E.fdBefore <= E.fdBound)   \* Disconnect releases the descriptor
            /\ UNCHANGED <<refused, passed>>
       [] E.ev = "Stopped" -> E.clean /\ UNCHANGED <<alive, listening, refused, passed>>
       [] OTHER -> FALSE
TSpec == TInit /\ [][TNext]_<<l, alive, listening, refused, passed>>
HWM == IF l > TLCGet(1) THEN TLCSet(1, l) ELSE TRUE
Accepted_ == IF TLCGet(1) = Len(Trace) + 1 THEN TRUE
             ELSE PrintT(<<"HWM", TLCGet(1), Trace[TLCGet(1)]>>) /\ FALSE
=============================================================================
