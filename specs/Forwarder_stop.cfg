SPECIFICATION NoTimerFairSpec
CONSTANTS
 NChunks = 2
 AckCap = 1
 Faults = 1
 AllowStop = TRUE
 MaxSoft = 0
 AllowSteal = TRUE
 InOrderAck = FALSE
 LiveSoft = FALSE
INVARIANTS TypeOK
PROPERTIES StopTerminates
CHECK_DEADLOCK FALSE
