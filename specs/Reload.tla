---------------------------- MODULE Reload ----------------------------
(***************************************************************************
 Configuration reload at the orchestrator API: run/reloadable.go (NewSink,
 ReloadableSink.Accept/Tick/Close, reload) and the sink life cycle of a
 connection in input/tcplistener/tcplinelistener.go runConnection (socket
 number = client number = slot; the socket number becomes free for reuse when
 the connection is closed).  FixNewSink / FixCloseOrder select the order of
 steps: TRUE = as the code is today (downstream sink created under the read
 lock; sink closed before the socket is released); FALSE = the two orders the
 pinned tree had, kept so that TLC can exhibit why they are unsafe.
 FixCloseLock: TRUE = ReloadableSink.Close calls the downstream Close and clears
 the slot under the read lock (today's code); FALSE = the slot is cleared under
 the lock and the downstream Close - the final flush, which may wait for busy
 pipelines - runs after the lock is released (a plausible lock-scope reduction;
 a reload can then shut the generation down in between).  The three FALSE
 settings are negative controls: TLC has to refute each of them.
 Safe: no Accept/Tick/Close reaches a sink of a generation that was shut down,
 no nil sink, one user per sink, no slot taken while occupied.
 ***************************************************************************)
EXTENDS Naturals, FiniteSets, TLC
CONSTANTS Conns, Fds, MaxReload, MaxAccept, FixNewSink, FixCloseOrder, FixCloseLock
NIL == [gen |-> 0, owner |-> 0]
VARIABLES gen, alive, slots, sock, pc, fd, mine, nacc, rpc, readers, writer, nrel, bad
vars == <<gen, alive, slots, sock, pc, fd, mine, nacc, rpc, readers, writer, nrel, bad>>

Init == /\ gen = 1 /\ alive = [g \in 1..(MaxReload + 1) |-> g = 1]
        /\ slots = [f \in Fds |-> NIL] /\ sock = [f \in Fds |-> 0]
        /\ pc = [c \in Conns |-> "idle"] /\ fd = [c \in Conns |-> 0] /\ mine = [c \in Conns |-> NIL] /\ nacc = [c \in Conns |-> 0]
        /\ rpc = "idle" /\ readers = {} /\ writer = FALSE /\ nrel = 0 /\ bad = {}

\* use of the sink stored in the slot of connection c by connection c
Use(c, what) ==
  LET sk == slots[fd[c]] IN
    bad' = bad \cup (IF sk = NIL THEN {<<"nil", what>>} ELSE {})
               \cup (IF sk # NIL /\ ~alive[sk.gen] THEN {<<"deadgen", what>>} ELSE {})
               \cup (IF sk # NIL /\ sk.owner # c THEN {<<"shared", what>>} ELSE {})

AcceptConn(c, f) ==   \* listener accepts; the socket number is free
  /\ pc[c] = "idle" /\ sock[f] = 0
  /\ sock' = [sock EXCEPT ![f] = c] /\ fd' = [fd EXCEPT ![c] = f] /\ pc' = [pc EXCEPT ![c] = IF FixNewSink THEN "ns2" ELSE "ns1"]
  /\ UNCHANGED <<gen, alive, slots, mine, nacc, rpc, readers, writer, nrel, bad>>
NewSinkCreate(c) ==   \* orc.downstream.NewSink(...)  -- before the lock in today's code
  /\ pc[c] = "ns1" /\ mine' = [mine EXCEPT ![c] = [gen |-> gen, owner |-> c]] /\ pc' = [pc EXCEPT ![c] = "ns2"]
  /\ UNCHANGED <<gen, alive, slots, sock, fd, nacc, rpc, readers, writer, nrel, bad>>
NewSinkLock(c) ==
  /\ pc[c] = "ns2" /\ ~writer /\ readers' = readers \cup {c}
  /\ mine' = IF FixNewSink THEN [mine EXCEPT ![c] = [gen |-> gen, owner |-> c]] ELSE mine
  /\ pc' = [pc EXCEPT ![c] = "ns3"]
  /\ UNCHANGED <<gen, alive, slots, sock, fd, nacc, rpc, writer, nrel, bad>>
NewSinkStore(c) ==
  /\ pc[c] = "ns3"
  /\ bad' = bad \cup (IF slots[fd[c]] # NIL THEN {<<"slotBusy", "newsink">>} ELSE {})
  /\ slots' = [slots EXCEPT ![fd[c]] = mine[c]] /\ readers' = readers \ {c} /\ pc' = [pc EXCEPT ![c] = "run"]
  /\ UNCHANGED <<gen, alive, sock, fd, mine, nacc, rpc, writer, nrel>>
\* ReloadableSink.Accept: RLock; (*ptr).Accept; RUnlock  (atomic: nothing else can change the slot while a reader holds)
AcceptRec(c) ==
  /\ pc[c] = "run" /\ nacc[c] < MaxAccept /\ ~writer
  /\ Use(c, "accept") /\ nacc' = [nacc EXCEPT ![c] = @ + 1]
  /\ UNCHANGED <<gen, alive, slots, sock, fd, mine, pc, rpc, readers, writer, nrel>>
ReadEnd(c) ==         \* read error/EOF: FlushAll, connAborter.Signal()
  /\ pc[c] = "run" /\ pc' = [pc EXCEPT ![c] = IF FixCloseOrder THEN "end3" ELSE "end2"]
  /\ UNCHANGED <<gen, alive, slots, sock, fd, mine, nacc, rpc, readers, writer, nrel, bad>>
CloseSocket(c) ==     \* closer goroutine: conn.Close() releases the socket number
  /\ pc[c] \in (IF FixCloseOrder THEN {"done"} ELSE {"end2", "end3", "done"}) /\ fd[c] # 0 /\ sock[fd[c]] = c
  /\ sock' = [sock EXCEPT ![fd[c]] = 0]
  /\ UNCHANGED <<gen, alive, slots, pc, fd, mine, nacc, rpc, readers, writer, nrel, bad>>
FinalFlush(c) ==      \* recvChan.Flush(): Accept/Tick through the slot
  /\ pc[c] = "end2" /\ ~writer /\ Use(c, "flush") /\ pc' = [pc EXCEPT ![c] = "end3"]
  /\ UNCHANGED <<gen, alive, slots, sock, fd, mine, nacc, rpc, readers, writer, nrel>>
SinkClose(c) ==       \* deferred recvChan.Close(): RLock; (*ptr).Close(); *ptr = nil; RUnlock
  /\ FixCloseLock /\ pc[c] = "end3" /\ ~writer /\ Use(c, "close")
  /\ slots' = [slots EXCEPT ![fd[c]] = NIL] /\ pc' = [pc EXCEPT ![c] = "done"]
  /\ UNCHANGED <<gen, alive, sock, fd, mine, nacc, rpc, readers, writer, nrel>>
SinkCloseTake(c) ==   \* variant: RLock; d := *ptr; *ptr = nil; RUnlock  (the sink taken out is remembered in mine[c])
  /\ ~FixCloseLock /\ pc[c] = "end3" /\ ~writer
  /\ mine' = [mine EXCEPT ![c] = slots[fd[c]]]
  /\ slots' = [slots EXCEPT ![fd[c]] = NIL] /\ pc' = [pc EXCEPT ![c] = "end4"]
  /\ UNCHANGED <<gen, alive, sock, fd, nacc, rpc, readers, writer, nrel, bad>>
SinkCloseOutside(c) == \* variant: d.Close() without the lock: the final flush goes to whatever generation d belongs to
  /\ pc[c] = "end4"
  /\ bad' = bad \cup (IF mine[c] = NIL THEN {<<"nil", "close">>} ELSE {})
                \cup (IF mine[c] # NIL /\ ~alive[mine[c].gen] THEN {<<"deadgen", "close">>} ELSE {})
  /\ pc' = [pc EXCEPT ![c] = "done"]
  /\ UNCHANGED <<gen, alive, slots, sock, fd, mine, nacc, rpc, readers, writer, nrel>>
Reopen(c) ==          \* the same client connects again later
  /\ pc[c] = "done" /\ sock[fd[c]] # c /\ pc' = [pc EXCEPT ![c] = "idle"] /\ fd' = [fd EXCEPT ![c] = 0] /\ nacc' = [nacc EXCEPT ![c] = 0]
  /\ UNCHANGED <<gen, alive, slots, sock, mine, rpc, readers, writer, nrel, bad>>

RInitiate == rpc = "idle" /\ nrel < MaxReload /\ rpc' = "lock" /\ nrel' = nrel + 1
             /\ UNCHANGED <<gen, alive, slots, sock, pc, fd, mine, nacc, readers, writer, bad>>
RLockW    == rpc = "lock" /\ readers = {} /\ writer' = TRUE /\ rpc' = "shutdown"
             /\ UNCHANGED <<gen, alive, slots, sock, pc, fd, mine, nacc, readers, nrel, bad>>
RShutdown == rpc = "shutdown" /\ alive' = [alive EXCEPT ![gen] = FALSE] /\ rpc' = "renew"   \* close sinks + downstream.Shutdown
             /\ UNCHANGED <<gen, slots, sock, pc, fd, mine, nacc, readers, writer, nrel, bad>>
RRenew    == rpc = "renew" /\ gen' = gen + 1 /\ alive' = [alive EXCEPT ![gen + 1] = TRUE]
             /\ slots' = [f \in Fds |-> IF slots[f] = NIL THEN NIL ELSE [gen |-> gen + 1, owner |-> slots[f].owner]]
             /\ rpc' = "unlock"
             /\ UNCHANGED <<sock, pc, fd, mine, nacc, readers, writer, nrel, bad>>
RUnlockW  == rpc = "unlock" /\ writer' = FALSE /\ rpc' = "idle"
             /\ UNCHANGED <<gen, alive, slots, sock, pc, fd, mine, nacc, readers, nrel, bad>>

Next == \/ \E c \in Conns : \/ (\E f \in Fds : AcceptConn(c, f)) \/ NewSinkCreate(c) \/ NewSinkLock(c) \/ NewSinkStore(c)
                            \/ AcceptRec(c) \/ ReadEnd(c) \/ CloseSocket(c) \/ FinalFlush(c) \/ SinkClose(c) \/ SinkCloseTake(c) \/ SinkCloseOutside(c) \/ Reopen(c)
        \/ RInitiate \/ RLockW \/ RShutdown \/ RRenew \/ RUnlockW
Spec == Init /\ [][Next]_vars
Safe == bad = {}
=============================================================================
