SPECIFICATION Spec
CONSTANTS
 N = 3
 Q = 2
 M = 2
 MaxBytes = 3
 Sizes = {1, 2}
 MaxGen = 2
 DirUsable = TRUE
 IoFaults = 0
 WriteFaults = 0
 EarlyHandBack = FALSE
INVARIANTS NothingLost NoSilentLoss TypeOK ConfirmedGone ConfirmedOnce Fifo DiskWithinLimit GaugeCoversDisk ChunkBalance AllPersisted
CHECK_DEADLOCK FALSE
