---------------------------- MODULE Routing ----------------------------
(***************************************************************************
 Routing of records to pipelines, queue directories and tags by the values of
 the orchestration key fields: util/localcachedmap (lookup key),
 orchestrate/obykeyset/orchestrator.go (pipeline id = buffer id, recovery of ids
 into key tuples), orchestrate/obase/tagbuilder.go (tag), hybridbuffer
 queuedirs.go (.id file).  A key tuple is a sequence of values, a value a
 sequence of bytes.  The names the code derives from a tuple are operators, so
 TLC itself decides whether two different tuples can share one.
 ***************************************************************************)
EXTENDS Integers, Sequences, FiniteSets, TLC

CONSTANTS Alphabet,    \* MC: the values a key field may take
          NKeys        \* MC: number of key fields

COMMA == 44
BSL == 92

\* lookup key of LocalCachedMap.GetOrCreate / SelectMetricKeySet: every value is preceded by its length
RECURSIVE Digits(_)
Digits(n) == IF n < 10 THEN <<48 + n>> ELSE Digits(n \div 10) \o <<48 + (n % 10)>>
RECURSIVE LookupKey(_)
LookupKey(t) == IF t = <<>> THEN <<>> ELSE Digits(Len(Head(t))) \o <<58>> \o Head(t) \o LookupKey(Tail(t))

\* pipeline id = buffer id = content of the .id file: values joined by ',' with ',' and '\' escaped by '\'
RECURSIVE Esc(_)
Esc(v) == IF v = <<>> THEN <<>>
          ELSE (IF Head(v) \in {COMMA, BSL} THEN <<BSL, Head(v)>> ELSE <<Head(v)>>) \o Esc(Tail(v))
RECURSIVE JoinEsc(_)
JoinEsc(t) == IF Len(t) = 1 THEN Esc(t[1]) ELSE Esc(Head(t)) \o <<COMMA>> \o JoinEsc(Tail(t))
\* (a single empty value is represented by a lone escape character: the empty id would mean "the queue root itself")
PipelineId(t) == IF t = <<<<>>>> THEN <<BSL>> ELSE JoinEsc(t)
\* ... and back: split at unescaped commas, undoing the escapes
RECURSIVE SplitId(_, _, _)
SplitId(id, i, cur) ==
  IF i > Len(id) THEN <<cur>>
  ELSE IF id[i] = BSL /\ i < Len(id) THEN SplitId(id, i + 2, Append(cur, id[i + 1]))
  ELSE IF id[i] = COMMA THEN <<cur>> \o SplitId(id, i + 1, <<>>)
  ELSE SplitId(id, i + 1, Append(cur, id[i]))
KeysOfId(id) == IF id = <<BSL>> THEN <<<<>>>> ELSE SplitId(id, 1, <<>>)

\* tag = template applied to the tuple's own values; a template is a sequence of parts <<0, literal bytes>> | <<1, key index>>
RECURSIVE Tag(_, _)
Tag(tpl, t) == IF tpl = <<>> THEN <<>>
               ELSE (IF Head(tpl)[1] = 0 THEN Head(tpl)[2] ELSE t[Head(tpl)[2]]) \o Tag(Tail(tpl), t)

(* ---- model: all pairs of tuples ---- *)
RECURSIVE Tuples(_)
Tuples(n) == IF n = 0 THEN {<<>>} ELSE {<<v>> \o t : v \in Alphabet, t \in Tuples(n - 1)}
VARIABLES t1, t2
Init == t1 \in Tuples(NKeys) /\ t2 \in Tuples(NKeys)
Next == UNCHANGED <<t1, t2>>
Spec == Init /\ [][Next]_<<t1, t2>>
\* two tuples that differ in any position never share a lookup key or a pipeline id (hence queue directory)
Injective == t1 # t2 => (LookupKey(t1) # LookupKey(t2) /\ PipelineId(t1) # PipelineId(t2))
\* a recovered id leads back to exactly the tuple that produced it
Reattach == KeysOfId(PipelineId(t1)) = t1

(* ---- one scenario recorded from the real orchestrator (see RoutingTrace) ---- *)
Index(seq, x) == IF \E i \in 1..Len(seq) : seq[i] = x THEN CHOOSE i \in 1..Len(seq) : seq[i] = x ELSE 0
RECURSIVE Distinct(_, _)
Distinct(seq, acc) == IF seq = <<>> THEN acc
                      ELSE Distinct(Tail(seq), IF Index(acc, Head(seq)) = 0 THEN Append(acc, Head(seq)) ELSE acc)
\* expected pipelines for arrivals (tuples in arrival order): one per distinct tuple, in order of first arrival
ExpectedPipelines(tpl, arrivals) ==
  LET ds == Distinct(arrivals, <<>>) IN [i \in 1..Len(ds) |-> <<PipelineId(ds[i]), Tag(tpl, ds[i])>>]
ExpectedRouting(arrivals) ==
  LET ds == Distinct(arrivals, <<>>) IN [i \in 1..Len(arrivals) |-> Index(ds, arrivals[i])]
SetOf(seq) == {seq[i] : i \in 1..Len(seq)}

\* concurrent scenario (ev = "RTC"): several connections, each with its own sink, route records of their own tuples at the
\* same time.  e.conns[c] = tuples connection c sends (each e.rounds times); e.pipelines = <<id, tag, tuples received
\* (distinct), records received>>.  Whatever the interleaving: one pipeline per tuple, named and tagged by that tuple, and
\* it receives exactly the records of that tuple - routing depends on the record's own key fields, not on what another
\* connection is routing at that moment.
RECURSIVE CountIn(_, _)
CountIn(seq, x) == IF seq = <<>> THEN 0 ELSE (IF Head(seq) = x THEN 1 ELSE 0) + CountIn(Tail(seq), x)
RECURSIVE SumSent(_, _)
SumSent(conns, t) == IF conns = <<>> THEN 0 ELSE CountIn(Head(conns), t) + SumSent(Tail(conns), t)
CheckConcurrent(e) ==
  LET all == UNION {SetOf(e.conns[c]) : c \in 1..Len(e.conns)} IN
  /\ e.res # "panic"
  /\ {<<p[1], p[2]>> : p \in SetOf(e.pipelines)} = {<<PipelineId(t), Tag(e.template, t)>> : t \in all}
  /\ Len(e.pipelines) = Cardinality(all)
  /\ \A p \in SetOf(e.pipelines) :
        /\ SetOf(p[3]) = {t \in all : PipelineId(t) = p[1]}
        /\ p[4] = e.rounds * SumSent(e.conns, KeysOfId(p[1]))

Check(e) ==
  IF e.ev = "RTC" THEN CheckConcurrent(e) ELSE
  /\ e.res # "panic"
  \* first life: pipelines, routing, directories
  /\ e.p1.pipelines = ExpectedPipelines(e.template, e.arrivals1)
  /\ e.p1.routed = ExpectedRouting(e.arrivals1)
  /\ SetOf(e.dirs) = {p[1] : p \in SetOf(e.p1.pipelines)}            \* one directory (.id file) per pipeline id
  /\ e.ndirs = Len(e.p1.pipelines)                                    \* ... and as many directories as pipelines
  \* second life on the same queue root: the queues found at startup are reattached to the pipelines of their tuples,
  \* records go to those pipelines, no second pipeline for a tuple
  /\ LET rec == SetOf(e.p2.recovered)
         exp1 == SetOf(e.p1.pipelines)
     IN /\ rec = exp1 /\ Len(e.p2.recovered) = Len(e.p1.pipelines)
        /\ \A i \in 1..Len(e.arrivals2) :
             LET want == <<PipelineId(e.arrivals2[i]), Tag(e.template, e.arrivals2[i])>> IN
             e.p2.routedTo[i] = want
        /\ SetOf(e.p2.pipelines) = exp1 \cup {<<PipelineId(t), Tag(e.template, t)>> : t \in SetOf(e.arrivals2)}
        /\ Len(e.p2.pipelines) = Cardinality(SetOf(e.p2.pipelines))
=============================================================================
