---------------------------- MODULE ReloadTrace ----------------------------
(***************************************************************************
 Observer for runs of the real ReloadableOrchestrator (drv/rl): the events of
 the recording downstream orchestrators (DNewSink / DAccept / DTick / DClose /
 DShutdown / DStart, logged inside the downstream calls, i.e. under the lock the
 wrapper holds), the operations of the scripted connection goroutines (OpBegin /
 OpEnd, Panic) and of the reloader (ReloadBegin / Initiate / ReloadEnd).
   NeverUseDeadGeneration  no downstream call reaches a generation after its Shutdown
   OneUserPerSink          no sink is created for a client number whose sink in a live generation is still open
   NoRecordLost            a record the wrapper accepted (OpEnd accept) was handed to a sink of a live generation
   NoNilSink               no operation panics
   FailedReloadIsNoop      a refused reload touches no sink and no generation
   SinksTakenOver          a successful reload closes every open sink, shuts the old generation down, starts the next one
                           and re-creates exactly the sinks that were open
 ***************************************************************************)
EXTENDS Integers, Sequences, FiniteSets, TLC, Json
CONSTANTS TraceFile
Trace == ndJsonDeserialize(TraceFile)
VARIABLES l, o
E == Trace[l]
O0 == [gen |-> 1, alive |-> {1}, open |-> {},       \* open: <<gen, num>> sinks created and not closed
       delivered |-> {},                              \* messages handed to a sink of a live generation
       rl |-> "none", rlOpenBefore |-> {}, rlGenBefore |-> 1, rlKind |-> "", rlTouched |-> FALSE]
SetOfSeq(q) == {q[i] : i \in 1..Len(q)}
Nums(S, g) == {p[2] : p \in {q \in S : q[1] = g}}

TInit == l = 1 /\ o = O0 /\ TLCSet(1, 1)
Touch(x) == [x EXCEPT !.rlTouched = IF o.rl = "none" THEN @ ELSE TRUE]
TNext ==
  /\ l <= Len(Trace) /\ l' = l + 1
  /\ CASE E.ev = "DNewSink" ->
            /\ E.gen \in o.alive                                                  \* NeverUseDeadGeneration
            /\ ~\E p \in o.open : p[2] = E.num /\ p[1] \in o.alive               \* OneUserPerSink
            /\ o' = Touch([o EXCEPT !.open = @ \cup {<<E.gen, E.num>>}])
       [] E.ev = "DAccept" ->
            /\ E.gen \in o.alive /\ <<E.gen, E.num>> \in o.open
            /\ o' = Touch([o EXCEPT !.delivered = @ \cup SetOfSeq(E.msgs)])
       [] E.ev = "DTick" -> E.gen \in o.alive /\ <<E.gen, E.num>> \in o.open /\ o' = Touch(o)
       [] E.ev = "DClose" ->
            /\ E.gen \in o.alive /\ <<E.gen, E.num>> \in o.open
            /\ o' = Touch([o EXCEPT !.open = @ \ {<<E.gen, E.num>>}])
       [] E.ev = "DShutdown" ->
            /\ E.gen = o.gen /\ o.rl = "ok"
            /\ Nums(o.open, E.gen) = {}                                          \* every sink of the generation was closed first
            /\ o' = Touch([o EXCEPT !.alive = @ \ {E.gen}])
       [] E.ev = "DStart" ->
            /\ E.gen = o.gen + 1 /\ o.rl = "ok" /\ o.gen \notin o.alive          \* the old generation is shut down before the new one starts
            /\ o' = Touch([o EXCEPT !.gen = E.gen, !.alive = @ \cup {E.gen}])
       [] E.ev = "ReloadBegin" -> o.rl = "none" /\ o' = [o EXCEPT !.rl = "begun", !.rlKind = E.kind, !.rlTouched = FALSE]
       [] E.ev = "Initiate" ->
            /\ o.rl = "begun" /\ E.ok = (o.rlKind = "ok")
            /\ o' = [o EXCEPT !.rl = IF E.ok THEN "ok" ELSE "refused", !.rlOpenBefore = o.open, !.rlGenBefore = o.gen, !.rlTouched = FALSE]
       [] E.ev = "ReloadEnd" ->
            /\ o.rl \in {"ok", "refused"}
            /\ (o.rl = "refused" => o.gen = o.rlGenBefore /\ o.alive = {o.gen})     \* FailedReloadIsNoop (DShutdown / DStart need rl = "ok")
            /\ (o.rl = "ok" => /\ o.alive = {o.gen}
                               /\ \A p \in o.open : p[1] = o.gen)                 \* nothing stays open on a dead generation
            /\ o' = [o EXCEPT !.rl = "none"]
       [] E.ev = "OpEnd" ->
            /\ (E.op = "accept" => E.msg \in o.delivered)                        \* NoRecordLost
            /\ UNCHANGED o
       [] E.ev \in {"OpBegin", "GateHeld", "TcpConnected", "TcpSent", "TcpClosed", "End"} -> UNCHANGED o
       [] E.ev = "RESET" -> o' = O0
       [] OTHER -> FALSE      \* HUNG, Panic, HarnessError, ...: no action explains them
       \* Panic, GateTimeout, HUNG, HarnessError: no action explains them
TSpec == TInit /\ [][TNext]_<<l, o>>
HWM == IF l > TLCGet(1) THEN TLCSet(1, l) ELSE TRUE
Accepted_ == IF TLCGet(1) = Len(Trace) + 1 THEN TRUE
             ELSE PrintT(<<"HWM", TLCGet(1), Trace[TLCGet(1)]>>) /\ FALSE
=============================================================================
